#!/bin/bash
# Builds the framework offline from files on disk.
set -eu
cd "$(dirname "$0")"
export GOFLAGS=-mod=mod GOPROXY=off GOSUMDB=off GOTOOLCHAIN=local
mkdir -p bin .work evidence replays
(cd gosym && go build -o ../bin/gosym .)
echo "gosym built"
