#!/bin/bash
# Builds the framework offline from files on disk.
set -eu
cd "$(dirname "$0")"
export GOFLAGS=-mod=mod GOPROXY=off GOSUMDB=off GOTOOLCHAIN=local
mkdir -p bin .work evidence replays
(cd gosym && go build -o ../bin/gosym .)
echo "gosym built"
# validation of the encoder and of the harness-side models: native self-tests
# (lexer/parser models against the generated ANTLR code) and the concrete
# differential tests (executor vs native build on fixed inputs)
./bin/gosym selftest || { echo "SELFTEST FAILED" >&2; exit 1; }
