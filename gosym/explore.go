package main

// Path exploration: depth-first over decision prefixes with re-execution.

import (
	"fmt"
	"go/types"
	"os"
	"sort"
	"strings"
	"sync"
	"time"

	"golang.org/x/tools/go/ssa"
)

type dec struct {
	v      int64
	forced bool
}

type inputRec struct {
	Name string `json:"name"`
	Kind string `json:"kind"` // byte, bool, int, choice
	term *Term
	Val  int64  `json:"v"`
	Str  string `json:"s,omitempty"`
}

type pathExec struct {
	h                *Harness
	prefix           []dec
	taken            []dec
	inputs           []inputRec
	unwind           int
	covers           map[string]bool
	notes            []string
	known            []string
	verbose          bool
	recovered        int
	tainted          bool
	nsym             int
	symOrder         bool
	frozen           map[*value]string
	guarded          map[*value]string
	sharedMaps       map[*smap]string
	guardedMaps      map[*smap]string
	lockDepth        int
	asserted         int
	pc               []*Term
	vinfo            map[*Term]*varInfo
	vecs             map[*Term]*vec
	domForced        int
	domBoth          int
	placeholders     map[*Term]int
	placeholderTerms []*Term
}

type Failure struct {
	Harness string     `json:"harness"`
	Msg     string     `json:"msg"`
	Where   string     `json:"where,omitempty"`
	Inputs  []inputRec `json:"inputs"`
	Known   string     `json:"known,omitempty"`
	Kind    string     `json:"kind"` // assert, panic, hang
	Stack   string     `json:"stack,omitempty"`
	Replay  string     `json:"replay,omitempty"`
	Repro   string     `json:"reproduced,omitempty"`
}

type pathResult struct {
	kind    string // pass, fail, infeasible, unwind, unsupported, undecided, budget
	msg     string
	fail    *Failure
	covers  map[string]bool
	notes   []string
	sample  []inputRec
	nsym    int
	ninputs int
	steps   int64
	tainted bool
	wall    float64
	first   string
}

type Harness struct {
	ID       string // e.g. "C12/VerifC12Lossless"
	Prop     string
	Fn       *ssa.Function
	Unwind   int
	MaxPaths int
	Budget   int64
	// HangIsViolation: the harness comment says "// hang: violation" — the
	// property includes termination, so a path that exhausts the instruction
	// budget or an unwinding bound is a candidate hang: it gets a model and
	// is confirmed natively (the native run must not finish within 120 s)
	HangIsViolation bool
}

type HarnessResult struct {
	Harness       string         `json:"harness"`
	Paths         map[string]int `json:"paths"`
	Covers        map[string]int `json:"covers"`
	Failures      []*Failure     `json:"failures,omitempty"`
	Incomplete    []string       `json:"incomplete,omitempty"`
	Samples       []interface{}  `json:"samples,omitempty"`
	Notes         []string       `json:"notes,omitempty"`
	NontrivPath   int            `json:"nontrivial_paths"`
	Steps         int64          `json:"instructions"`
	Truncated     bool           `json:"truncated"`
	WallS         float64        `json:"wall_s"`
	failSeen      map[string]int
	incSeen       map[string]int
	rawSamples    [][]inputRec
	sampledCovers map[string]bool
}

type workItem struct {
	prefix []dec
}

type Explorer struct {
	pops        int
	sh          *Shared
	workers     []*Worker
	mu          sync.Mutex
	cond        *sync.Cond
	queue       []workItem
	active      int
	stop        bool
	res         *HarnessResult
	h           *Harness
	deadline    time.Time
	pathCount   int
	funcs       map[*ssa.Function]struct{}
	mapRanges   map[string]int
	pathTimeout time.Duration
}

type Worker struct {
	id            int
	in            *Interp
	solver        *Solver
	xsolver       *Solver
	ex            *Explorer
	domDecisions  int
	crossEvery    int
	crossChecked  int
	crossMismatch int
	decisions     int
}

func (i *Interp) solver() *Solver { return i.worker.solver }

// ---- decisions --------------------------------------------------------

func (i *Interp) needEx(what string) *pathExec {
	if i.ex == nil {
		panic(unsupported{"symbolic " + what + " outside a path"})
	}
	return i.ex
}

// decide resolves a symbolic condition: returns the branch taken on this path.
func (i *Interp) decide(c *Term, fr *frame, what string) bool {
	if c.IsConst() {
		return c.val == 1
	}
	ex := i.needEx(what)
	ex.nsym++
	pos := len(ex.taken)
	s := i.worker.solver
	if pos < len(ex.prefix) {
		d := ex.prefix[pos]
		ex.taken = append(ex.taken, d)
		if !d.forced {
			if d.v == 1 {
				i.addConstraint(c)
			} else {
				i.addConstraint(i.ts.Not(c))
			}
		}
		return d.v == 1
	}
	nc := i.ts.Not(c)
	if !i.pathDeadline.IsZero() && time.Now().After(i.pathDeadline) {
		panic(pathEnd{kind: "budget", msg: "per-path time limit exceeded (solver time) at " + fr.fi.name})
	}
	if nt, nf, exact, ok := i.domCheck(c); ok {
		if nf == 0 && nt > 0 {
			ex.taken = append(ex.taken, dec{v: 1, forced: true})
			ex.domForced++
			i.crossCheck(c, true, false)
			return true
		}
		if nt == 0 && nf > 0 {
			ex.taken = append(ex.taken, dec{v: 0, forced: true})
			ex.domForced++
			i.crossCheck(c, false, true)
			return false
		}
		if exact && nt > 0 && nf > 0 {
			ex.domBoth++
			i.crossCheck(c, true, true)
			alt := make([]dec, pos+1)
			copy(alt, ex.taken)
			alt[pos] = dec{v: 0}
			i.worker.ex.push(workItem{prefix: alt})
			ex.taken = append(ex.taken, dec{v: 1})
			i.addConstraint(c)
			return true
		}
	}
	v1, _ := s.Check(c, nil)
	if v1 == Unsat {
		ex.taken = append(ex.taken, dec{v: 0, forced: true})
		return false
	}
	if v1 == Unknown {
		panic(pathEnd{kind: "undecided", msg: "branch condition undecided by z3 5.1, z3 4.8 and cvc5 at " + fr.fi.name + ": " + c.String()})
	}
	v0, _ := s.Check(nc, nil)
	if v0 == Unsat {
		ex.taken = append(ex.taken, dec{v: 1, forced: true})
		return true
	}
	if v1 == Unknown || v0 == Unknown {
		// the solvers could not decide this branch within their limits: give up
		// on the path (reported as undecided, never as a pass)
		panic(pathEnd{kind: "undecided", msg: "branch condition undecided by z3 5.1, z3 4.8 and cvc5 at " + fr.fi.name + ": " + c.String()})
	}
	// both feasible: follow true, queue false
	alt := make([]dec, pos+1)
	copy(alt, ex.taken)
	alt[pos] = dec{v: 0}
	i.worker.ex.push(workItem{prefix: alt})
	ex.taken = append(ex.taken, dec{v: 1})
	i.addConstraint(c)
	return true
}

// crossCheck re-decides a sample of the domain pass's verdicts with the SMT
// solver; a disagreement is an executor defect and poisons the run.
func (i *Interp) crossCheck(c *Term, canTrue, canFalse bool) {
	w := i.worker
	w.domDecisions++
	if w.domDecisions%w.crossEvery != 0 {
		return
	}
	vi := i.ex.vinfo[c.sv]
	if vi == nil {
		return
	}
	// the claim under test: over the current domain of c's only variable the
	// condition can / cannot be true / false.  It is re-decided by the SMT
	// solver on a second process, against an explicit encoding of the domain
	// (independent of the path condition, so the query stays cheap).
	w.crossChecked++
	dom := i.domTerm(c.sv, vi)
	v1 := w.xsolver.CheckStandalone(dom, c)
	v0 := w.xsolver.CheckStandalone(dom, i.ts.Not(c))
	ok := (v1 == Unknown || (v1 == Sat) == canTrue) && (v0 == Unknown || (v0 == Sat) == canFalse)
	if !ok {
		w.crossMismatch++
		if f := os.Getenv("GOSYM_XDEBUG"); f != "" {
			if fh, err := os.OpenFile(f, os.O_APPEND|os.O_CREATE|os.O_WRONLY, 0644); err == nil {
				r := i.vecEval(c, vi)
				fmt.Fprintf(fh, "; MISMATCH canTrue=%v canFalse=%v smt(c)=%v smt(not c)=%v entangled=%v\n; vals/results:", canTrue, canFalse, v1, v0, vi.entangled)
				for k := range vi.vals {
					if vi.dom[k>>6]&(1<<(uint(k)&63)) != 0 {
						fmt.Fprintf(fh, " %d:%d", vi.vals[k], r[k])
					}
				}
				fmt.Fprintln(fh)
				for _, l := range termScript(dom, c) {
					fmt.Fprintln(fh, l)
				}
				fmt.Fprintf(fh, "(assert %s)\n(assert %s)\n(check-sat)\n(get-model)\n\n", dom.ref(), c.ref())
				fh.Close()
			}
		}
		panic(unsupported{"domain pass and SMT solver disagree on " + c.String()})
	}
}

// domTerm encodes membership of v in its current domain.
func (i *Interp) domTerm(v *Term, vi *varInfo) *Term {
	ts := i.ts
	res := ts.ff
	n := len(vi.vals)
	for k := 0; k < n; {
		if vi.dom[k>>6]&(1<<(uint(k)&63)) == 0 {
			k++
			continue
		}
		j := k
		for j+1 < n && vi.dom[(j+1)>>6]&(1<<(uint(j+1)&63)) != 0 && vi.vals[j+1] == vi.vals[j]+1 {
			j++
		}
		var in *Term
		if v.w == 0 {
			in = ts.Eq(v, ts.Bool(vi.vals[k] == 1))
			j = k
		} else if j == k {
			in = ts.Eq(v, ts.BV(vi.vals[k], v.w))
		} else {
			// consecutive candidate values (as two's complement): v - lo <= hi - lo
			in = ts.Cmp(OpULE, ts.Bin(OpSub, v, ts.BV(vi.vals[k], v.w)), ts.BV(vi.vals[j]-vi.vals[k], v.w))
		}
		res = ts.Or(res, in)
		k = j + 1
	}
	return res
}

// truth is decide for a value that may be a concrete bool.
func (i *Interp) truth(v value, fr *frame, what string) bool {
	switch v := v.(type) {
	case bool:
		return v
	case *Term:
		return i.decide(v, fr, what)
	}
	panic(fmt.Sprintf("truth of %T", v))
}

// concretize forks over the feasible values of t within [lo,hi] (signed).
func (i *Interp) concretize(t *Term, lo, hi int, fr *frame) int {
	if t.IsConst() {
		return int(sext(t.val, t.w))
	}
	ex := i.needEx("concretize")
	ex.nsym++
	pos := len(ex.taken)
	s := i.worker.solver
	eq := func(k int) *Term { return i.ts.Eq(t, i.ts.BV(uint64(int64(k)), t.w)) }
	if pos < len(ex.prefix) {
		d := ex.prefix[pos]
		ex.taken = append(ex.taken, d)
		if !d.forced {
			i.addConstraint(eq(int(d.v)))
		}
		return int(d.v)
	}
	var feas []int
	if dv, ok := i.domValues(t); ok {
		for _, k := range dv {
			if k >= lo && k <= hi {
				feas = append(feas, k)
			}
		}
		sort.Ints(feas)
	} else if hi-lo >= 0 && hi-lo <= 16 {
		for k := lo; k <= hi; k++ {
			v, _ := s.Check(eq(k), nil)
			if v != Unsat {
				if v == Unknown {
					ex.tainted = true
				}
				feas = append(feas, k)
			}
		}
	} else {
		// model-guided enumeration
		excl := i.ts.tt
		for len(feas) <= 256 {
			v, m := s.Check(excl, []*Term{t})
			if v == Unsat {
				break
			}
			if v == Unknown {
				panic(pathEnd{kind: "undecided", msg: "cannot enumerate values of " + t.String()})
			}
			var k int
			for _, mv := range m {
				k = int(sext(mv, t.w))
			}
			if t.op != OpVar {
				// get-value of a defined term: name is t<id>
				if mv, ok := m[t.ref()]; ok {
					k = int(sext(mv, t.w))
				}
			}
			feas = append(feas, k)
			excl = i.ts.And(excl, i.ts.Not(eq(k)))
		}
		if len(feas) > 256 {
			panic(unsupported{"concretize: more than 256 feasible values for " + t.String() + " at " + fr.fi.name})
		}
		sort.Ints(feas)
	}
	if len(feas) == 0 {
		// values outside [lo,hi] only: let the caller's bounds check fail with lo-1
		panic(pathEnd{kind: "infeasible", msg: "no feasible value in range"})
	}
	for _, k := range feas[1:] {
		alt := make([]dec, pos+1)
		copy(alt, ex.taken)
		alt[pos] = dec{v: int64(k)}
		i.worker.ex.push(workItem{prefix: alt})
	}
	k := feas[0]
	ex.taken = append(ex.taken, dec{v: int64(k), forced: len(feas) == 1})
	if len(feas) > 1 {
		i.addConstraint(eq(k))
	}
	return k
}

// choice forks over n alternatives without a term.
func (i *Interp) choice(n int) int {
	if n <= 1 {
		return 0
	}
	ex := i.needEx("choice")
	pos := len(ex.taken)
	if pos < len(ex.prefix) {
		d := ex.prefix[pos]
		ex.taken = append(ex.taken, d)
		return int(d.v)
	}
	for k := n - 1; k >= 1; k-- {
		alt := make([]dec, pos+1)
		copy(alt, ex.taken)
		alt[pos] = dec{v: int64(k)}
		i.worker.ex.push(workItem{prefix: alt})
	}
	ex.taken = append(ex.taken, dec{v: 0})
	return 0
}

func (i *Interp) assume(c value, fr *frame) {
	switch c := c.(type) {
	case bool:
		if !c {
			panic(pathEnd{kind: "infeasible", msg: "assume(false)"})
		}
	case *Term:
		ex := i.needEx("assume")
		s := i.worker.solver
		pos := len(ex.taken)
		if pos < len(ex.prefix) {
			// assumes are recorded as decisions so that replay needs no query
			d := ex.prefix[pos]
			ex.taken = append(ex.taken, d)
			if !d.forced {
				i.addConstraint(c)
			}
			return
		}
		if nt, nf, exact, ok := i.domCheck(c); ok && (nt == 0 || nf == 0 || exact) {
			if nt == 0 {
				panic(pathEnd{kind: "infeasible", msg: "assume"})
			}
			ex.taken = append(ex.taken, dec{v: 1, forced: nf == 0})
			if nf > 0 {
				i.addConstraint(c)
			}
			return
		}
		v, _ := s.Check(c, nil)
		if v == Unsat {
			panic(pathEnd{kind: "infeasible", msg: "assume"})
		}
		if v == Unknown {
			ex.tainted = true
		}
		ex.taken = append(ex.taken, dec{v: 1})
		i.addConstraint(c)
	}
}

// ---- failure ----------------------------------------------------------

func (i *Interp) inputVars() []*Term {
	var vs []*Term
	seen := map[*Term]bool{}
	for _, in := range i.ex.inputs {
		if in.term != nil && in.term.op == OpVar && !seen[in.term] {
			seen[in.term] = true
			vs = append(vs, in.term)
		}
	}
	return vs
}

// model returns concrete input values satisfying the current path condition.
func (i *Interp) model() ([]inputRec, Verdict) {
	ex := i.ex
	vars := i.inputVars()
	out := make([]inputRec, len(ex.inputs))
	copy(out, ex.inputs)
	if len(vars) == 0 {
		return out, Sat
	}
	v, m := i.worker.solver.Check(nil, vars)
	if v != Sat {
		return out, v
	}
	for k := range out {
		if out[k].term != nil {
			u := m[out[k].term.name]
			switch out[k].Kind {
			case "int":
				out[k].Val = sext(u, out[k].term.w)
			default:
				out[k].Val = int64(u)
			}
		}
	}
	return out, Sat
}

func (i *Interp) fail(kind, msg, where string, fr *frame) {
	ex := i.ex
	inputs, v := i.model()
	if v == Unsat {
		panic(pathEnd{kind: "infeasible", msg: "failure on an infeasible path"})
	}
	if v == Unknown {
		panic(pathEnd{kind: "undecided", msg: "failure reached but path condition undecided: " + msg})
	}
	f := &Failure{Harness: ex.h.ID, Msg: msg, Where: where, Inputs: inputs, Kind: kind}
	if len(ex.known) > 0 {
		f.Known = ex.known[len(ex.known)-1]
	}
	if fr != nil {
		f.Stack = stackOf(fr)
	} else {
		f.Stack = i.failStack
	}
	panic(failPanic{f})
}

type failPanic struct{ f *Failure }

func stackOf(fr *frame) string {
	var sb strings.Builder
	n := 0
	for f := fr; f != nil && n < 12; f = f.caller {
		sb.WriteString(f.fi.name)
		sb.WriteString(" <- ")
		n++
	}
	return sb.String()
}

// ---- running one path -------------------------------------------------

func (w *Worker) runPath(h *Harness, prefix []dec) (res pathResult) {
	i := w.in
	ex := &pathExec{h: h, prefix: prefix, unwind: h.Unwind, covers: map[string]bool{}}
	i.ex = ex
	i.ts = NewTermStore()
	i.steps = 0
	i.budget = h.Budget
	i.depth = 0
	i.clock = 0
	i.uuidSeq = 0
	i.jsonRaws = nil
	i.parseText = nil
	i.tr.on = true
	i.pathDeadline = time.Now().Add(w.ex.pathTimeout)
	w.solver.BeginPath()
	defer func() {
		r := recover()
		res.covers = ex.covers
		res.wall = time.Since(i.pathDeadline.Add(-w.ex.pathTimeout)).Seconds()
		for k, in := range ex.inputs {
			if k < 3 {
				res.first += fmt.Sprintf("%s=%d%s ", in.Name, in.Val, in.Str)
			}
		}
		res.notes = ex.notes
		res.nsym = ex.nsym
		res.ninputs = len(ex.inputs)
		res.steps = i.steps
		res.tainted = ex.tainted
		switch r := r.(type) {
		case nil:
		case pathEnd:
			res.kind, res.msg = r.kind, r.msg
			if r.kind == "budget" {
				res.kind = "unwind"
			}
			if res.kind == "unwind" && h.HangIsViolation {
				if m, v := i.model(); v == Sat {
					res.kind = "fail"
					res.fail = &Failure{Harness: h.ID, Msg: "no termination within the bound: " + r.msg, Inputs: m, Kind: "hang"}
				}
			}
		case unsupported:
			res.kind, res.msg = "unsupported", r.what
		case failPanic:
			res.kind, res.msg, res.fail = "fail", r.f.Msg, r.f
		case targetPanic:
			// escaped the harness: a crash of the code under test
			func() {
				defer func() {
					r2 := recover()
					switch r2 := r2.(type) {
					case failPanic:
						res.kind, res.msg, res.fail = "fail", r2.f.Msg, r2.f
					case pathEnd:
						res.kind, res.msg = r2.kind, r2.msg
					case nil:
					default:
						res.kind, res.msg = "unsupported", fmt.Sprint(r2)
					}
				}()
				i.failStack = r.stack
				i.fail("panic", "panic: "+i.panicText(r.v), r.where, nil)
			}()
		default:
			res.kind, res.msg = "unsupported", fmt.Sprintf("internal: %v", r)
		}
		if res.kind == "pass" && len(ex.inputs) > 0 && w.ex.wantSample(ex.covers) {
			if m, v := i.model(); v == Sat {
				res.sample = m
			}
		}
		w.decisions += len(ex.taken)
		w.solver.EndPath()
		i.tr.undo()
		i.ex = nil
	}()
	i.callSSA(nil, 0, h.Fn, nil, nil)
	res.kind = "pass"
	return
}

func (i *Interp) panicText(v value) string {
	if it, ok := v.(iface); ok {
		if it.t == nil {
			return "nil"
		}
		if s, ok := it.v.(string); ok {
			return s
		}
		// error / Stringer
		for _, m := range []string{"Error", "String"} {
			if f := i.findMethod(it.t, m); f != nil {
				var out value
				func() {
					defer func() {
						if r := recover(); r != nil {
							out = fmt.Sprintf("<%s() failed>", m)
						}
					}()
					out = i.callFn(nil, f, it.v)
				}()
				return describeStr(out)
			}
		}
		return describe(it)
	}
	return describe(v)
}

func describeStr(v value) string {
	switch s := v.(type) {
	case string:
		return s
	}
	return describe(v)
}

func (i *Interp) findMethod(t types.Type, name string) *ssa.Function {
	ms := i.prog.MethodSets.MethodSet(t)
	for k := 0; k < ms.Len(); k++ {
		sel := ms.At(k)
		if sel.Obj().Name() == name {
			return i.prog.MethodValue(sel)
		}
	}
	return nil
}

// ---- explorer ---------------------------------------------------------

func (e *Explorer) push(it workItem) {
	e.mu.Lock()
	e.queue = append(e.queue, it)
	e.mu.Unlock()
	e.cond.Signal()
}

// wantSample: the first few passing paths, and the first passing path that
// witnesses each cover label (at most 8 per harness), get a model: they are
// the sample paths replayed natively.
func (e *Explorer) wantSample(covers map[string]bool) bool {
	e.mu.Lock()
	defer e.mu.Unlock()
	if len(e.res.Samples) < 4 {
		return true
	}
	if len(e.res.rawSamples) >= 8 {
		return false
	}
	for c := range covers {
		if !e.res.sampledCovers[c] {
			return true
		}
	}
	return false
}

func (e *Explorer) pop() (workItem, bool) {
	e.mu.Lock()
	defer e.mu.Unlock()
	for {
		if e.stop {
			return workItem{}, false
		}
		if n := len(e.queue); n > 0 {
			// depth first (the frontier stays small), but every 8th item is the
			// oldest one: the shallowest open alternative, so that an exploration
			// that hits its budget has sampled every top-level region of the
			// input space rather than exhausted the last one
			e.pops++
			k := n - 1
			if e.pops%8 == 0 {
				k = 0
			}
			it := e.queue[k]
			copy(e.queue[k:], e.queue[k+1:])
			e.queue = e.queue[:n-1]
			e.active++
			return it, true
		}
		if e.active == 0 {
			e.cond.Broadcast()
			return workItem{}, false
		}
		e.cond.Wait()
	}
}

func (e *Explorer) done(r pathResult) {
	e.mu.Lock()
	defer e.mu.Unlock()
	e.active--
	res := e.res
	res.Paths[r.kind]++
	res.Steps += r.steps
	e.pathCount++
	if (r.nsym > 0 || r.ninputs > 0) && (r.kind == "pass" || r.kind == "fail") {
		res.NontrivPath++
	}
	for c := range r.covers {
		res.Covers[c]++
	}
	for _, n := range r.notes {
		if len(res.Notes) < 12 {
			res.Notes = append(res.Notes, n)
		}
	}
	if r.sample != nil {
		fresh := false
		for c := range r.covers {
			if !res.sampledCovers[c] {
				fresh = true
			}
		}
		if len(res.rawSamples) < 2 || (fresh && len(res.rawSamples) < 8) {
			res.rawSamples = append(res.rawSamples, r.sample)
			for c := range r.covers {
				res.sampledCovers[c] = true
			}
		}
	}
	if r.sample != nil && len(res.Samples) < 4 {
		res.Samples = append(res.Samples, map[string]interface{}{"path": "pass", "inputs": renderInputs(r.sample)})
	}
	switch r.kind {
	case "fail":
		if fl := os.Getenv("GOSYM_FAILLOG"); fl != "" {
			if f, err := os.OpenFile(fl, os.O_APPEND|os.O_CREATE|os.O_WRONLY, 0644); err == nil {
				fmt.Fprintf(f, "%s known=%q %s | %v | %v\n", e.h.ID, r.fail.Known, r.fail.Msg, renderInputs(r.fail.Inputs), r.notes)
				f.Close()
			}
		}
		key := r.fail.Msg + "|" + r.fail.Where + "|" + r.fail.Known
		res.failSeen[key]++
		if res.failSeen[key] <= 3 {
			res.Failures = append(res.Failures, r.fail)
		}
	case "unwind", "unsupported", "undecided":
		key := r.kind + ": " + r.msg
		res.incSeen[key]++
		if res.incSeen[key] == 1 && len(res.Incomplete) < 20 {
			res.Incomplete = append(res.Incomplete, key)
		}
	}
	if r.tainted && r.kind == "pass" {
		res.Paths["pass_with_unknown_branch"]++
	}
	if e.pathCount >= e.h.MaxPaths || time.Now().After(e.deadline) {
		if len(e.queue) > 0 || e.active > 0 {
			res.Truncated = true
		}
		e.stop = true
		e.cond.Broadcast()
	}
	if e.active == 0 && len(e.queue) == 0 {
		e.cond.Broadcast()
	}
}

func renderInputs(in []inputRec) []string {
	// group bytes of the same name into a quoted string
	var out []string
	for k := 0; k < len(in); {
		if in[k].Kind == "byte" {
			name := in[k].Name
			var bs []byte
			for k < len(in) && in[k].Kind == "byte" && in[k].Name == name {
				bs = append(bs, byte(in[k].Val))
				k++
			}
			out = append(out, fmt.Sprintf("%s=%q", name, bs))
			continue
		}
		if in[k].Kind == "choiceof" {
			out = append(out, fmt.Sprintf("%s=%s", in[k].Name, in[k].Str))
		} else {
			out = append(out, fmt.Sprintf("%s=%d", in[k].Name, in[k].Val))
		}
		k++
	}
	return out
}

// Explore runs all paths of harness h.
func (e *Explorer) Explore(h *Harness, timeout time.Duration) *HarnessResult {
	t0 := time.Now()
	e.h = h
	e.res = &HarnessResult{Harness: h.ID, Paths: map[string]int{}, Covers: map[string]int{}, failSeen: map[string]int{}, incSeen: map[string]int{}, sampledCovers: map[string]bool{}}
	e.queue = []workItem{{}}
	e.active = 0
	e.stop = false
	e.pathCount = 0
	e.deadline = t0.Add(timeout)
	var wg sync.WaitGroup
	for _, w := range e.workers {
		wg.Add(1)
		go func(w *Worker) {
			defer wg.Done()
			for {
				it, ok := e.pop()
				if !ok {
					return
				}
				r := w.runPath(h, it.prefix)
				if os.Getenv("GOSYM_VERBOSE") != "" {
					fmt.Fprintf(os.Stderr, "[w%d] path %s %s (decisions %d, steps %d, %.3fs) %s\n", w.id, r.kind, r.msg, r.nsym, r.steps, r.wall, r.first)
				}
				e.done(r)
			}
		}(w)
	}
	wg.Wait()
	e.res.WallS = time.Since(t0).Seconds()
	return e.res
}

// runForResult executes a niladic string-returning function without unknowns.
func (w *Worker) runForResult(fn *ssa.Function) (out string, kind string) {
	i := w.in
	h := &Harness{ID: fn.Name(), Fn: fn, Unwind: 64, MaxPaths: 1, Budget: 400000000}
	ex := &pathExec{h: h, unwind: 64, covers: map[string]bool{}}
	i.ex = ex
	i.ts = NewTermStore()
	i.steps, i.budget, i.depth, i.clock, i.uuidSeq = 0, h.Budget, 0, 0, 0
	i.tr.on = true
	i.pathDeadline = time.Now().Add(w.ex.pathTimeout)
	w.solver.BeginPath()
	defer func() {
		if r := recover(); r != nil {
			kind, out = "error", short(r)
		}
		w.solver.EndPath()
		i.tr.undo()
		i.ex = nil
	}()
	res := i.callSSA(nil, 0, fn, nil, nil)
	s, ok := res.(string)
	if !ok {
		return describe(res), "symbolic-result"
	}
	return s, "pass"
}
