package main

// Monitors: hooks called on memory accesses (used by the C08/C09 checks).

import (
	"fmt"
	"strings"

	"golang.org/x/tools/go/ssa"
)

func (i *Interp) noteWrite(addr *value, fr *frame, in ssa.Instruction)  {}
func (i *Interp) noteRead(addr *value, fr *frame, in ssa.Instruction)   {}
func (i *Interp) noteMapWrite(m *smap, fr *frame, in ssa.Instruction)   {}
func (i *Interp) noteMapRead(m *smap, fr *frame, in ssa.Instruction)    {}

// mapOrder returns the iteration order for a range over m.
func (i *Interp) mapOrder(m *smap, fr *frame, in ssa.Instruction) []int {
	o := m.order()
	if i.ex == nil || !i.ex.symOrder || len(o) < 2 {
		return o
	}
	// only ranges executed by goflow / gocommon code are made arbitrary: the
	// harness's own bookkeeping and the standard library are left alone
	pk := ""
	if fr.fn.Pkg != nil {
		pk = fr.fn.Pkg.Pkg.Path()
	} else if o := fr.fn.Origin(); o != nil && o.Pkg != nil {
		pk = o.Pkg.Pkg.Path()
	} else if par := fr.fn.Parent(); par != nil && par.Pkg != nil {
		pk = par.Pkg.Pkg.Path()
	}
	name := strings.ToLower(fr.fn.String())
	if !strings.HasPrefix(pk, "github.com/nyaruka/") || strings.Contains(name, "verif") {
		return o
	}
	site := fr.pos(in)
	i.mapRange[fmt.Sprintf("%s (n=%d)", site, len(o))]++
	// arbitrary order: insertion order, its reversal, or (n ≥ 3) the rotation
	// by one — three candidate orders per range (all n! would multiply across
	// the ranges of one execution); the harness compares against a run in
	// insertion order
	n := 2
	if len(o) >= 3 {
		n = 3
	}
	switch i.choice(n) {
	case 1:
		out := make([]int, len(o))
		for a := range o {
			out[a] = o[len(o)-1-a]
		}
		return out
	case 2:
		return append(append([]int{}, o[1:]...), o[0])
	}
	return o
}

func permutations(n int) [][]int {
	if n == 1 {
		return [][]int{{0}}
	}
	var out [][]int
	for _, p := range permutations(n - 1) {
		for pos := 0; pos <= len(p); pos++ {
			q := append(append(append([]int{}, p[:pos]...), n-1), p[pos:]...)
			out = append(out, q)
		}
	}
	return out
}
