package main

// Monitors: hooks called on memory accesses (used by the C08/C09 checks).

import (
	"fmt"
	"go/token"
	"strings"

	"golang.org/x/tools/go/ssa"
)

// Lock-set / immutability monitors (C09).  The harness marks memory as
// *guarded* (may only be touched while a mutex is held) or *frozen* (may only
// be written while a mutex is held or inside a sync.Once); every load, store,
// map read and map write on every explored path is checked.  If no session
// ever touches shared state except under a lock, no interleaving of sessions
// has a data race.

func (i *Interp) locked() bool { return i.ex != nil && i.ex.lockDepth > 0 }

func (i *Interp) monitorFail(what string, fr *frame, in ssa.Instruction) {
	i.fail("assert", what, fr.pos(in), fr)
}

func (i *Interp) noteWrite(addr *value, fr *frame, in ssa.Instruction) {
	ex := i.ex
	if ex == nil || ex.frozen == nil {
		return
	}
	if name, ok := ex.frozen[addr]; ok && !i.locked() {
		i.monitorFail("unsynchronised write to shared state ("+name+")", fr, in)
	}
}

// noteWriteAt is noteWrite for the element writes of the append and copy
// builtins (append into spare capacity writes the shared backing array).
func (i *Interp) noteWriteAt(addr *value, fr *frame, pos token.Pos, what string) {
	ex := i.ex
	if ex == nil || ex.frozen == nil {
		return
	}
	if name, ok := ex.frozen[addr]; ok && !i.locked() {
		where := ""
		if fr != nil {
			where = fr.fn.String()
			if pos != token.NoPos {
				where = i.prog.Fset.Position(pos).String()
			}
		}
		i.fail("assert", "unsynchronised write to shared state ("+name+") by "+what, where, fr)
	}
}

func (i *Interp) noteRead(addr *value, fr *frame, in ssa.Instruction) {
	ex := i.ex
	if ex == nil || ex.guarded == nil {
		return
	}
	if name, ok := ex.guarded[addr]; ok && !i.locked() {
		i.monitorFail("read of lock-guarded shared state without the lock ("+name+")", fr, in)
	}
}

func (i *Interp) noteMapWrite(m *smap, fr *frame, in ssa.Instruction) {
	ex := i.ex
	if ex == nil || ex.sharedMaps == nil {
		return
	}
	if name, ok := ex.sharedMaps[m]; ok && !i.locked() {
		i.monitorFail("unsynchronised write to shared map ("+name+")", fr, in)
	}
}

func (i *Interp) noteMapRead(m *smap, fr *frame, in ssa.Instruction) {
	ex := i.ex
	if ex == nil || ex.guardedMaps == nil {
		return
	}
	if name, ok := ex.guardedMaps[m]; ok && !i.locked() {
		i.monitorFail("read of lock-guarded shared map without the lock ("+name+")", fr, in)
	}
}

// freeze marks everything reachable from v.
func (i *Interp) freeze(v value, name string, guarded bool) int {
	ex := i.ex
	if ex.frozen == nil {
		ex.frozen = map[*value]string{}
		ex.sharedMaps = map[*smap]string{}
		ex.guarded = map[*value]string{}
		ex.guardedMaps = map[*smap]string{}
	}
	seenMaps := map[*smap]bool{}
	n := 0
	var walk func(v value, depth int)
	cell := func(c *value, depth int) {
		if c == nil {
			return
		}
		if _, done := ex.frozen[c]; done {
			return
		}
		ex.frozen[c] = name
		if guarded {
			ex.guarded[c] = name
		}
		n++
		walk(*c, depth+1)
	}
	walk = func(v value, depth int) {
		if depth > 60 {
			return
		}
		switch t := v.(type) {
		case *value:
			cell(t, depth)
		case []value:
			full := t[:cap(t)]
			for k := range full {
				cell(&full[k], depth)
			}
		case structure:
			for k := range t {
				walk(t[k], depth+1)
			}
		case array:
			for k := range t {
				walk(t[k], depth+1)
			}
		case iface:
			walk(t.v, depth+1)
		case *smap:
			if t == nil || seenMaps[t] {
				return
			}
			seenMaps[t] = true
			ex.sharedMaps[t] = name
			if guarded {
				ex.guardedMaps[t] = name
			}
			n++
			for _, p := range t.order() {
				walk(t.keys[p], depth+1)
				walk(t.vals[p], depth+1)
			}
		case *closure:
			if t != nil {
				for _, e := range t.Env {
					walk(e, depth+1)
				}
			}
		}
	}
	// a struct cell holds its fields inline: freeze the fields' cells
	walk(v, 0)
	if p, ok := v.(*value); ok && p != nil {
		if st, ok := (*p).(structure); ok {
			for k := range st {
				cell(&st[k], 1)
			}
		}
	}
	return n
}

// mapOrder returns the iteration order for a range over m.
func (i *Interp) mapOrder(m *smap, fr *frame, in ssa.Instruction) []int {
	o := m.order()
	if i.ex == nil || !i.ex.symOrder || len(o) < 2 {
		return o
	}
	// only ranges executed by goflow / gocommon code are made arbitrary: the
	// harness's own bookkeeping and the standard library are left alone
	pk := ""
	if fr.fn.Pkg != nil {
		pk = fr.fn.Pkg.Pkg.Path()
	} else if o := fr.fn.Origin(); o != nil && o.Pkg != nil {
		pk = o.Pkg.Pkg.Path()
	} else if par := fr.fn.Parent(); par != nil && par.Pkg != nil {
		pk = par.Pkg.Pkg.Path()
	}
	name := strings.ToLower(fr.fn.String())
	if !strings.HasPrefix(pk, "github.com/nyaruka/") || strings.Contains(name, "verif") {
		return o
	}
	site := fr.pos(in)
	i.mapRange[fmt.Sprintf("%s (n=%d)", site, len(o))]++
	// arbitrary order: insertion order, its reversal, or (n ≥ 3) the rotation
	// by one — three candidate orders per range (all n! would multiply across
	// the ranges of one execution); the harness compares against a run in
	// insertion order
	n := 2
	if len(o) >= 3 {
		n = 3
	}
	switch i.choice(n) {
	case 1:
		out := make([]int, len(o))
		for a := range o {
			out[a] = o[len(o)-1-a]
		}
		return out
	case 2:
		return append(append([]int{}, o[1:]...), o[0])
	}
	return o
}

func permutations(n int) [][]int {
	if n == 1 {
		return [][]int{{0}}
	}
	var out [][]int
	for _, p := range permutations(n - 1) {
		for pos := 0; pos <= len(p); pos++ {
			q := append(append(append([]int{}, p[:pos]...), n-1), p[pos:]...)
			out = append(out, q)
		}
	}
	return out
}
