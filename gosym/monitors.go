package main

// Monitors: hooks called on memory accesses (used by the C08/C09 checks).

import (
	"fmt"

	"golang.org/x/tools/go/ssa"
)

func (i *Interp) noteWrite(addr *value, fr *frame, in ssa.Instruction)  {}
func (i *Interp) noteRead(addr *value, fr *frame, in ssa.Instruction)   {}
func (i *Interp) noteMapWrite(m *smap, fr *frame, in ssa.Instruction)   {}
func (i *Interp) noteMapRead(m *smap, fr *frame, in ssa.Instruction)    {}

// mapOrder returns the iteration order for a range over m.
func (i *Interp) mapOrder(m *smap, fr *frame, in ssa.Instruction) []int {
	o := m.order()
	if i.ex == nil || !i.ex.symOrder || len(o) < 2 {
		return o
	}
	site := fr.pos(in)
	i.mapRange[fmt.Sprintf("%s (n=%d)", site, len(o))]++
	// symbolic permutation: fork over the permutations of up to 3 entries;
	// larger maps take every rotation and the reversal.
	if len(o) <= 3 {
		perms := permutations(len(o))
		p := perms[i.choice(len(perms))]
		out := make([]int, len(o))
		for k, j := range p {
			out[k] = o[j]
		}
		return out
	}
	k := i.choice(len(o) + 1)
	if k == len(o) {
		out := make([]int, len(o))
		for a := range o {
			out[a] = o[len(o)-1-a]
		}
		return out
	}
	return append(append([]int{}, o[k:]...), o[:k]...)
}

func permutations(n int) [][]int {
	if n == 1 {
		return [][]int{{0}}
	}
	var out [][]int
	for _, p := range permutations(n - 1) {
		for pos := 0; pos <= len(p); pos++ {
			q := append(append(append([]int{}, p[:pos]...), n-1), p[pos:]...)
			out = append(out, q)
		}
	}
	return out
}
