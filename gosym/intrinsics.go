package main

// Intrinsics: host implementations of functions that have no SSA body
// (assembly, runtime), of the nondeterminism API, and of a few library entry
// points that are cut (fmt, reflection-based helpers).  Every intrinsic that
// is hit is listed in the evidence file.

import (
	"fmt"
	"go/types"
	"math"
	"math/bits"
	"os"
	"path/filepath"
	"sort"
	"strings"
	"sync"
	"unsafe"
)

type intrinsic func(fr *frame, args []value) value

const zz = "github.com/nyaruka/goflow/zzverif."

var intrinsics = map[string]intrinsic{}

// altBodies maps body-less functions to pure-Go equivalents in the same package.
var altBodies = map[string][2]string{
	"math/big.addVV":     {"math/big", "addVV_g"},
	"math/big.subVV":     {"math/big", "subVV_g"},
	"math/big.addVW":     {"math/big", "addVW_g"},
	"math/big.subVW":     {"math/big", "subVW_g"},
	"math/big.shlVU":     {"math/big", "shlVU_g"},
	"math/big.shrVU":     {"math/big", "shrVU_g"},
	"math/big.mulAddVWW": {"math/big", "mulAddVWW_g"},
	"math/big.addMulVVW": {"math/big", "addMulVVW_g"},
}

func init() {
	reg := func(name string, f intrinsic) { intrinsics[name] = f }
	nop := func(fr *frame, args []value) value { return nil }

	// ---- zzverif ----------------------------------------------------
	reg(zz+"Symbolic", func(fr *frame, args []value) value { return true })
	reg(zz+"Thorough", func(fr *frame, args []value) value { return tier == "thorough" })
	reg(zz+"Bool", func(fr *frame, args []value) value {
		return fr.i.newInput(args[0].(string), "bool", 0)
	})
	reg(zz+"Byte", func(fr *frame, args []value) value {
		return fr.i.newInput(args[0].(string), "byte", 8)
	})
	reg(zz+"Int", func(fr *frame, args []value) value {
		i := fr.i
		lo, hi := args[1].(int), args[2].(int)
		if lo == hi {
			return lo
		}
		v := i.newInput(args[0].(string), "int", 64).(*Term)
		if hi-lo >= 0 && hi-lo < 256 {
			vals := make([]uint64, hi-lo+1)
			for k := range vals {
				vals[k] = uint64(int64(lo + k))
			}
			i.ex.registerVar(v, vals)
		}
		c := i.ts.And(i.ts.Cmp(OpSLE, i.ts.BV(uint64(int64(lo)), 64), v), i.ts.Cmp(OpSLE, v, i.ts.BV(uint64(int64(hi)), 64)))
		// the range is part of the input's definition: always tell the solver
		// (the domain pass knows it through the candidate list)
		i.ex.taken = append(i.ex.taken, dec{v: 1, forced: true})
		i.addConstraint(c)
		return v
	})
	reg(zz+"Choice", func(fr *frame, args []value) value {
		i := fr.i
		n := args[1].(int)
		k := i.choice(n)
		i.ex.inputs = append(i.ex.inputs, inputRec{Name: args[0].(string), Kind: "choice", Val: int64(k)})
		return k
	})
	reg(zz+"ChoiceOf", func(fr *frame, args []value) value {
		i := fr.i
		opts := args[1].([]value)
		if len(opts) == 0 {
			panic(pathEnd{kind: "infeasible", msg: "ChoiceOf(empty)"})
		}
		k := i.choice(len(opts))
		i.ex.inputs = append(i.ex.inputs, inputRec{Name: args[0].(string), Kind: "choiceof", Val: int64(k), Str: describeStr(opts[k])})
		return opts[k]
	})
	reg(zz+"Assume", func(fr *frame, args []value) value { fr.i.assume(args[0], fr); return nil })
	reg(zz+"Assert", func(fr *frame, args []value) value {
		i := fr.i
		i.ex.asserted++
		if !i.truth(args[0], fr, "assert") {
			i.fail("assert", describeStr(args[1]), callerPos(fr), fr)
		}
		return nil
	})
	reg(zz+"Fail", func(fr *frame, args []value) value {
		fr.i.fail("assert", describeStr(args[0]), callerPos(fr), fr)
		return nil
	})
	reg(zz+"Cover", func(fr *frame, args []value) value {
		fr.i.ex.covers[args[0].(string)] = true
		return nil
	})
	reg(zz+"Known", func(fr *frame, args []value) value {
		i := fr.i
		b := i.truth(args[1], fr, "known")
		if b {
			i.ex.known = append(i.ex.known, args[0].(string))
		}
		return b
	})
	reg(zz+"Note", func(fr *frame, args []value) value {
		var sb strings.Builder
		for _, a := range args[0].([]value) {
			sb.WriteString(describeStr(fr.i.stringify(fr, a.(iface))))
		}
		if len(fr.i.ex.notes) < 4 {
			fr.i.ex.notes = append(fr.i.ex.notes, sb.String())
		}
		return nil
	})
	reg(zz+"ResetEnv", func(fr *frame, args []value) value { fr.i.clock = 0; fr.i.uuidSeq = 0; return nil })
	reg(zz+"Freeze", func(fr *frame, args []value) value {
		n := fr.i.freeze(args[1].(iface).v, args[0].(string), false)
		fr.i.ex.notes = append(fr.i.ex.notes, fmt.Sprintf("frozen %d cells/maps reachable from %s", n, args[0].(string)))
		return nil
	})
	reg(zz+"FreezeGlobals", func(fr *frame, args []value) value {
		// package-level state of goflow and gocommon is shared by all sessions of
		// a process: from here on a write to it (or to anything reachable from
		// it) outside a held mutex / Once is a violation
		i := fr.i
		n := 0
		for g, cell := range i.globals {
			if g.Pkg == nil || !strings.HasPrefix(g.Pkg.Pkg.Path(), "github.com/nyaruka/") || strings.HasSuffix(g.Pkg.Pkg.Path(), "/zzverif") {
				continue
			}
			if strings.HasPrefix(g.Name(), "verif") || strings.HasPrefix(g.Name(), "Verif") || strings.HasPrefix(g.Name(), "init$") {
				continue
			}
			n += i.freeze(cell, "package-level state: "+g.Pkg.Pkg.Path()+"."+g.Name(), false)
		}
		i.ex.notes = append(i.ex.notes, fmt.Sprintf("frozen %d cells/maps of package-level state", n))
		return nil
	})
	reg(zz+"Guard", func(fr *frame, args []value) value {
		fr.i.freeze(args[1].(iface).v, args[0].(string), true)
		return nil
	})
	reg(zz+"Parallel", func(fr *frame, args []value) value {
		// symbolically one goroutine's worth: the monitors check the discipline
		// that makes every interleaving race free
		fr.i.callFn(fr, args[1], 0)
		return nil
	})
	reg(zz+"Unwind", func(fr *frame, args []value) value { fr.i.ex.unwind = args[0].(int); return nil })
	reg(zz+"SymbolicMapOrder", func(fr *frame, args []value) value { fr.i.ex.symOrder = args[0].(bool); return nil })

	// ---- internal/bytealg -------------------------------------------
	reg("internal/bytealg.IndexByteString", func(fr *frame, args []value) value {
		return fr.i.indexByte(fr, strBytes(args[0]), args[1])
	})
	reg("internal/bytealg.IndexByte", func(fr *frame, args []value) value {
		return fr.i.indexByte(fr, args[0].([]value), args[1])
	})
	reg("internal/bytealg.LastIndexByteString", func(fr *frame, args []value) value {
		return fr.i.lastIndexByte(fr, strBytes(args[0]), args[1])
	})
	reg("internal/bytealg.LastIndexByte", func(fr *frame, args []value) value {
		return fr.i.lastIndexByte(fr, args[0].([]value), args[1])
	})
	reg("internal/bytealg.CountString", func(fr *frame, args []value) value {
		return fr.i.countByte(fr, strBytes(args[0]), args[1])
	})
	reg("internal/bytealg.Count", func(fr *frame, args []value) value {
		return fr.i.countByte(fr, args[0].([]value), args[1])
	})
	reg("internal/bytealg.Equal", func(fr *frame, args []value) value {
		return fr.i.strEq(mkString(args[0].([]value)), mkString(args[1].([]value)))
	})
	reg("bytes.Equal", func(fr *frame, args []value) value {
		return fr.i.strEq(mkString(args[0].([]value)), mkString(args[1].([]value)))
	})
	reg("internal/bytealg.Compare", func(fr *frame, args []value) value {
		return fr.i.compareStr(fr, mkString(args[0].([]value)), mkString(args[1].([]value)))
	})
	reg("internal/bytealg.CompareString", func(fr *frame, args []value) value {
		return fr.i.compareStr(fr, args[0], args[1])
	})
	reg("runtime.cmpstring", func(fr *frame, args []value) value {
		return fr.i.compareStr(fr, args[0], args[1])
	})
	reg("strings.Compare", func(fr *frame, args []value) value {
		return fr.i.compareStr(fr, args[0], args[1])
	})
	reg("internal/bytealg.IndexString", func(fr *frame, args []value) value {
		return fr.i.indexStr(fr, args[0], args[1])
	})
	reg("internal/bytealg.Index", func(fr *frame, args []value) value {
		return fr.i.indexStr(fr, mkString(args[0].([]value)), mkString(args[1].([]value)))
	})
	reg("strings.Index", func(fr *frame, args []value) value {
		return fr.i.indexStr(fr, args[0], args[1])
	})
	reg("internal/bytealg.MakeNoZero", func(fr *frame, args []value) value {
		n := args[0].(int)
		out := make([]value, n)
		for k := range out {
			out[k] = uint8(0)
		}
		return out
	})
	reg("internal/stringslite.Clone", func(fr *frame, args []value) value { return args[0] })
	reg("strings.Clone", func(fr *frame, args []value) value { return args[0] })
	reg("internal/abi.NoEscape", func(fr *frame, args []value) value { return args[0] })
	reg("internal/abi.Escape", func(fr *frame, args []value) value { return args[0] })
	reg("strings.(*Builder).copyCheck", nop)
	reg("internal/race.Enabled", func(fr *frame, args []value) value { return false })

	// ---- sync / atomic ----------------------------------------------
	reg("(*sync.Mutex).Lock", func(fr *frame, args []value) value { fr.i.lock(args[0], 1); return nil })
	reg("(*sync.Mutex).Unlock", func(fr *frame, args []value) value { fr.i.lock(args[0], -1); return nil })
	reg("(*sync.Mutex).TryLock", func(fr *frame, args []value) value { fr.i.lock(args[0], 1); return true })
	reg("(*sync.RWMutex).Lock", func(fr *frame, args []value) value { fr.i.lock(args[0], 1); return nil })
	reg("(*sync.RWMutex).Unlock", func(fr *frame, args []value) value { fr.i.lock(args[0], -1); return nil })
	reg("(*sync.RWMutex).RLock", func(fr *frame, args []value) value { fr.i.rlock(args[0], 1); return nil })
	reg("(*sync.RWMutex).RUnlock", func(fr *frame, args []value) value { fr.i.rlock(args[0], -1); return nil })
	reg("(*sync.WaitGroup).Add", nop)
	reg("(*sync.WaitGroup).Done", nop)
	reg("(*sync.WaitGroup).Wait", nop)
	reg("(*sync.Pool).Get", func(fr *frame, args []value) value {
		p := args[0].(*value)
		st := (*p).(structure)
		newf := st[len(st)-1] // New is the last field
		if isNilValue(newf) {
			return iface{}
		}
		return fr.i.callFn(fr, newf)
	})
	reg("(*sync.Pool).Put", nop)
	reg("sync.runtime_registerPoolCleanup", nop)
	reg("sync.runtime_notifyListCheck", nop)
	reg("sync.throw", func(fr *frame, args []value) value { panic(fr.i.rtPanic("sync: " + describeStr(args[0]))) })
	reg("sync.fatal", func(fr *frame, args []value) value { panic(fr.i.rtPanic("sync: " + describeStr(args[0]))) })

	atomicLoad := func(fr *frame, args []value) value { return load(fr.deref(nil, args[0])) }
	atomicStore := func(fr *frame, args []value) value {
		fr.i.tr.store(fr.deref(nil, args[0]), args[1])
		return nil
	}
	atomicSwap := func(fr *frame, args []value) value {
		p := fr.deref(nil, args[0])
		old := load(p)
		fr.i.tr.store(p, args[1])
		return old
	}
	atomicCAS := func(fr *frame, args []value) value {
		p := fr.deref(nil, args[0])
		eq := fr.equalsV(nil, *p, args[1])
		if fr.i.truth(eq, fr, "cas") {
			fr.i.tr.store(p, args[2])
			return true
		}
		return false
	}
	for _, t := range []string{"Int32", "Int64", "Uint32", "Uint64", "Uintptr", "Pointer"} {
		reg("sync/atomic.Load"+t, atomicLoad)
		reg("sync/atomic.Store"+t, atomicStore)
		reg("sync/atomic.Swap"+t, atomicSwap)
		reg("sync/atomic.CompareAndSwap"+t, atomicCAS)
	}
	for _, t := range []string{"Int32", "Int64", "Uint32", "Uint64", "Uintptr"} {
		t := t
		reg("sync/atomic.Add"+t, func(fr *frame, args []value) value {
			p := fr.deref(nil, args[0])
			if _, ok := (*p).(*Term); ok {
				panic(unsupported{"atomic add on symbolic value"})
			}
			if _, ok := args[1].(*Term); ok {
				panic(unsupported{"atomic add of symbolic value"})
			}
			a, _ := toU64(*p)
			b, _ := toU64(args[1])
			var k types.BasicKind
			switch t {
			case "Int32":
				k = types.Int32
			case "Int64":
				k = types.Int64
			case "Uint32":
				k = types.Uint32
			case "Uint64":
				k = types.Uint64
			default:
				k = types.Uintptr
			}
			nv := fromU64(k, a+b)
			fr.i.tr.store(p, nv)
			return nv
		})
	}
	reg("(*sync/atomic.Value).Load", func(fr *frame, args []value) value {
		p := fr.deref(nil, args[0])
		st := (*p).(structure)
		return st[0]
	})
	reg("(*sync/atomic.Value).Store", func(fr *frame, args []value) value {
		p := fr.deref(nil, args[0])
		st := (*p).(structure)
		fr.i.tr.store(&st[0], args[1])
		return nil
	})

	// ---- runtime ------------------------------------------------------
	for _, n := range []string{"runtime.SetFinalizer", "runtime.KeepAlive", "runtime.GC", "runtime.Gosched", "runtime.LockOSThread", "runtime.UnlockOSThread",
		"internal/godebug.(*Setting).IncNonDefault", "internal/godebug.registerMetric", "internal/godebug.setUpdate", "internal/godebug.setNewIncNonDefault",
		"runtime.AddCleanup", "os.runtime_args", "time.Sleep", "internal/poll.runtime_pollServerInit", "os.runtime_beforeExit", "syscall.runtime_envs",
		"os/signal.signal_enable", "os/signal.signal_disable", "os/signal.signal_ignore", "os/signal.loop"} {
		reg(n, nop)
	}
	// the Unicode confusables table (117M interpreted instructions to parse at
	// init, per worker) is not used by goflow: left empty
	reg("github.com/nyaruka/gocommon/stringsx.init#1", nop)
	reg("internal/godebug.(*Setting).Value", func(fr *frame, args []value) value { return "" })
	reg("runtime.GOMAXPROCS", func(fr *frame, args []value) value { return 1 })
	reg("runtime.NumCPU", func(fr *frame, args []value) value { return 1 })
	reg("runtime.Callers", func(fr *frame, args []value) value { return 0 })
	reg("runtime.Caller", func(fr *frame, args []value) value { return tuple{uintptr(0), "", 0, false} })
	reg("os.Getenv", func(fr *frame, args []value) value { return "" })
	reg("os.LookupEnv", func(fr *frame, args []value) value { return tuple{"", false} })
	reg("syscall.Getenv", func(fr *frame, args []value) value { return tuple{"", false} })
	reg("os.Getpid", func(fr *frame, args []value) value { return 1 })
	reg("os.Getpagesize", func(fr *frame, args []value) value { return 4096 })
	reg("internal/syscall/unix.GetRandom", func(fr *frame, args []value) value { panic(unsupported{"getrandom"}) })
	reg("runtime.fastrand", func(fr *frame, args []value) value { return uint32(4) })
	reg("math/rand.runtime_rand", func(fr *frame, args []value) value { return uint64(4) })
	reg("math/rand/v2.runtime_rand", func(fr *frame, args []value) value { return uint64(4) })
	reg("hash/maphash.runtime_rand", func(fr *frame, args []value) value { return uint64(4) })
	reg("internal/runtime/atomic.Load", atomicLoad)

	// ---- the generated ANTLR parser is replaced by its validated model ---
	registerParserModels(reg)

	// jsonparser reinterprets *[]byte as *string through unsafe.Pointer
	reg("github.com/buger/jsonparser.equalStr", func(fr *frame, args []value) value {
		b := *(args[0].(*value))
		return fr.i.strEq(mkString(b.([]value)), args[1])
	})
	reg("github.com/buger/jsonparser.bytesToString", func(fr *frame, args []value) value {
		b := *(args[0].(*value))
		return mkString(b.([]value))
	})
	reg("github.com/buger/jsonparser.StringToBytes", func(fr *frame, args []value) value { return strBytes(args[0]) })

	// the phone number metadata (a 200 kB protobuf decoded at init) is not encoded
	for _, n := range []string{"Parse", "ParseAndKeepRawInput", "ParseToNumber"} {
		reg("github.com/nyaruka/phonenumbers."+n, func(fr *frame, args []value) value {
			panic(unsupported{"github.com/nyaruka/phonenumbers: phone number metadata is outside the encoding"})
		})
	}

	// ---- environment stubs (class B) ----------------------------------
	reg("github.com/nyaruka/gocommon/uuids.NewV4", func(fr *frame, args []value) value {
		fr.i.uuidSeq++
		return fmt.Sprintf("00000000-0000-4000-8000-%012d", fr.i.uuidSeq)
	})
	reg("github.com/nyaruka/gocommon/uuids.NewV7", func(fr *frame, args []value) value {
		fr.i.uuidSeq++
		return fmt.Sprintf("01900000-0000-7000-8000-%012d", fr.i.uuidSeq)
	})

	// ---- time ---------------------------------------------------------
	reg("time.now", func(fr *frame, args []value) value {
		fr.i.clock++
		// 2025-01-01T00:00:00Z + clock seconds
		return tuple{int64(1735689600 + fr.i.clock), int32(0), int64(1000000000 * fr.i.clock)}
	})
	reg("time.initLocal", func(fr *frame, args []value) value {
		// as with TZ=UTC (native replays run with TZ=UTC as well)
		g := fr.i.prog.ImportedPackage("time").Var("localLoc")
		cell := fr.i.globals[g]
		st := (*cell).(structure)
		fr.i.tr.set(&st[0], "UTC")
		return nil
	})
	reg("time.LoadLocation", func(fr *frame, args []value) value {
		i := fr.i
		tp := i.prog.ImportedPackage("time")
		name, ok := args[0].(string)
		if !ok {
			// a name with symbolic bytes: it can only load if it equals one of the
			// zone names of that length that exist on this machine (decided per
			// candidate); otherwise the load fails like for any unknown name
			n := strLen(args[0])
			found := ""
			for _, cand := range zoneNames() {
				if len(cand) == n && i.truth(i.strEq(args[0], cand), fr, "zone-name") {
					found = cand
					break
				}
			}
			if found == "" {
				return tuple{(*value)(nil), i.mkError("unknown time zone")}
			}
			name = found
		}
		switch name {
		case "", "UTC":
			return tuple{i.globals[tp.Var("utcLoc")], iface{}}
		case "Local":
			return tuple{i.globals[tp.Var("localLoc")], iface{}}
		}
		if strings.Contains(name, "..") || strings.HasPrefix(name, "/") || strings.Contains(name, "\\") {
			return tuple{(*value)(nil), i.mkError("time: invalid location name")}
		}
		data, err := os.ReadFile("/usr/share/zoneinfo/" + name)
		if err != nil {
			return tuple{(*value)(nil), i.mkError("unknown time zone " + name)}
		}
		// the zone file is parsed by the real time.LoadLocationFromTZData
		return i.callFn(fr, tp.Func("LoadLocationFromTZData"), name, bytesValue(data))
	})
	reg("time.runtimeNano", func(fr *frame, args []value) value { fr.i.clock++; return int64(1000000000 * fr.i.clock) })
	reg("runtime.nanotime", func(fr *frame, args []value) value { fr.i.clock++; return int64(1000000000 * fr.i.clock) })

	// ---- math ---------------------------------------------------------
	reg("math.Float64bits", func(fr *frame, args []value) value { return math.Float64bits(args[0].(float64)) })
	reg("math.Float64frombits", func(fr *frame, args []value) value { return math.Float64frombits(args[0].(uint64)) })
	reg("math.Float32bits", func(fr *frame, args []value) value { return math.Float32bits(args[0].(float32)) })
	reg("math.Float32frombits", func(fr *frame, args []value) value { return math.Float32frombits(args[0].(uint32)) })
	f1 := map[string]func(float64) float64{"Floor": math.Floor, "Ceil": math.Ceil, "Trunc": math.Trunc, "Sqrt": math.Sqrt, "Abs": math.Abs,
		"Exp": math.Exp, "Log": math.Log, "Log2": math.Log2, "Log10": math.Log10, "Exp2": math.Exp2, "Round": math.Round,
		"Sin": math.Sin, "Cos": math.Cos, "Tan": math.Tan, "Log1p": math.Log1p, "Expm1": math.Expm1}
	for n, f := range f1 {
		f := f
		reg("math."+n, func(fr *frame, args []value) value { return f(args[0].(float64)) })
		reg("math.arch"+n, func(fr *frame, args []value) value { return f(args[0].(float64)) })
	}
	reg("math.Pow", func(fr *frame, args []value) value { return math.Pow(args[0].(float64), args[1].(float64)) })
	reg("math.Mod", func(fr *frame, args []value) value { return math.Mod(args[0].(float64), args[1].(float64)) })
	reg("math.Max", func(fr *frame, args []value) value { return math.Max(args[0].(float64), args[1].(float64)) })
	reg("math.Min", func(fr *frame, args []value) value { return math.Min(args[0].(float64), args[1].(float64)) })
	reg("math.Modf", func(fr *frame, args []value) value { a, b := math.Modf(args[0].(float64)); return tuple{a, b} })
	reg("math.Frexp", func(fr *frame, args []value) value { a, b := math.Frexp(args[0].(float64)); return tuple{a, b} })
	reg("math.Ldexp", func(fr *frame, args []value) value { return math.Ldexp(args[0].(float64), args[1].(int)) })
	reg("math.IsNaN", func(fr *frame, args []value) value { return math.IsNaN(args[0].(float64)) })
	reg("math.IsInf", func(fr *frame, args []value) value { return math.IsInf(args[0].(float64), args[1].(int)) })
	reg("math.Inf", func(fr *frame, args []value) value { return math.Inf(args[0].(int)) })
	reg("math.NaN", func(fr *frame, args []value) value { return math.NaN() })
	reg("math.Signbit", func(fr *frame, args []value) value { return math.Signbit(args[0].(float64)) })
	reg("math.Copysign", func(fr *frame, args []value) value { return math.Copysign(args[0].(float64), args[1].(float64)) })

	// math/bits: concrete fast paths (the pure-Go bodies are used for symbolic)
	reg("math/bits.Mul64", func(fr *frame, args []value) value {
		if isSym(args[0]) || isSym(args[1]) {
			return useBody{}
		}
		hi, lo := bits.Mul64(args[0].(uint64), args[1].(uint64))
		return tuple{hi, lo}
	})

	// ---- sort -----------------------------------------------------------
	sortSlice := func(fr *frame, args []value) value {
		s := args[0].(iface).v.([]value)
		less := args[1]
		// insertion sort through the interpreted less (stable, deterministic, forks on symbolic outcomes)
		for a := 1; a < len(s); a++ {
			for b := a; b > 0; b-- {
				if !fr.i.truth(fr.i.callFn(fr, less, b, b-1), fr, "sort.less") {
					break
				}
				x, y := s[b], s[b-1]
				fr.i.tr.set(&s[b], y)
				fr.i.tr.set(&s[b-1], x)
			}
		}
		return nil
	}
	reg("sort.Slice", sortSlice)
	reg("sort.SliceStable", sortSlice)
	_ = sort.Ints
	_ = unsafe.Pointer(nil)
	_ = fmt.Sprint
}

func callerPos(fr *frame) string {
	if fr.caller == nil {
		return fr.fi.name
	}
	return fr.caller.i.prog.Fset.Position(fr.callpos).String()
}

func (i *Interp) newInput(name, kind string, w uint8) value {
	ex := i.needEx("input")
	id := len(ex.inputs)
	clean := strings.Map(func(r rune) rune {
		if (r >= 'a' && r <= 'z') || (r >= 'A' && r <= 'Z') || (r >= '0' && r <= '9') || r == '_' {
			return r
		}
		return '_'
	}, name)
	t := i.ts.Var(fmt.Sprintf("in%d_%s", id, clean), w)
	ex.inputs = append(ex.inputs, inputRec{Name: name, Kind: kind, term: t})
	switch kind {
	case "byte":
		vals := make([]uint64, 256)
		for k := range vals {
			vals[k] = uint64(k)
		}
		ex.registerVar(t, vals)
	case "bool":
		ex.registerVar(t, []uint64{0, 1})
	}
	return t
}

func (i *Interp) lock(m value, d int) {
	if i.ex != nil {
		i.ex.lockDepth += d
	}
}
func (i *Interp) rlock(m value, d int) {
	if i.ex != nil {
		i.ex.lockDepth += d
	}
}

func (i *Interp) byteEq(a, b value) value {
	if x, ok := a.(uint8); ok {
		if y, ok := b.(uint8); ok {
			return x == y
		}
	}
	return i.fromTerm(i.ts.Eq(i.toTerm(a, 8), i.toTerm(b, 8)), types.Typ[types.Bool])
}

func (i *Interp) indexByte(fr *frame, s []value, c value) value {
	for k := range s {
		if i.truth(i.byteEq(s[k], c), fr, "indexbyte") {
			return k
		}
	}
	return -1
}

func (i *Interp) lastIndexByte(fr *frame, s []value, c value) value {
	for k := len(s) - 1; k >= 0; k-- {
		if i.truth(i.byteEq(s[k], c), fr, "indexbyte") {
			return k
		}
	}
	return -1
}

func (i *Interp) countByte(fr *frame, s []value, c value) value {
	n := 0
	for k := range s {
		if i.truth(i.byteEq(s[k], c), fr, "countbyte") {
			n++
		}
	}
	return n
}

func (i *Interp) compareStr(fr *frame, a, b value) value {
	if x, ok := a.(string); ok {
		if y, ok := b.(string); ok {
			return strings.Compare(x, y)
		}
	}
	if i.truth(i.strEq(a, b), fr, "cmp") {
		return 0
	}
	if i.truth(i.strLess(a, b, false), fr, "cmp") {
		return -1
	}
	return 1
}

func (i *Interp) indexStr(fr *frame, s, sub value) value {
	if x, ok := s.(string); ok {
		if y, ok := sub.(string); ok {
			return strings.Index(x, y)
		}
	}
	n, m := strLen(s), strLen(sub)
	for k := 0; k+m <= n; k++ {
		if i.truth(i.strEq(strSlice(s, k, k+m), sub), fr, "index") {
			return k
		}
	}
	return -1
}

var zoneNamesCache []string
var zoneNamesOnce sync.Once

func zoneNames() []string {
	zoneNamesOnce.Do(func() {
		root := "/usr/share/zoneinfo"
		filepath.Walk(root, func(p string, info os.FileInfo, err error) error {
			if err == nil && !info.IsDir() {
				rel, _ := filepath.Rel(root, p)
				if len(rel) <= 4 && !strings.Contains(rel, ".") {
					zoneNamesCache = append(zoneNamesCache, rel)
				}
			}
			return nil
		})
		sort.Strings(zoneNamesCache)
	})
	return zoneNamesCache
}
