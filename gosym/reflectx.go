package main

// A shim for the part of package reflect that goflow's flow inspection
// (flows/inspect: walk, extractEngineFields, Templates, Dependencies,
// Results, LocalizableText) uses: struct fields with their tags and index
// paths, values of fields, slice elements, pointer and interface
// dereference, Implements.  Types are go/types types (rtype), values carry
// their static type, a copy of the value and, where Go's would be
// addressable, the address of the cell.

import (
	"fmt"
	"go/types"
	"regexp"
	"strconv"
	"unicode/utf8"
	"strings"
)

func rvOf(v value) rvalue { return v.(structure)[0].(rvalue) }

func mkRV(t types.Type, v value, addr *value) value {
	return structure{rvalue{it: iface{t: t, v: v}, addr: addr}, nil, uintptr(0)}
}

func invalidRV() value { return structure{rvalue{}, nil, uintptr(0)} }

func rtypeVal(t types.Type) value { return iface{t: rtypeIface, v: rtype{t}} }

func (i *Interp) reflectStructField(st *types.Struct, k int) value {
	f := st.Field(k)
	sf := i.prog.ImportedPackage("reflect").Type("StructField").Object().Type().Underlying().(*types.Struct)
	out := make(structure, sf.NumFields())
	for j := 0; j < sf.NumFields(); j++ {
		switch sf.Field(j).Name() {
		case "Name":
			out[j] = f.Name()
		case "PkgPath":
			p := ""
			if !f.Exported() && f.Pkg() != nil {
				p = f.Pkg().Path()
			}
			out[j] = p
		case "Type":
			out[j] = rtypeVal(f.Type())
		case "Tag":
			out[j] = st.Tag(k)
		case "Offset":
			out[j] = uintptr(k)
		case "Index":
			out[j] = []value{k}
		case "Anonymous":
			out[j] = f.Embedded()
		default:
			out[j] = zero(sf.Field(j).Type())
		}
	}
	return out
}

func init() {
	reg := func(name string, f intrinsic) { intrinsics[name] = f }
	structOf := func(fr *frame, rv rvalue, what string) (*types.Struct, structure) {
		st, ok := rv.it.t.Underlying().(*types.Struct)
		if !ok {
			panic(fr.i.rtPanic("reflect: call of reflect.Value." + what + " on " + rv.it.t.String() + " Value"))
		}
		return st, rv.it.v.(structure)
	}
	field := func(fr *frame, rv rvalue, k int, what string) rvalue {
		st, sv := structOf(fr, rv, what)
		if k < 0 || k >= st.NumFields() {
			panic(fr.i.rtPanic("reflect: Field index out of range"))
		}
		var addr *value
		if rv.addr != nil {
			if cur, ok := (*rv.addr).(structure); ok {
				addr = &cur[k]
			}
		}
		return rvalue{it: iface{t: st.Field(k).Type(), v: copyVal(sv[k])}, addr: addr}
	}
	reg("(reflect.Value).Type", func(fr *frame, args []value) value {
		rv := rvOf(args[0])
		if rv.it.t == nil {
			panic(fr.i.rtPanic("reflect: call of reflect.Value.Type on zero Value"))
		}
		return rtypeVal(rv.it.t)
	})
	reg("(reflect.Value).Elem", func(fr *frame, args []value) value {
		rv := rvOf(args[0])
		switch u := rv.it.t.Underlying().(type) {
		case *types.Interface:
			inner, _ := rv.it.v.(iface)
			if inner.t == nil {
				return invalidRV()
			}
			return structure{rvalue{it: inner}, nil, uintptr(0)}
		case *types.Pointer:
			p, _ := rv.it.v.(*value)
			if p == nil {
				return invalidRV()
			}
			return mkRV(u.Elem(), copyVal(*p), p)
		}
		panic(fr.i.rtPanic("reflect: call of reflect.Value.Elem on " + rv.it.t.String() + " Value"))
	})
	reg("(reflect.Value).Index", func(fr *frame, args []value) value {
		rv := rvOf(args[0])
		k := int(asInt64(args[1]))
		switch u := rv.it.t.Underlying().(type) {
		case *types.Slice:
			s, _ := rv.it.v.([]value)
			if k < 0 || k >= len(s) {
				panic(fr.i.rtPanic("reflect: slice index out of range"))
			}
			return mkRV(u.Elem(), copyVal(s[k]), &s[k])
		case *types.Array:
			a := rv.it.v.(array)
			if k < 0 || k >= len(a) {
				panic(fr.i.rtPanic("reflect: array index out of range"))
			}
			return mkRV(u.Elem(), copyVal(a[k]), nil)
		}
		panic(unsupported{"reflect.Value.Index of " + rv.it.t.String()})
	})
	reg("(reflect.Value).NumField", func(fr *frame, args []value) value {
		st, _ := structOf(fr, rvOf(args[0]), "NumField")
		return st.NumFields()
	})
	reg("(reflect.Value).Field", func(fr *frame, args []value) value {
		return structure{field(fr, rvOf(args[0]), int(asInt64(args[1])), "Field"), nil, uintptr(0)}
	})
	reg("(reflect.Value).FieldByIndex", func(fr *frame, args []value) value {
		rv := rvOf(args[0])
		for n, k := range args[1].([]value) {
			if n > 0 {
				// an embedded pointer to a struct is followed
				if p, ok := rv.it.t.Underlying().(*types.Pointer); ok {
					ptr, _ := rv.it.v.(*value)
					if ptr == nil {
						panic(fr.i.rtPanic("reflect: indirection through nil pointer to embedded struct"))
					}
					rv = rvalue{it: iface{t: p.Elem(), v: copyVal(*ptr)}, addr: ptr}
				}
			}
			rv = field(fr, rv, int(asInt64(k)), "FieldByIndex")
		}
		return structure{rv, nil, uintptr(0)}
	})
	reg("(reflect.Value).Interface", func(fr *frame, args []value) value {
		rv := rvOf(args[0])
		if rv.it.t == nil {
			panic(fr.i.rtPanic("reflect: call of reflect.Value.Interface on zero Value"))
		}
		if _, isIface := rv.it.t.Underlying().(*types.Interface); isIface {
			inner, _ := rv.it.v.(iface)
			return inner
		}
		return rv.it
	})
	reg("(reflect.Value).CanAddr", func(fr *frame, args []value) value { return rvOf(args[0]).addr != nil })
	reg("(reflect.Value).CanSet", func(fr *frame, args []value) value { return rvOf(args[0]).addr != nil })
	reg("(reflect.Value).CanInterface", func(fr *frame, args []value) value { return rvOf(args[0]).it.t != nil })
	reg("(reflect.Value).Addr", func(fr *frame, args []value) value {
		rv := rvOf(args[0])
		if rv.addr == nil {
			panic(fr.i.rtPanic("reflect.Value.Addr of unaddressable value"))
		}
		return mkRV(types.NewPointer(rv.it.t), rv.addr, nil)
	})
	reg("(reflect.Value).SetString", func(fr *frame, args []value) value {
		rv := rvOf(args[0])
		if rv.addr == nil {
			panic(fr.i.rtPanic("reflect: reflect.Value.SetString using unaddressable value"))
		}
		fr.i.noteWriteAt(rv.addr, fr, 0, "reflect.Value.SetString")
		fr.i.tr.set(rv.addr, args[1])
		return nil
	})
	reg("(reflect.Value).String", func(fr *frame, args []value) value {
		rv := rvOf(args[0])
		if rv.it.t == nil {
			return "<invalid Value>"
		}
		if isString(rv.it.v) {
			return rv.it.v
		}
		return "<" + rv.it.t.String() + " Value>"
	})
}

// more methods of reflect.Type
func rtypeCallMore(i *Interp, name string, rt rtype, args []value) (value, bool) {
	switch name {
	case "NumField":
		st, ok := rt.t.Underlying().(*types.Struct)
		if !ok {
			panic(i.rtPanic("reflect: NumField of non-struct type " + rt.t.String()))
		}
		return st.NumFields(), true
	case "Field":
		st, ok := rt.t.Underlying().(*types.Struct)
		if !ok {
			panic(i.rtPanic("reflect: Field of non-struct type " + rt.t.String()))
		}
		k := int(asInt64(args[1]))
		if k < 0 || k >= st.NumFields() {
			panic(i.rtPanic("reflect: Field index out of bounds"))
		}
		return i.reflectStructField(st, k), true
	case "Implements":
		u, _ := args[1].(iface)
		ut, ok := u.v.(rtype)
		if !ok {
			panic(i.rtPanic("reflect: nil type passed to Type.Implements"))
		}
		it, isI := ut.t.Underlying().(*types.Interface)
		if !isI {
			panic(i.rtPanic("reflect: non-interface type passed to Type.Implements"))
		}
		return types.Implements(rt.t, it), true
	case "NumMethod":
		return types.NewMethodSet(rt.t).Len(), true
	case "Key":
		if m, ok := rt.t.Underlying().(*types.Map); ok {
			return rtypeVal(m.Key()), true
		}
	}
	return nil, false
}

var _ = fmt.Sprint

// validateRequired is the part of the go-playground validator that
// utils.Validate relies on for control flow in goflow: `validate:"required"`
// (a zero value fails) on the fields of a struct, of its embedded and nested
// structs and of pointers to structs, and of slice elements under `dive`.
// Every other rule (uuid4, min, http_method, …) stays cut.
func (i *Interp) validateRequired(t types.Type, v value, path string, depth int) string {
	if depth > 12 {
		return ""
	}
	switch u := t.Underlying().(type) {
	case *types.Pointer:
		p, _ := v.(*value)
		if p == nil {
			return ""
		}
		return i.validateRequired(u.Elem(), *p, path, depth+1)
	case *types.Interface:
		it, _ := v.(iface)
		if it.t == nil {
			return ""
		}
		return i.validateRequired(it.t, it.v, path, depth+1)
	case *types.Struct:
		sv, ok := v.(structure)
		if !ok {
			return ""
		}
		for k := 0; k < u.NumFields(); k++ {
			f := u.Field(k)
			if !f.Exported() && !f.Embedded() {
				continue
			}
			tag := reflectTagGet(u.Tag(k), "validate")
			name := reflectTagGet(u.Tag(k), "json")
			if c := strings.IndexByte(name, ','); c >= 0 {
				name = name[:c]
			}
			if name == "" || name == "-" {
				name = f.Name()
			}
			fp := name
			if path != "" && !f.Embedded() {
				fp = path + "." + name
			} else if f.Embedded() {
				fp = path
			}
			rules := strings.Split(tag, ",")
			// rules before `dive` apply to the field, rules after it to its elements
			required, dive, omitempty, elemRequired := false, false, false, false
			var custom, elemCustom []string
			for _, r := range rules {
				switch r {
				case "required":
					if dive {
						elemRequired = true
					} else {
						required = true
					}
				case "dive":
					dive = true
				case "omitempty":
					if !dive {
						omitempty = true
					}
				default:
					if _, ok := i.customValidators[r]; ok || builtinValidatorRule(r) {
						if dive {
							elemCustom = append(elemCustom, r)
						} else {
							custom = append(custom, r)
						}
					}
				}
			}
			zeroV := isZeroForValidate(f.Type(), sv[k])
			if required && zeroV {
				return "field '" + fp + "' is required"
			}
			if omitempty && zeroV {
				continue
			}
			if tag == "-" {
				continue
			}
			for _, r := range custom {
				if !i.runCustomValidator(r, f.Type(), sv[k]) {
					return "field '" + fp + "' failed its '" + r + "' validation"
				}
			}
			elem := func(et types.Type, e value, ep string) string {
				if elemRequired && isZeroForValidate(et, e) {
					return "field '" + ep + "' is required"
				}
				for _, r := range elemCustom {
					if !i.runCustomValidator(r, et, e) {
						return "field '" + ep + "' failed its '" + r + "' validation"
					}
				}
				return i.validateRequired(et, e, ep, depth+1)
			}
			switch ft := f.Type().Underlying().(type) {
			case *types.Struct, *types.Pointer, *types.Interface:
				if msg := i.validateRequired(f.Type(), sv[k], fp, depth+1); msg != "" {
					return msg
				}
			case *types.Slice:
				if dive {
					if s, ok := sv[k].([]value); ok {
						for n, e := range s {
							if msg := elem(ft.Elem(), e, fmt.Sprintf("%s[%d]", fp, n)); msg != "" {
								return msg
							}
						}
					}
				}
			case *types.Map:
				if dive {
					if m, ok := sv[k].(*smap); ok && m != nil {
						for p := range m.vals {
							if p < len(m.live) && m.live[p] {
								if msg := elem(ft.Elem(), m.vals[p], fmt.Sprintf("%s[%s]", fp, describe(m.keys[p]))); msg != "" {
									return msg
								}
							}
						}
					}
				}
			}
		}
	}
	return ""
}

// runCustomValidator calls the function goflow registered for a validation
// tag with a FieldLevel whose Field() is the given value (the only part of
// the interface goflow's validators use).
func (i *Interp) runCustomValidator(tag string, t types.Type, v value) bool {
	if builtinValidatorRule(tag) {
		return builtinValidate(tag, v)
	}
	fn := i.customValidators[tag]
	pkg := i.prog.ImportedPackage("github.com/nyaruka/goflow/zzverif")
	if fn == nil || pkg == nil || pkg.Type("FieldLevel") == nil || i.vfr == nil {
		return true
	}
	flT := pkg.Type("FieldLevel").Object().Type()
	fl := iface{t: flT, v: structure{iface{}, mkRV(t, copyVal(v), nil)}}
	return i.truth(i.call(i.vfr, 0, fn, []value{fl}), i.vfr, "validate:"+tag)
}

func reflectTagGet(tag, key string) string {
	// struct tags of goflow are conventional: key:"value" pairs separated by spaces
	for tag != "" {
		tag = strings.TrimLeft(tag, " ")
		c := strings.IndexByte(tag, ':')
		if c < 0 || c+1 >= len(tag) || tag[c+1] != '"' {
			return ""
		}
		name := tag[:c]
		rest := tag[c+2:]
		e := strings.IndexByte(rest, '"')
		if e < 0 {
			return ""
		}
		if name == key {
			return rest[:e]
		}
		tag = rest[e+1:]
	}
	return ""
}

func isZeroForValidate(t types.Type, v value) bool {
	switch x := v.(type) {
	case nil:
		return true
	case string:
		return x == ""
	case sstring:
		return len(x) == 0
	case bool:
		return !x
	case *value:
		return x == nil
	case []value:
		return x == nil
	case *smap:
		return x == nil
	case iface:
		return x.t == nil
	case *Term:
		return false // (a symbolic scalar: not decided here, treated as set)
	case structure:
		st, ok := t.Underlying().(*types.Struct)
		if !ok {
			return false
		}
		for k := range x {
			if !isZeroForValidate(st.Field(k).Type(), x[k]) {
				return false
			}
		}
		return true
	case float64:
		return x == 0
	case float32:
		return x == 0
	}
	if u, ok := toU64(v); ok {
		return u == 0
	}
	return false
}

// Built-in rules of the go-playground validator that are decided on concrete
// values (a value with symbolic content passes, as every cut rule does):
// uuid4, uuid, eq=, min=, max=, with `|` alternatives.  goflow's readers
// reject definitions by these rules (ids that are not UUIDs), so a model that
// cut them would follow hostile definitions further than the real reader does.
var reUUID4 = regexp.MustCompile(`^[0-9a-f]{8}-[0-9a-f]{4}-4[0-9a-f]{3}-[89ab][0-9a-f]{3}-[0-9a-f]{12}$`)
var reUUID = regexp.MustCompile(`^[0-9a-f]{8}-[0-9a-f]{4}-[0-9a-f]{4}-[0-9a-f]{4}-[0-9a-f]{12}$`)

func builtinValidatorRule(r string) bool {
	for _, alt := range strings.Split(r, "|") {
		name := alt
		if c := strings.IndexByte(alt, '='); c >= 0 {
			name = alt[:c]
		}
		switch name {
		case "uuid4", "uuid", "eq", "min", "max":
		default:
			return false
		}
	}
	return true
}

func builtinValidate(rule string, v value) bool {
	for _, alt := range strings.Split(rule, "|") {
		if builtinValidateOne(alt, v) {
			return true
		}
	}
	return false
}

func builtinValidateOne(rule string, v value) bool {
	name, param := rule, ""
	if c := strings.IndexByte(rule, '='); c >= 0 {
		name, param = rule[:c], rule[c+1:]
	}
	str, isStr := "", false
	switch x := v.(type) {
	case string:
		str, isStr = x, true
	case sstring:
		b := make([]byte, len(x))
		for k, e := range x {
			c, ok := e.(uint8)
			if !ok {
				return true // symbolic content: not decided
			}
			b[k] = c
		}
		str, isStr = string(b), true
	}
	n, perr := strconv.ParseInt(param, 10, 64)
	switch name {
	case "uuid4":
		return !isStr || reUUID4.MatchString(str)
	case "uuid":
		return !isStr || reUUID.MatchString(str)
	case "eq":
		if isStr {
			return str == param
		}
		return true
	case "min", "max":
		if perr != nil {
			return true
		}
		var size int64
		switch x := v.(type) {
		case string, sstring:
			size = int64(utf8.RuneCountInString(str))
		case []value:
			size = int64(len(x))
		case *smap:
			if x == nil {
				size = 0
			} else {
				for p := range x.live {
					if x.live[p] {
						size++
					}
				}
			}
		case int:
			size = int64(x)
		case int64:
			size = x
		case int32:
			size = int64(x)
		default:
			return true
		}
		if name == "min" {
			return size >= n
		}
		return size <= n
	}
	return true
}
