package main

import (
	"fmt"
	"go/types"
	"unicode/utf8"
	"unsafe"
)

// conv implements ssa.Convert.
func (i *Interp) conv(fr *frame, tDst, tSrc types.Type, x value) value {
	ut_src := tSrc.Underlying()
	ut_dst := tDst.Underlying()

	// type parameters are instantiated; MultiConvert degenerates
	switch ut_dst.(type) {
	case *types.Signature, *types.Map, *types.Struct, *types.Interface, *types.Chan:
		return x
	case *types.Array:
		// slice to array conversion
		if s, ok := x.([]value); ok {
			n := ut_dst.(*types.Array).Len()
			if int64(len(s)) < n {
				panic(i.rtPanic("cannot convert slice to array: length too short"))
			}
			out := make(array, n)
			for k := range out {
				out[k] = copyVal(s[k])
			}
			return out
		}
		return x
	case *types.Pointer:
		switch x := x.(type) {
		case unsafe.Pointer:
			return (*value)(x)
		case *value:
			return x
		case uintptr:
			if x == 0 {
				return (*value)(nil)
			}
		}
		panic(unsupported{fmt.Sprintf("conversion %s -> %s of %T", tSrc, tDst, x)})
	case *types.Slice:
		// string -> []byte, []rune ; slice -> slice
		if isString(x) {
			et, _ := basicKind(ut_dst.(*types.Slice).Elem())
			switch et {
			case types.Uint8:
				return strBytes(x)
			case types.Int32:
				return i.strToRunes(fr, x)
			}
			panic(unsupported{fmt.Sprintf("conversion string -> %s", tDst)})
		}
		return x
	case *types.Basic:
		dk, _ := basicKind(tDst)
		if dk == types.UnsafePointer {
			switch x := x.(type) {
			case *value:
				return unsafe.Pointer(x)
			case unsafe.Pointer:
				return x
			case uintptr:
				if x == 0 {
					return unsafe.Pointer(nil)
				}
				return unsafe.Pointer(x) //nolint
			}
			panic(unsupported{fmt.Sprintf("conversion %s -> unsafe.Pointer of %T", tSrc, x)})
		}
		if dk == types.String {
			switch s := ut_src.(type) {
			case *types.Slice:
				ek, _ := basicKind(s.Elem())
				if ek == types.Uint8 {
					return mkString(x.([]value))
				}
				if ek == types.Int32 {
					return i.runesToStr(fr, x.([]value))
				}
			case *types.Basic:
				if isString(x) {
					return x
				}
				// integer -> string (rune)
				if t, ok := x.(*Term); ok {
					r := i.intConv(t, tSrc, types.Typ[types.Int32])
					return i.runesToStr(fr, []value{r})
				}
				v := asInt64(x)
				if v < 0 || v > utf8.MaxRune {
					return string(utf8.RuneError)
				}
				return string(rune(v))
			}
			panic(unsupported{fmt.Sprintf("conversion %s -> string", tSrc)})
		}
		if up, ok := x.(unsafe.Pointer); ok && dk == types.Uintptr {
			return uintptr(up)
		}
		if t, ok := x.(*Term); ok {
			if t.w == 0 {
				return t
			}
			if w, _ := intInfo(tDst); w == 0 {
				if dk == types.Float64 || dk == types.Float32 {
					// floats are concrete only: fork over the feasible integer values
					k := i.concretize(t, -1<<62, 1<<62, fr)
					_, signed := intInfo(tSrc)
					if signed {
						return convBasic(dk, int64(k))
					}
					return convBasic(dk, uint64(k))
				}
				panic(unsupported{fmt.Sprintf("conversion of symbolic %s -> %s", tSrc, tDst)})
			}
			return i.intConv(t, tSrc, tDst)
		}
		return convBasic(dk, x)
	}
	panic(unsupported{fmt.Sprintf("conversion %s -> %s", tSrc, tDst)})
}

func (i *Interp) intConv(t *Term, tSrc, tDst types.Type) value {
	dw, _ := intInfo(tDst)
	_, ssigned := intInfo(tSrc)
	var r *Term
	switch {
	case dw == t.w:
		r = t
	case dw < t.w:
		r = i.ts.Extract(t, dw-1, 0)
	case ssigned:
		r = i.ts.SExt(t, dw)
	default:
		r = i.ts.ZExt(t, dw)
	}
	return i.fromTerm(r, tDst)
}

func convBasic(dk types.BasicKind, x value) value {
	switch x := x.(type) {
	case float32:
		return convFloat(dk, float64(x))
	case float64:
		return convFloat(dk, x)
	case complex64:
		if dk == types.Complex128 {
			return complex128(x)
		}
		return x
	case complex128:
		if dk == types.Complex64 {
			return complex64(x)
		}
		return x
	case bool:
		return x
	}
	u, ok := toU64(x)
	if !ok {
		panic(fmt.Sprintf("convBasic of %T to %v", x, dk))
	}
	switch dk {
	case types.Float32:
		if isSignedVal(x) {
			return float32(int64(u))
		}
		return float32(u)
	case types.Float64:
		if isSignedVal(x) {
			return float64(int64(u))
		}
		return float64(u)
	case types.Complex128, types.Complex64:
		panic("int to complex")
	}
	return fromU64(dk, u)
}

func isSignedVal(x value) bool {
	switch x.(type) {
	case int, int8, int16, int32, int64:
		return true
	}
	return false
}

func convFloat(dk types.BasicKind, f float64) value {
	switch dk {
	case types.Float32:
		return float32(f)
	case types.Float64:
		return f
	case types.Int:
		return int(f)
	case types.Int8:
		return int8(f)
	case types.Int16:
		return int16(f)
	case types.Int32:
		return int32(f)
	case types.Int64:
		return int64(f)
	case types.Uint:
		return uint(f)
	case types.Uint8:
		return uint8(f)
	case types.Uint16:
		return uint16(f)
	case types.Uint32:
		return uint32(f)
	case types.Uint64:
		return uint64(f)
	case types.Uintptr:
		return uintptr(f)
	}
	panic(fmt.Sprintf("convFloat to %v", dk))
}

func (i *Interp) strToRunes(fr *frame, x value) value {
	if s, ok := x.(string); ok {
		rs := []rune(s)
		out := make([]value, len(rs))
		for k, r := range rs {
			out[k] = r
		}
		return out
	}
	var out []value
	it := &stringIter{s: x}
	for {
		t := it.next(fr)
		if !t[0].(bool) {
			break
		}
		out = append(out, t[2])
	}
	if out == nil {
		out = []value{}
	}
	return out
}

func (i *Interp) runesToStr(fr *frame, rs []value) value {
	var bytes []value
	for _, r := range rs {
		switch r := r.(type) {
		case int32:
			var buf [4]byte
			n := utf8.EncodeRune(buf[:], r)
			for _, b := range buf[:n] {
				bytes = append(bytes, b)
			}
		case *Term:
			res := i.callFn(fr, i.pkgFunc("unicode/utf8", "AppendRune"), []value(nil), r).([]value)
			bytes = append(bytes, res...)
		default:
			panic(fmt.Sprintf("runesToStr of %T", r))
		}
	}
	return mkString(bytes)
}
