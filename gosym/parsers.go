package main

// The generated ANTLR lexers and parsers (ATN interpreters over serialized
// automata) are the one part of goflow that is not executed.  They are
// replaced exactly at their boundary: the constructors of the generated lexer
// and parser allocate empty objects that remember the source text, and
// `p.Parse()` returns the tree a harness-side model builds for that text
// (harness/**/helper_parser.go, validated natively against the generated
// parsers) — or reports a syntax error to the registered error listeners, as
// the generated parser does.  Everything around that boundary — the bodies of
// excellent.Parse, contactql.ParseQuery and legacy migrateExpression, the
// error listeners, the visitors — is the real code.

import (
	"go/types"

	"golang.org/x/tools/go/ssa"
)

type parserModel struct {
	genPkg, lexerCtor, parserCtor, parserType string
	modelPkg                                  string
}

var parserModels = []parserModel{
	{"github.com/nyaruka/goflow/antlr/gen/excellent3", "NewExcellent3Lexer", "NewExcellent3Parser", "Excellent3Parser", "github.com/nyaruka/goflow/excellent"},
	{"github.com/nyaruka/goflow/antlr/gen/excellent1", "NewExcellent1Lexer", "NewExcellent1Parser", "Excellent1Parser", "github.com/nyaruka/goflow/flows/definition/legacy/expressions"},
	{"github.com/nyaruka/goflow/antlr/gen/contactql", "NewContactQLLexer", "NewContactQLParser", "ContactQLParser", "github.com/nyaruka/goflow/contactql"},
}

func (i *Interp) newZeroCell(t types.Type) *value {
	c := new(value)
	*c = zero(t)
	return c
}

func (i *Interp) setParseText(c *value, text value) {
	if i.parseText == nil {
		i.parseText = map[*value]value{}
	}
	i.parseText[c] = text
}

func structFieldIndex(t types.Type, name string) int {
	st := t.Underlying().(*types.Struct)
	for k := 0; k < st.NumFields(); k++ {
		if st.Field(k).Name() == name {
			return k
		}
	}
	return -1
}

func registerParserModels(reg func(string, intrinsic)) {
	const antlr = "github.com/antlr4-go/antlr/v4"
	reg(antlr+".NewInputStream", func(fr *frame, args []value) value {
		i := fr.i
		t := i.prog.ImportedPackage(antlr).Type("InputStream").Object().Type()
		c := i.newZeroCell(t)
		i.setParseText(c, args[0])
		return c
	})
	for _, pm := range parserModels {
		pm := pm
		reg(pm.genPkg+"."+pm.lexerCtor, func(fr *frame, args []value) value {
			i := fr.i
			in, _ := args[0].(iface)
			src, _ := in.v.(*value)
			text, ok := i.parseText[src]
			if !ok {
				panic(unsupported{pm.lexerCtor + ": input stream not created by antlr.NewInputStream"})
			}
			pkg := i.prog.ImportedPackage(pm.genPkg)
			name := pm.lexerCtor[3:]
			c := i.newZeroCell(pkg.Type(name).Object().Type())
			i.setParseText(c, text)
			return c
		})
		reg(pm.genPkg+"."+pm.parserCtor, func(fr *frame, args []value) value {
			i := fr.i
			// the token stream was built by the real NewCommonTokenStream: its token source is our lexer
			st, _ := args[0].(iface)
			sc, _ := st.v.(*value)
			if sc == nil {
				panic(unsupported{pm.parserCtor + ": nil token stream"})
			}
			var text value
			found := false
			if sv, ok := (*sc).(structure); ok {
				k := structFieldIndex(deref(st.t), "tokenSource")
				if k >= 0 {
					if lx, ok := sv[k].(iface); ok {
						if lc, ok := lx.v.(*value); ok {
							text, found = i.parseText[lc]
						}
					}
				}
			}
			if !found {
				panic(unsupported{pm.parserCtor + ": token stream without a modelled lexer"})
			}
			ap := i.prog.ImportedPackage(antlr)
			pt := i.prog.ImportedPackage(pm.genPkg).Type(pm.parserType).Object().Type()
			bpT := ap.Type("BaseParser").Object().Type()
			brT := ap.Type("BaseRecognizer").Object().Type()
			simT := ap.Type("ParserATNSimulator").Object().Type()
			br := i.newZeroCell(brT)
			bp := i.newZeroCell(bpT)
			bps := (*bp).(structure)
			bps[structFieldIndex(bpT, "BaseRecognizer")] = br
			bps[structFieldIndex(bpT, "Interpreter")] = i.newZeroCell(simT)
			pc := i.newZeroCell(pt)
			(*pc).(structure)[structFieldIndex(pt, "BaseParser")] = bp
			i.setParseText(pc, text)
			return pc
		})
		reg("(*"+pm.genPkg+"."+pm.parserType+").Parse", func(fr *frame, args []value) value {
			i := fr.i
			pc, _ := args[0].(*value)
			text, ok := i.parseText[pc]
			if !ok {
				panic(unsupported{pm.parserType + ".Parse: parser not created by the modelled constructor"})
			}
			mp := i.prog.ImportedPackage(pm.modelPkg)
			var model *ssa.Function
			if mp != nil {
				model = mp.Func("verifModelParseTree")
			}
			if model == nil {
				panic(unsupported{pm.parserType + ".Parse: the generated ANTLR parser is not encoded and the parser model overlay is not loaded"})
			}
			res := i.callFn(fr, model, text).(tuple)
			gp := i.prog.ImportedPackage(pm.genPkg)
			ctxT := types.NewPointer(gp.Type("ParseContext").Object().Type())
			if e, isErr := res[1].(iface); isErr && e.t != nil {
				if g := mp.Var("errVerifNonASCII"); g != nil {
					if ge, ok := (*i.globals[g]).(iface); ok && ge.t != nil && e.v == ge.v {
						panic(unsupported{pm.parserType + ".Parse: non-ASCII input is outside the parser model"})
					}
				}
				// a syntax error: tell the registered error listeners, like the generated parser
				pt := i.prog.ImportedPackage(pm.genPkg).Type(pm.parserType).Object().Type()
				bp := (*pc).(structure)[structFieldIndex(pt, "BaseParser")].(*value)
				ap := i.prog.ImportedPackage(antlr)
				bpT := ap.Type("BaseParser").Object().Type()
				br := (*bp).(structure)[structFieldIndex(bpT, "BaseRecognizer")].(*value)
				brT := ap.Type("BaseRecognizer").Object().Type()
				ls, _ := (*br).(structure)[structFieldIndex(brT, "listeners")].([]value)
				for _, l := range ls {
					li, _ := l.(iface)
					if li.t == nil {
						continue
					}
					m := i.findMethod(li.t, "SyntaxError")
					if m == nil {
						panic(unsupported{"error listener without SyntaxError: " + li.t.String()})
					}
					i.callFn(fr, m, li.v, iface{t: types.NewPointer(pt), v: pc}, iface{}, 1, 0, "syntax error", iface{})
				}
				root := i.newZeroCell(gp.Type("ParseContext").Object().Type())
				return iface{t: ctxT, v: root}
			}
			return iface{t: ctxT, v: res[0]}
		})
	}
}
