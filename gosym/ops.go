package main

import (
	"fmt"
	"go/constant"
	"go/token"
	"go/types"
	"math"
	"strings"
	"unicode/utf8"
	"unsafe"

	"golang.org/x/tools/go/ssa"
)

func constValue(c *ssa.Const) value {
	if c.Value == nil {
		return zero(c.Type())
	}
	if t, ok := c.Type().Underlying().(*types.Basic); ok {
		switch t.Kind() {
		case types.Bool, types.UntypedBool:
			return constant.BoolVal(c.Value)
		case types.Int, types.UntypedInt:
			return int(c.Int64())
		case types.Int8:
			return int8(c.Int64())
		case types.Int16:
			return int16(c.Int64())
		case types.Int32, types.UntypedRune:
			return int32(c.Int64())
		case types.Int64:
			return c.Int64()
		case types.Uint:
			return uint(c.Uint64())
		case types.Uint8:
			return uint8(c.Uint64())
		case types.Uint16:
			return uint16(c.Uint64())
		case types.Uint32:
			return uint32(c.Uint64())
		case types.Uint64:
			return c.Uint64()
		case types.Uintptr:
			return uintptr(c.Uint64())
		case types.Float32:
			return float32(c.Float64())
		case types.Float64, types.UntypedFloat:
			return c.Float64()
		case types.Complex64:
			return complex64(c.Complex128())
		case types.Complex128, types.UntypedComplex:
			return c.Complex128()
		case types.String, types.UntypedString:
			if c.Value.Kind() == constant.String {
				return constant.StringVal(c.Value)
			}
			return string(rune(c.Int64()))
		}
	}
	panic(fmt.Sprintf("constValue: %s", c))
}

func asInt64(x value) int64 {
	switch x := x.(type) {
	case int:
		return int64(x)
	case int8:
		return int64(x)
	case int16:
		return int64(x)
	case int32:
		return int64(x)
	case int64:
		return x
	case uint:
		return int64(x)
	case uint8:
		return int64(x)
	case uint16:
		return int64(x)
	case uint32:
		return int64(x)
	case uint64:
		return int64(x)
	case uintptr:
		return int64(x)
	}
	panic(fmt.Sprintf("cannot convert %T to int64", x))
}

// toU64 returns the bit pattern of a concrete integer (sign-extended to 64
// bits for signed kinds) and whether it is an integer at all.
func toU64(x value) (uint64, bool) {
	switch x := x.(type) {
	case int:
		return uint64(x), true
	case int8:
		return uint64(x), true
	case int16:
		return uint64(x), true
	case int32:
		return uint64(x), true
	case int64:
		return uint64(x), true
	case uint:
		return uint64(x), true
	case uint8:
		return uint64(x), true
	case uint16:
		return uint64(x), true
	case uint32:
		return uint64(x), true
	case uint64:
		return x, true
	case uintptr:
		return uint64(x), true
	}
	return 0, false
}

func basicKind(t types.Type) (types.BasicKind, bool) {
	b, ok := t.Underlying().(*types.Basic)
	if !ok {
		return 0, false
	}
	k := b.Kind()
	switch k {
	case types.UntypedInt:
		k = types.Int
	case types.UntypedRune:
		k = types.Int32
	case types.UntypedFloat:
		k = types.Float64
	case types.UntypedBool:
		k = types.Bool
	case types.UntypedString:
		k = types.String
	}
	return k, true
}

// intInfo returns the width and signedness of an integer type (0 if not one).
func intInfo(t types.Type) (uint8, bool) {
	k, ok := basicKind(t)
	if !ok {
		return 0, false
	}
	switch k {
	case types.Int, types.Int64:
		return 64, true
	case types.Int8:
		return 8, true
	case types.Int16:
		return 16, true
	case types.Int32:
		return 32, true
	case types.Uint, types.Uint64, types.Uintptr:
		return 64, false
	case types.Uint8:
		return 8, false
	case types.Uint16:
		return 16, false
	case types.Uint32:
		return 32, false
	}
	return 0, false
}

func isSigned(t types.Type) bool { _, s := intInfo(t); return s }

func isBoolType(t types.Type) bool {
	k, ok := basicKind(t)
	return ok && k == types.Bool
}

func isScalarType(t types.Type) bool {
	if w, _ := intInfo(t); w != 0 {
		return true
	}
	return isBoolType(t)
}

// fromU64 boxes a bit pattern as the Go type of kind k.
func fromU64(k types.BasicKind, u uint64) value {
	switch k {
	case types.Int:
		return int(u)
	case types.Int8:
		return int8(u)
	case types.Int16:
		return int16(u)
	case types.Int32:
		return int32(u)
	case types.Int64:
		return int64(u)
	case types.Uint:
		return uint(u)
	case types.Uint8:
		return uint8(u)
	case types.Uint16:
		return uint16(u)
	case types.Uint32:
		return uint32(u)
	case types.Uint64:
		return u
	case types.Uintptr:
		return uintptr(u)
	}
	panic(fmt.Sprintf("fromU64: kind %v", k))
}

// toTerm converts a scalar value into a term of width w (0 = Bool).
func (i *Interp) toTerm(v value, w uint8) *Term {
	switch v := v.(type) {
	case *Term:
		if v.w != w {
			panic(fmt.Sprintf("toTerm: width %d, want %d (%s)", v.w, w, v))
		}
		return v
	case bool:
		return i.ts.Bool(v)
	}
	u, ok := toU64(v)
	if !ok {
		panic(fmt.Sprintf("toTerm of %T", v))
	}
	return i.ts.BV(u, w)
}

// fromTerm unboxes constants into native values of type t.
func (i *Interp) fromTerm(t *Term, typ types.Type) value {
	if !t.IsConst() {
		return t
	}
	if t.w == 0 {
		return t.val == 1
	}
	k, _ := basicKind(typ)
	_, signed := intInfo(typ)
	if signed {
		return fromU64(k, uint64(sext(t.val, t.w)))
	}
	return fromU64(k, t.val)
}

func isSym(v value) bool {
	switch v.(type) {
	case *Term, sstring:
		return true
	}
	return false
}

// ---------------------------------------------------------------------

func (fr *frame) binop(in ssa.Instruction, op token.Token, t types.Type, x, y value) value {
	i := fr.i
	// integers
	if w, signed := intInfo(t); w != 0 {
		_, xs := x.(*Term)
		_, ys := y.(*Term)
		if xs || ys {
			return fr.symIntBinop(in, op, t, w, signed, x, y)
		}
		return fr.concIntBinop(in, op, t, w, signed, x, y)
	}
	switch x := x.(type) {
	case bool, *Term:
		// boolean ops
		if xb, ok := x.(bool); ok {
			if yb, ok := y.(bool); ok {
				switch op {
				case token.EQL:
					return xb == yb
				case token.NEQ:
					return xb != yb
				case token.AND, token.LAND:
					return xb && yb
				case token.OR, token.LOR:
					return xb || yb
				}
				panic(fmt.Sprintf("bool binop %s", op))
			}
		}
		a, b := i.toTerm(x, 0), i.toTerm(y, 0)
		var r *Term
		switch op {
		case token.EQL:
			r = i.ts.Eq(a, b)
		case token.NEQ:
			r = i.ts.Not(i.ts.Eq(a, b))
		case token.AND, token.LAND:
			r = i.ts.And(a, b)
		case token.OR, token.LOR:
			r = i.ts.Or(a, b)
		default:
			panic(fmt.Sprintf("bool binop %s", op))
		}
		return i.fromTerm(r, types.Typ[types.Bool])
	case float64:
		y := y.(float64)
		switch op {
		case token.ADD:
			return x + y
		case token.SUB:
			return x - y
		case token.MUL:
			return x * y
		case token.QUO:
			return x / y
		case token.EQL:
			return x == y
		case token.NEQ:
			return x != y
		case token.LSS:
			return x < y
		case token.LEQ:
			return x <= y
		case token.GTR:
			return x > y
		case token.GEQ:
			return x >= y
		}
	case float32:
		y := y.(float32)
		switch op {
		case token.ADD:
			return x + y
		case token.SUB:
			return x - y
		case token.MUL:
			return x * y
		case token.QUO:
			return x / y
		case token.EQL:
			return x == y
		case token.NEQ:
			return x != y
		case token.LSS:
			return x < y
		case token.LEQ:
			return x <= y
		case token.GTR:
			return x > y
		case token.GEQ:
			return x >= y
		}
	case complex128:
		y := y.(complex128)
		switch op {
		case token.ADD:
			return x + y
		case token.SUB:
			return x - y
		case token.MUL:
			return x * y
		case token.QUO:
			return x / y
		case token.EQL:
			return x == y
		case token.NEQ:
			return x != y
		}
	case string, sstring:
		return fr.strBinop(op, x, y)
	}
	switch op {
	case token.EQL:
		return fr.equalsV(t, x, y)
	case token.NEQ:
		r := fr.equalsV(t, x, y)
		if b, ok := r.(bool); ok {
			return !b
		}
		return i.fromTerm(i.ts.Not(r.(*Term)), types.Typ[types.Bool])
	}
	panic(fmt.Sprintf("invalid binary op: %T %s %T at %s", x, op, y, fr.pos(in)))
}

func (fr *frame) concIntBinop(in ssa.Instruction, op token.Token, t types.Type, w uint8, signed bool, x, y value) value {
	k, _ := basicKind(t)
	xu, ok1 := toU64(x)
	yu, ok2 := toU64(y)
	if !ok1 || !ok2 {
		panic(fmt.Sprintf("int binop on %T %s %T at %s", x, op, y, fr.pos(in)))
	}
	m := mask(w)
	switch op {
	case token.ADD:
		return fromU64(k, xu+yu)
	case token.SUB:
		return fromU64(k, xu-yu)
	case token.MUL:
		return fromU64(k, xu*yu)
	case token.QUO, token.REM:
		if yu&m == 0 {
			tp := fr.i.rtPanic("integer divide by zero")
			tp.where = fr.pos(in)
			panic(tp)
		}
		if signed {
			sx, sy := int64(xu), int64(yu)
			if sy == -1 {
				if op == token.QUO {
					return fromU64(k, uint64(-sx))
				}
				return fromU64(k, 0)
			}
			if op == token.QUO {
				return fromU64(k, uint64(sx/sy))
			}
			return fromU64(k, uint64(sx%sy))
		}
		xu &= m
		yu &= m
		if op == token.QUO {
			return fromU64(k, xu/yu)
		}
		return fromU64(k, xu%yu)
	case token.AND:
		return fromU64(k, xu&yu)
	case token.OR:
		return fromU64(k, xu|yu)
	case token.XOR:
		return fromU64(k, xu^yu)
	case token.AND_NOT:
		return fromU64(k, xu&^yu)
	case token.SHL, token.SHR:
		// y's own type decides its signedness; negative counts panic
		if sy, neg := shiftCount(y); neg {
			tp := fr.i.rtPanic("negative shift amount")
			tp.where = fr.pos(in)
			panic(tp)
		} else {
			if op == token.SHL {
				if sy >= 64 {
					return fromU64(k, 0)
				}
				return fromU64(k, xu<<sy)
			}
			if signed {
				if sy >= 64 {
					sy = 63
				}
				return fromU64(k, uint64(int64(xu)>>sy))
			}
			if sy >= 64 {
				return fromU64(k, 0)
			}
			return fromU64(k, (xu&m)>>sy)
		}
	case token.EQL:
		return xu&m == yu&m
	case token.NEQ:
		return xu&m != yu&m
	case token.LSS, token.LEQ, token.GTR, token.GEQ:
		var lt, eq bool
		if signed {
			lt, eq = int64(xu) < int64(yu), xu == yu
		} else {
			lt, eq = xu&m < yu&m, xu&m == yu&m
		}
		switch op {
		case token.LSS:
			return lt
		case token.LEQ:
			return lt || eq
		case token.GTR:
			return !lt && !eq
		default:
			return !lt
		}
	}
	panic(fmt.Sprintf("int binop %s", op))
}

func shiftCount(y value) (uint64, bool) {
	switch y := y.(type) {
	case int:
		return uint64(y), y < 0
	case int8:
		return uint64(y), y < 0
	case int16:
		return uint64(y), y < 0
	case int32:
		return uint64(y), y < 0
	case int64:
		return uint64(y), y < 0
	}
	u, _ := toU64(y)
	return u, false
}

func (fr *frame) symIntBinop(in ssa.Instruction, op token.Token, t types.Type, w uint8, signed bool, x, y value) value {
	i := fr.i
	ts := i.ts
	a := i.toTerm(x, w)
	var b *Term
	if op == token.SHL || op == token.SHR {
		// shift count has its own type; bring it to width w (saturating)
		switch yv := y.(type) {
		case *Term:
			bin := in.(*ssa.BinOp)
			ysigned := isSigned(bin.Y.Type())
			if ysigned {
				neg := ts.Cmp(OpSLT, yv, ts.BV(0, yv.w))
				if i.decide(neg, fr, "shift") {
					tp := i.rtPanic("negative shift amount")
					tp.where = fr.pos(in)
					panic(tp)
				}
			}
			if yv.w > w {
				big := ts.Not(ts.Cmp(OpULT, yv, ts.BV(uint64(w), yv.w)))
				b = ts.Ite(big, ts.BV(uint64(w), w), ts.Extract(yv, w-1, 0))
			} else {
				b = ts.ZExt(yv, w)
			}
		default:
			c, neg := shiftCount(y)
			if neg {
				tp := i.rtPanic("negative shift amount")
				tp.where = fr.pos(in)
				panic(tp)
			}
			if c > uint64(w) {
				c = uint64(w)
			}
			b = ts.BV(c, w)
		}
	} else {
		b = i.toTerm(y, w)
	}
	var r *Term
	switch op {
	case token.ADD:
		r = ts.Bin(OpAdd, a, b)
	case token.SUB:
		r = ts.Bin(OpSub, a, b)
	case token.MUL:
		r = ts.Bin(OpMul, a, b)
	case token.QUO, token.REM:
		isz := ts.Eq(b, ts.BV(0, w))
		if i.decide(isz, fr, "div") {
			tp := i.rtPanic("integer divide by zero")
			tp.where = fr.pos(in)
			panic(tp)
		}
		switch {
		case op == token.QUO && signed:
			r = ts.Bin(OpSDiv, a, b)
		case op == token.QUO:
			r = ts.Bin(OpUDiv, a, b)
		case signed:
			r = ts.Bin(OpSRem, a, b)
		default:
			r = ts.Bin(OpURem, a, b)
		}
	case token.AND:
		r = ts.Bin(OpBAnd, a, b)
	case token.OR:
		r = ts.Bin(OpBOr, a, b)
	case token.XOR:
		r = ts.Bin(OpBXor, a, b)
	case token.AND_NOT:
		r = ts.Bin(OpBAnd, a, ts.BNot(b))
	case token.SHL:
		r = ts.Bin(OpShl, a, b)
	case token.SHR:
		if signed {
			r = ts.Bin(OpAShr, a, b)
		} else {
			r = ts.Bin(OpLShr, a, b)
		}
	case token.EQL:
		return i.fromTerm(ts.Eq(a, b), types.Typ[types.Bool])
	case token.NEQ:
		return i.fromTerm(ts.Not(ts.Eq(a, b)), types.Typ[types.Bool])
	case token.LSS, token.LEQ, token.GTR, token.GEQ:
		lt, le := OpULT, OpULE
		if signed {
			lt, le = OpSLT, OpSLE
		}
		switch op {
		case token.LSS:
			r = ts.Cmp(lt, a, b)
		case token.LEQ:
			r = ts.Cmp(le, a, b)
		case token.GTR:
			r = ts.Cmp(lt, b, a)
		default:
			r = ts.Cmp(le, b, a)
		}
		return i.fromTerm(r, types.Typ[types.Bool])
	default:
		panic(fmt.Sprintf("sym int binop %s", op))
	}
	return i.fromTerm(r, t)
}

// strEqTerm builds the condition "a == b" for two strings of equal length.
func (i *Interp) strEq(a, b value) value {
	if x, ok := a.(string); ok {
		if y, ok := b.(string); ok {
			return x == y
		}
	}
	n := strLen(a)
	if n != strLen(b) {
		return false
	}
	r := i.ts.tt
	for k := 0; k < n; k++ {
		r = i.ts.And(r, i.ts.Eq(i.toTerm(strByte(a, k), 8), i.toTerm(strByte(b, k), 8)))
		if r.IsFalse() {
			return false
		}
	}
	return i.fromTerm(r, types.Typ[types.Bool])
}

// strLess builds "a < b" lexicographically.
func (i *Interp) strLess(a, b value, orEq bool) value {
	na, nb := strLen(a), strLen(b)
	n := na
	if nb < n {
		n = nb
	}
	// result when the common prefix is equal
	var tail *Term
	if orEq {
		tail = i.ts.Bool(na <= nb)
	} else {
		tail = i.ts.Bool(na < nb)
	}
	r := tail
	for k := n - 1; k >= 0; k-- {
		x, y := i.toTerm(strByte(a, k), 8), i.toTerm(strByte(b, k), 8)
		r = i.ts.Ite(i.ts.Eq(x, y), r, i.ts.Cmp(OpULT, x, y))
	}
	return i.fromTerm(r, types.Typ[types.Bool])
}

func (i *Interp) notV(v value) value {
	if b, ok := v.(bool); ok {
		return !b
	}
	return i.fromTerm(i.ts.Not(v.(*Term)), types.Typ[types.Bool])
}

func (fr *frame) strBinop(op token.Token, x, y value) value {
	i := fr.i
	if xs, ok := x.(string); ok {
		if ys, ok := y.(string); ok {
			switch op {
			case token.ADD:
				return xs + ys
			case token.EQL:
				return xs == ys
			case token.NEQ:
				return xs != ys
			case token.LSS:
				return xs < ys
			case token.LEQ:
				return xs <= ys
			case token.GTR:
				return xs > ys
			case token.GEQ:
				return xs >= ys
			}
		}
	}
	switch op {
	case token.ADD:
		return strConcat(x, y)
	case token.EQL:
		return i.strEq(x, y)
	case token.NEQ:
		return i.notV(i.strEq(x, y))
	case token.LSS:
		return i.strLess(x, y, false)
	case token.LEQ:
		return i.strLess(x, y, true)
	case token.GTR:
		return i.strLess(y, x, false)
	case token.GEQ:
		return i.strLess(y, x, true)
	}
	panic(fmt.Sprintf("string binop %s", op))
}

func (i *Interp) andV(a, b value) value {
	if x, ok := a.(bool); ok {
		if !x {
			return false
		}
		return b
	}
	if y, ok := b.(bool); ok {
		if !y {
			return false
		}
		return a
	}
	return i.fromTerm(i.ts.And(a.(*Term), b.(*Term)), types.Typ[types.Bool])
}

// equalsV implements == for type t, returning bool or a Bool term.
func (fr *frame) equalsV(t types.Type, x, y value) value {
	i := fr.i
	switch x := x.(type) {
	case bool, *Term, int, int8, int16, int32, int64, uint, uint8, uint16, uint32, uint64, uintptr:
		if _, ok := x.(*Term); !ok {
			if _, ok := y.(*Term); !ok {
				if xb, ok := x.(bool); ok {
					return xb == y.(bool)
				}
				xu, _ := toU64(x)
				yu, _ := toU64(y)
				return xu == yu
			}
		}
		w := uint8(0)
		if xt, ok := x.(*Term); ok {
			w = xt.w
		} else if yt, ok := y.(*Term); ok {
			w = yt.w
		}
		return i.fromTerm(i.ts.Eq(i.toTerm(x, w), i.toTerm(y, w)), types.Typ[types.Bool])
	case float32:
		return x == y.(float32)
	case float64:
		return x == y.(float64)
	case complex64:
		return x == y.(complex64)
	case complex128:
		return x == y.(complex128)
	case string, sstring:
		if !isString(y) {
			return false
		}
		return i.strEq(x, y)
	case *value:
		switch y := y.(type) {
		case *value:
			return x == y
		case unsafe.Pointer:
			return unsafe.Pointer(x) == y
		}
		return false
	case unsafe.Pointer:
		switch y := y.(type) {
		case *value:
			return x == unsafe.Pointer(y)
		case unsafe.Pointer:
			return x == y
		}
		return false
	case *smap:
		ym, _ := y.(*smap)
		return x == ym
	case []value:
		// only comparison with nil is legal
		if x == nil {
			return isNilValue(y)
		}
		if yv, ok := y.([]value); ok && yv == nil {
			return false
		}
		panic(targetPanic{v: iface{t: i.sh.rtErr, v: "runtime error: comparing uncomparable type " + t.String()}})
	case *ssa.Function, *closure, *ssa.Builtin, *hostFunc:
		if isNilValue(x) {
			return isNilValue(y)
		}
		if isNilValue(y) {
			return false
		}
		panic(targetPanic{v: iface{t: i.sh.rtErr, v: "runtime error: comparing uncomparable type " + t.String()}})
	case structure:
		y := y.(structure)
		var r value = true
		var st *types.Struct
		if t != nil {
			st, _ = t.Underlying().(*types.Struct)
		}
		for k := range x {
			var ft types.Type
			if st != nil {
				ft = st.Field(k).Type()
			}
			r = i.andV(r, fr.equalsV(ft, x[k], y[k]))
			if b, ok := r.(bool); ok && !b {
				return false
			}
		}
		return r
	case array:
		y := y.(array)
		var r value = true
		var et types.Type
		if t != nil {
			if at, ok := t.Underlying().(*types.Array); ok {
				et = at.Elem()
			}
		}
		for k := range x {
			r = i.andV(r, fr.equalsV(et, x[k], y[k]))
			if b, ok := r.(bool); ok && !b {
				return false
			}
		}
		return r
	case iface:
		y, ok := y.(iface)
		if !ok {
			return false
		}
		if x.t == nil || y.t == nil {
			return x.t == nil && y.t == nil
		}
		if !types.Identical(x.t, y.t) {
			return false
		}
		if !types.Comparable(x.t) {
			panic(targetPanic{v: iface{t: i.sh.rtErr, v: "runtime error: comparing uncomparable type " + x.t.String()}})
		}
		return fr.equalsV(x.t, x.v, y.v)
	case rtype:
		y, ok := y.(rtype)
		return ok && types.Identical(x.t, y.t)
	case *native:
		return x == y
	case nil:
		return isNilValue(y)
	}
	panic(fmt.Sprintf("equalsV: %T vs %T (%v)", x, y, t))
}

func (fr *frame) unop(instr *ssa.UnOp, x value) value {
	i := fr.i
	switch instr.Op {
	case token.ARROW:
		panic(unsupported{"channel receive at " + fr.pos(instr)})
	case token.MUL:
		if sa, ok := x.(*symAddr); ok {
			return fr.selectElem(sa.elems, sa.idx, sa.et)
		}
		p := fr.deref(instr, x)
		i.noteRead(p, fr, instr)
		return load(p)
	case token.SUB:
		if t, ok := x.(*Term); ok {
			return i.fromTerm(i.ts.Neg(t), instr.Type())
		}
		switch x := x.(type) {
		case float32:
			return -x
		case float64:
			return -x
		case complex64:
			return -x
		case complex128:
			return -x
		}
		k, _ := basicKind(instr.Type())
		u, _ := toU64(x)
		return fromU64(k, -u)
	case token.NOT:
		if t, ok := x.(*Term); ok {
			return i.fromTerm(i.ts.Not(t), instr.Type())
		}
		return !x.(bool)
	case token.XOR:
		if t, ok := x.(*Term); ok {
			return i.fromTerm(i.ts.BNot(t), instr.Type())
		}
		k, _ := basicKind(instr.Type())
		u, _ := toU64(x)
		return fromU64(k, ^u)
	}
	panic(fmt.Sprintf("invalid unary op %s %T", instr.Op, x))
}

// ---------------------------------------------------------------------
// maps

// mapFind returns the position of key in m or -1.  With symbolic keys the
// comparison against each candidate is decided (forking).
func (fr *frame) mapFind(m *smap, key value) int {
	if m == nil {
		return -1
	}
	if isSymbolicKey(key) {
		for _, p := range m.order() {
			eq := fr.equalsV(m.kt, m.keys[p], key)
			if fr.i.truth(eq, fr, "mapkey") {
				return p
			}
		}
		return -1
	}
	if !types.Comparable(m.kt) {
		panic(fr.i.rtPanic("hash of unhashable type"))
	}
	if it, ok := key.(iface); ok && it.t != nil && !types.Comparable(it.t) {
		panic(fr.i.rtPanic("hash of unhashable type " + it.t.String()))
	}
	hk := hashKey(key)
	for _, p := range m.index[hk] {
		if m.live[p] {
			if b, ok := fr.equalsV(m.kt, m.keys[p], key).(bool); ok && b {
				return p
			}
		}
	}
	// entries with symbolic keys
	for _, p := range m.index["\x00sym"] {
		if m.live[p] {
			eq := fr.equalsV(m.kt, m.keys[p], key)
			if fr.i.truth(eq, fr, "mapkey") {
				return p
			}
		}
	}
	return -1
}

func (fr *frame) mapSet(m *smap, key, v value) {
	tr := &fr.i.tr
	if p := fr.mapFind(m, key); p >= 0 {
		old := m.vals[p]
		m.vals[p] = v
		tr.logFn(func() { m.vals[p] = old })
		return
	}
	hk := hashKey(key)
	if isSymbolicKey(key) {
		hk = "\x00sym"
	}
	p := len(m.keys)
	m.keys = append(m.keys, key)
	m.vals = append(m.vals, v)
	m.live = append(m.live, true)
	m.index[hk] = append(m.index[hk], p)
	m.n++
	tr.logFn(func() {
		m.keys = m.keys[:p]
		m.vals = m.vals[:p]
		m.live = m.live[:p]
		l := m.index[hk]
		m.index[hk] = l[:len(l)-1]
		m.n--
	})
}

func (fr *frame) mapDelete(m *smap, key value) {
	if m == nil {
		return
	}
	if p := fr.mapFind(m, key); p >= 0 {
		m.live[p] = false
		m.n--
		fr.i.tr.logFn(func() { m.live[p] = true; m.n++ })
	}
}

func (fr *frame) lookup(instr *ssa.Lookup, x, idx value) value {
	switch x := x.(type) {
	case *smap:
		var v value
		ok := false
		if x != nil {
			fr.i.noteMapRead(x, fr, instr)
		}
		if p := fr.mapFind(x, idx); p >= 0 {
			v = copyVal(x.vals[p])
			ok = true
		} else {
			v = zero(instr.X.Type().Underlying().(*types.Map).Elem())
		}
		if instr.CommaOk {
			return tuple{v, ok}
		}
		return v
	case string:
		k, t := fr.checkIndex(instr, idx, len(x), instr.Index.Type())
		if t != nil {
			return fr.selectElem(strBytes(x), t, types.Typ[types.Uint8])
		}
		return x[k]
	case sstring:
		k, t := fr.checkIndex(instr, idx, len(x), instr.Index.Type())
		if t != nil {
			return fr.selectElem(x, t, types.Typ[types.Uint8])
		}
		return x[k]
	}
	panic(fmt.Sprintf("unexpected x type in Lookup: %T", x))
}

// ---------------------------------------------------------------------
// range

type iter interface {
	next(fr *frame) tuple
}

type mapIter struct {
	m     *smap
	order []int
	k     int
}

func (it *mapIter) next(fr *frame) tuple {
	for it.k < len(it.order) {
		p := it.order[it.k]
		it.k++
		if p < len(it.m.live) && it.m.live[p] {
			return tuple{true, it.m.keys[p], copyVal(it.m.vals[p])}
		}
	}
	return tuple{false, nil, nil}
}

type stringIter struct {
	s   value
	pos int
}

func (it *stringIter) next(fr *frame) tuple {
	n := strLen(it.s)
	if it.pos >= n {
		return tuple{false, nil, nil}
	}
	if s, ok := it.s.(string); ok {
		r, sz := utf8.DecodeRuneInString(s[it.pos:])
		res := tuple{true, it.pos, r}
		it.pos += sz
		return res
	}
	// symbolic bytes: decode with the real utf8 code
	rest := strSlice(it.s, it.pos, n)
	if rs, ok := rest.(string); ok {
		r, sz := utf8.DecodeRuneInString(rs)
		out := tuple{true, it.pos, r}
		it.pos += sz
		return out
	}
	res := fr.i.callFn(fr, fr.i.pkgFunc("unicode/utf8", "DecodeRuneInString"), rest).(tuple)
	sz := fr.concreteInt(res[1], "rune size", 1, 4)
	out := tuple{true, it.pos, res[0]}
	it.pos += sz
	return out
}

func (fr *frame) rangeIter(instr *ssa.Range, x value) iter {
	switch x := x.(type) {
	case *smap:
		if x == nil {
			return &mapIter{m: &smap{}}
		}
		fr.i.noteMapRead(x, fr, instr)
		return &mapIter{m: x, order: fr.i.mapOrder(x, fr, instr)}
	case string, sstring:
		return &stringIter{s: x}
	}
	panic(fmt.Sprintf("cannot range over %T", x))
}

// ---------------------------------------------------------------------
// builtins

func (i *Interp) callBuiltin(caller *frame, callpos token.Pos, fn *ssa.Builtin, args []value) value {
	switch fn.Name() {
	case "append":
		if len(args) == 1 {
			return args[0]
		}
		var tail []value
		if isString(args[1]) {
			tail = strBytes(args[1])
		} else {
			tail = args[1].([]value)
		}
		if len(tail) == 0 {
			return args[0]
		}
		a, _ := args[0].([]value)
		if len(a)+len(tail) <= cap(a) {
			// in place: log the overwritten cells
			dst := a[:len(a)+len(tail)]
			for k := range tail {
				i.noteWriteAt(&dst[len(a)+k], caller, callpos, "append into spare capacity")
				i.tr.set(&dst[len(a)+k], copyVal(tail[k]))
			}
			return dst
		}
		nc := 2*cap(a) + len(tail)
		if nc < 4 {
			nc = 4
		}
		out := make([]value, len(a), nc)
		copy(out, a)
		for _, e := range tail {
			out = append(out, copyVal(e))
		}
		// spare capacity holds zero values, as in Go
		if sig, ok := fn.Type().(*types.Signature); ok && sig.Params().Len() > 0 {
			if st, ok := sig.Params().At(0).Type().Underlying().(*types.Slice); ok {
				full := out[:cap(out)]
				var z value
				_, basic := st.Elem().Underlying().(*types.Basic)
				if basic {
					z = zero(st.Elem())
				}
				for k := len(out); k < len(full); k++ {
					if basic {
						full[k] = z
					} else {
						full[k] = zero(st.Elem())
					}
				}
			}
		}
		return out

	case "copy":
		dst := args[0].([]value)
		var src []value
		if isString(args[1]) {
			src = strBytes(args[1])
		} else {
			src = args[1].([]value)
		}
		n := len(dst)
		if len(src) < n {
			n = len(src)
		}
		if n == 0 {
			return 0
		}
		// handle overlap like memmove
		tmp := make([]value, n)
		copy(tmp, src[:n])
		for k := 0; k < n; k++ {
			i.noteWriteAt(&dst[k], caller, callpos, "copy")
			i.tr.set(&dst[k], copyVal(tmp[k]))
		}
		return n

	case "close":
		panic(unsupported{"close(chan)"})

	case "delete":
		m, _ := args[0].(*smap)
		caller.mapDelete(m, args[1])
		return nil

	case "clear":
		switch x := args[0].(type) {
		case *smap:
			if x != nil {
				for _, p := range x.order() {
					p := p
					x.live[p] = false
					x.n--
					i.tr.logFn(func() { x.live[p] = true; x.n++ })
				}
			}
		case []value:
			if sig, ok := fn.Type().(*types.Signature); ok && sig.Params().Len() > 0 {
				if st, ok := sig.Params().At(0).Type().Underlying().(*types.Slice); ok {
					for k := range x {
						i.tr.set(&x[k], zero(st.Elem()))
					}
					return nil
				}
			}
			panic(unsupported{"clear(slice) of unknown element type"})
		}
		return nil

	case "print", "println":
		ln := fn.Name() == "println"
		var sb strings.Builder
		for k, a := range args {
			if k > 0 && ln {
				sb.WriteByte(' ')
			}
			sb.WriteString(describe(a))
		}
		if ln {
			sb.WriteByte('\n')
		}
		if i.ex != nil && i.ex.verbose {
			fmt.Print(sb.String())
		}
		return nil

	case "len":
		switch x := args[0].(type) {
		case string:
			return len(x)
		case sstring:
			return len(x)
		case array:
			return len(x)
		case *value:
			if x == nil {
				return 0
			}
			return len((*x).(array))
		case []value:
			return len(x)
		case *smap:
			if x == nil {
				return 0
			}
			return x.len()
		default:
			panic(fmt.Sprintf("len: illegal operand: %T", x))
		}

	case "cap":
		switch x := args[0].(type) {
		case array:
			return cap(x)
		case *value:
			if x == nil {
				return 0
			}
			return len((*x).(array))
		case []value:
			return cap(x)
		default:
			panic(fmt.Sprintf("cap: illegal operand: %T", x))
		}

	case "min", "max":
		return i.minmax(caller, fn.Name() == "min", args)

	case "real":
		switch c := args[0].(type) {
		case complex64:
			return real(c)
		case complex128:
			return real(c)
		}
	case "imag":
		switch c := args[0].(type) {
		case complex64:
			return imag(c)
		case complex128:
			return imag(c)
		}
	case "complex":
		switch f := args[0].(type) {
		case float32:
			return complex(f, args[1].(float32))
		case float64:
			return complex(f, args[1].(float64))
		}

	case "panic":
		panic(targetPanic{v: args[0]})

	case "recover":
		return i.doRecover(caller)

	case "ssa:wrapnilchk":
		recv := args[0]
		if p, ok := recv.(*value); ok && p == nil {
			recvType := args[1]
			methodName := args[2]
			panic(i.rtPanic(fmt.Sprintf("value method %s.%s called using nil *%s pointer", recvType, methodName, recvType)))
		}
		return recv

	case "ssa:deferstack":
		return &caller.defers

	case "String": // unsafe.String(ptr *byte, len)
		n := int(asInt64(args[1]))
		if n == 0 {
			return ""
		}
		p := args[0].(*value)
		return mkString(unsafe.Slice(p, n))
	case "StringData":
		b := strBytes(args[0])
		if len(b) == 0 {
			return (*value)(nil)
		}
		return &b[0]
	case "Slice": // unsafe.Slice(ptr, len)
		n := int(asInt64(args[1]))
		p := args[0].(*value)
		if p == nil {
			return []value(nil)
		}
		return unsafe.Slice(p, n)
	case "SliceData":
		s := args[0].([]value)
		if cap(s) == 0 {
			return (*value)(nil)
		}
		return &s[:1][0]
	case "Add", "Sizeof", "Alignof", "Offsetof":
		panic(unsupported{"unsafe." + fn.Name()})
	}
	panic(unsupported{"builtin " + fn.Name()})
}

// minmaxType is not known to the builtin call here; signedness is inferred
// from the concrete operand when there is one, else assumed signed (rune/int).
func (fr *frame) minmaxType() (types.Type, bool) { return nil, false }

func (i *Interp) minmax(fr *frame, isMin bool, args []value) value {
	res := args[0]
	for _, a := range args[1:] {
		switch x := res.(type) {
		case float64:
			if isMin {
				res = math.Min(x, a.(float64))
			} else {
				res = math.Max(x, a.(float64))
			}
			continue
		case string:
			if y, ok := a.(string); ok {
				if (isMin && y < x) || (!isMin && y > x) {
					res = y
				}
				continue
			}
		}
		_, rs := res.(*Term)
		_, as := a.(*Term)
		if rs || as {
			// symbolic integers: ite over the comparison (type from the call's signature)
			var w uint8
			if rs {
				w = res.(*Term).w
			} else {
				w = a.(*Term).w
			}
			signedT := true
			switch other := map[bool]value{true: a, false: res}[rs].(type) {
			case uint, uint8, uint16, uint32, uint64, uintptr:
				signedT = false
				_ = other
			}
			if sig, ok := fr.minmaxType(); ok {
				_, signedT = intInfo(sig)
			}
			x, y := i.toTerm(res, w), i.toTerm(a, w)
			op := OpSLT
			if !signedT {
				op = OpULT
			}
			var c *Term
			if isMin {
				c = i.ts.Cmp(op, y, x)
			} else {
				c = i.ts.Cmp(op, x, y)
			}
			t := i.ts.Ite(c, y, x)
			if t.IsConst() {
				panic(unsupported{"min/max folded to a constant of unknown type"})
			}
			res = t
			continue
		}
		xu, ok1 := toU64(res)
		yu, ok2 := toU64(a)
		if !ok1 || !ok2 {
			panic(unsupported{fmt.Sprintf("min/max on %T", res)})
		}
		signed := false
		switch res.(type) {
		case int, int8, int16, int32, int64:
			signed = true
		}
		var less bool
		if signed {
			less = int64(yu) < int64(xu)
		} else {
			less = yu < xu
		}
		if less == isMin && xu != yu {
			res = a
		}
	}
	return res
}

func (i *Interp) doRecover(caller *frame) value {
	if caller != nil && !caller.panicking && caller.caller != nil && caller.caller.panicking {
		p := caller.caller.panic
		switch p := p.(type) {
		case targetPanic:
			caller.caller.panicking = false
			caller.caller.panic = nil
			if i.ex != nil {
				i.ex.recovered++
			}
			return p.v
		default:
			panic(p)
		}
	}
	return iface{}
}
