package main

// The SSA executor: frames, instruction dispatch, calls, defers, panics.
// Structure follows golang.org/x/tools/go/ssa/interp, with symbolic values,
// an undo trail, compiled operand slots and explicit run-time checks.

import (
	"fmt"
	"go/token"
	"go/types"
	"os"
	"strings"
	"sync"
	"time"
	"unsafe"

	"golang.org/x/tools/go/ssa"
)

// ---- non-local exits --------------------------------------------------

// targetPanic is a Go-level panic of the interpreted program.
type targetPanic struct {
	v     value
	where string
	stack string
}

// unsupported aborts the current path: the executor cannot model something.
type unsupported struct{ what string }

// pathEnd aborts the current path for a reason decided by the explorer.
type pathEnd struct {
	kind string // "infeasible", "fail", "unwind", "budget", "undecided", "stop"
	msg  string
}

// ---- compiled functions -----------------------------------------------

type opKind uint8

const (
	opSlot opKind = iota
	opConst
	opConstAgg
	opGlobal
	opNil
)

type operand struct {
	kind opKind
	slot int32
	val  value
	typ  types.Type
	glob *ssa.Global
}

type cinstr struct {
	instr  ssa.Instruction
	dst    int32
	ops    []operand
	reload []int32 // Return: per result, the slot of the local variable to reload (-1: none)
}

type cblock struct {
	phis   []cinstr
	instrs []cinstr
}

type fnInfo struct {
	fn      *ssa.Function
	nslots  int
	blocks  []cblock
	params  []int32
	freevar []int32
	locals  []int32
	name    string
	intr    intrinsic
}

type Shared struct {
	prog   *ssa.Program
	mu     sync.Mutex
	infos  map[*ssa.Function]*fnInfo
	rtErr  types.Type // runtime.errorString
	funcBy map[string]*ssa.Function
}

func NewShared(prog *ssa.Program) *Shared {
	sh := &Shared{prog: prog, infos: make(map[*ssa.Function]*fnInfo), funcBy: map[string]*ssa.Function{}}
	if rt := prog.ImportedPackage("runtime"); rt != nil {
		sh.rtErr = rt.Type("errorString").Object().Type()
	}
	return sh
}

func (sh *Shared) info(fn *ssa.Function) *fnInfo {
	sh.mu.Lock()
	defer sh.mu.Unlock()
	if fi, ok := sh.infos[fn]; ok {
		return fi
	}
	fi := compile(fn)
	sh.infos[fn] = fi
	return fi
}

func compile(fn *ssa.Function) *fnInfo {
	fi := &fnInfo{fn: fn, name: fn.String()}
	if fn.Parent() == nil || true {
		fi.intr = intrinsics[fi.name]
	}
	idx := map[ssa.Value]int32{}
	n := int32(0)
	add := func(v ssa.Value) int32 {
		idx[v] = n
		n++
		return n - 1
	}
	for _, p := range fn.Params {
		fi.params = append(fi.params, add(p))
	}
	for _, fv := range fn.FreeVars {
		fi.freevar = append(fi.freevar, add(fv))
	}
	for _, l := range fn.Locals {
		fi.locals = append(fi.locals, add(l))
	}
	for _, b := range fn.Blocks {
		for _, in := range b.Instrs {
			if v, ok := in.(ssa.Value); ok {
				if _, seen := idx[v]; !seen {
					add(v)
				}
			}
		}
	}
	fi.nslots = int(n)
	mkop := func(vp *ssa.Value) operand {
		if vp == nil || *vp == nil {
			return operand{kind: opNil}
		}
		switch v := (*vp).(type) {
		case *ssa.Const:
			if v.Value == nil {
				switch v.Type().Underlying().(type) {
				case *types.Struct, *types.Array:
					return operand{kind: opConstAgg, typ: v.Type()}
				case *types.TypeParam:
					return operand{kind: opConstAgg, typ: v.Type()}
				}
			}
			return operand{kind: opConst, val: constValue(v)}
		case *ssa.Global:
			return operand{kind: opGlobal, glob: v}
		case *ssa.Function:
			return operand{kind: opConst, val: v}
		case *ssa.Builtin:
			return operand{kind: opConst, val: v}
		}
		s, ok := idx[*vp]
		if !ok {
			panic(fmt.Sprintf("compile %s: no slot for %T %s", fn, *vp, (*vp).Name()))
		}
		return operand{kind: opSlot, slot: s}
	}
	fi.blocks = make([]cblock, len(fn.Blocks))
	var rands []*ssa.Value
	for bi, b := range fn.Blocks {
		cb := &fi.blocks[bi]
		for _, in := range b.Instrs {
			ci := cinstr{instr: in, dst: -1}
			if v, ok := in.(ssa.Value); ok {
				ci.dst = idx[v]
			}
			rands = in.Operands(rands[:0])
			ci.ops = make([]operand, len(rands))
			for k, r := range rands {
				ci.ops[k] = mkop(r)
			}
			if ret, ok := in.(*ssa.Return); ok && len(ret.Results) > 1 {
				for k := range ret.Results {
					if ld := reloadAtReturn(ret, k); ld != nil {
						if ci.reload == nil {
							ci.reload = make([]int32, len(ret.Results))
							for j := range ci.reload {
								ci.reload[j] = -1
							}
						}
						ci.reload[k] = idx[ld.X]
					}
				}
			}
			if _, ok := in.(*ssa.Phi); ok {
				cb.phis = append(cb.phis, ci)
			} else if _, ok := in.(*ssa.DebugRef); ok {
				continue
			} else {
				cb.instrs = append(cb.instrs, ci)
			}
		}
	}
	return fi
}

// ---- interpreter state ------------------------------------------------

type Interp struct {
	parseText        map[*value]value     // source text behind modelled ANTLR input streams, lexers and parsers (per path)
	jsonRaws         map[uintptr]rawEntry // source text of decoded JSON objects/arrays (per path)
	sh               *Shared
	prog             *ssa.Program
	globals          map[*ssa.Global]*value
	tr               trail
	ts               *TermStore
	ex               *pathExec // current path (nil during init)
	initMode         bool
	initWarn         map[string]int
	customValidators map[string]value // validate tag -> the validator.Func goflow registered for it
	vfr              *frame           // frame custom validators are called from
	steps            int64
	budget           int64
	depth            int
	trace            bool
	clock            int64
	uuidSeq          int
	hostObjs         map[string]value
	funcsRun         map[*ssa.Function]struct{}
	mapRange         map[string]int
	worker           *Worker
	infoCache        map[*ssa.Function]*fnInfo
	methCache        map[methKey]*ssa.Function
	failStack        string
	pathDeadline     time.Time
}

type deferred struct {
	fn    value
	args  []value
	instr *ssa.Defer
	tail  *deferred
}

type frame struct {
	i         *Interp
	caller    *frame
	fi        *fnInfo
	fn        *ssa.Function
	block     int
	prevBlock int
	env       []value
	defers    *deferred
	result    value
	panicking bool
	panic     interface{}
	symVisits map[int]int
	callpos   token.Pos
}

func (fr *frame) arg(o *operand) value {
	switch o.kind {
	case opSlot:
		return fr.env[o.slot]
	case opConst:
		return o.val
	case opConstAgg:
		return zero(o.typ)
	case opGlobal:
		if r, ok := fr.i.globals[o.glob]; ok {
			return r
		}
		panic(fmt.Sprintf("no global %s", o.glob))
	}
	return nil
}

func (i *Interp) rtPanic(msg string) targetPanic {
	return targetPanic{v: iface{t: i.sh.rtErr, v: "runtime error: " + msg}, where: ""}
}

func (fr *frame) pos(in ssa.Instruction) string {
	if in == nil {
		return fr.fn.String()
	}
	p := in.Pos()
	if p == token.NoPos {
		return fr.fn.String()
	}
	return fr.i.prog.Fset.Position(p).String()
}

// checkNonNil panics (target) on nil pointer dereference.
func (fr *frame) deref(in ssa.Instruction, v value) *value {
	p, ok := v.(*value)
	if !ok {
		if up, ok2 := v.(unsafe.Pointer); ok2 {
			p = (*value)(up)
		} else {
			panic(fmt.Sprintf("deref of %T at %s", v, fr.pos(in)))
		}
	}
	if p == nil {
		tp := fr.i.rtPanic("invalid memory address or nil pointer dereference")
		tp.where = fr.pos(in)
		panic(tp)
	}
	return p
}

// index resolves an index value against a length: concrete indices are
// bounds-checked; symbolic ones are bounds-checked through the solver and
// returned as terms.
func (fr *frame) checkIndex(in ssa.Instruction, idx value, n int, it types.Type) (int, *Term) {
	if t, ok := idx.(*Term); ok {
		i := fr.i
		w := t.w
		var inb *Term
		if isSigned(it) {
			inb = i.ts.Cmp(OpSLE, i.ts.BV(0, w), t)
			if w == 64 || uint64(n) <= mask(w-1) {
				inb = i.ts.And(inb, i.ts.Cmp(OpSLT, t, i.ts.BV(uint64(n), w)))
			}
		} else if w == 64 || uint64(n) <= mask(w) {
			inb = i.ts.Cmp(OpULT, t, i.ts.BV(uint64(n), w))
		} else {
			inb = i.ts.tt
		}
		if !i.decide(inb, fr, "index") {
			tp := i.rtPanic(fmt.Sprintf("index out of range [symbolic] with length %d", n))
			tp.where = fr.pos(in)
			panic(tp)
		}
		return -1, t
	}
	k := asInt64(idx)
	if k < 0 || k >= int64(n) {
		tp := fr.i.rtPanic(fmt.Sprintf("index out of range [%d] with length %d", k, n))
		tp.where = fr.pos(in)
		panic(tp)
	}
	return int(k), nil
}

// concretizeIndex forks over the feasible values of a symbolic index.
func (fr *frame) concretizeIndex(t *Term, n int) int {
	return fr.i.concretize(t, 0, n-1, fr)
}

// selectElem builds an ite-chain reading elems[t].
func (fr *frame) selectElem(elems []value, t *Term, et types.Type) value {
	i := fr.i
	if len(elems) == 0 {
		panic("selectElem on empty")
	}
	if !isScalarType(et) || len(elems) > 300 {
		k := fr.concretizeIndex(t, len(elems))
		return copyVal(elems[k])
	}
	w, _ := intInfo(et)
	if isBoolType(et) {
		w = 0
	}
	allSame := true
	for _, e := range elems[1:] {
		if e != elems[0] {
			allSame = false
			break
		}
	}
	if allSame {
		return elems[0]
	}
	// group consecutive equal elements into runs: one unsigned comparison per run
	type run struct {
		end int // exclusive
		v   *Term
	}
	var runs []run
	for k := 0; k < len(elems); k++ {
		v := i.toTerm(elems[k], w)
		if n := len(runs); n > 0 && runs[n-1].v == v {
			runs[n-1].end = k + 1
		} else {
			runs = append(runs, run{k + 1, v})
		}
	}
	res := runs[len(runs)-1].v
	for k := len(runs) - 2; k >= 0; k-- {
		r := runs[k]
		var c *Term
		if k > 0 && runs[k-1].end == r.end-1 {
			c = i.ts.Eq(t, i.ts.BV(uint64(r.end-1), t.w))
		} else {
			c = i.ts.Cmp(OpULT, t, i.ts.BV(uint64(r.end), t.w))
		}
		res = i.ts.Ite(c, r.v, res)
	}
	return i.fromTerm(res, et)
}

func (fr *frame) runDefer(d *deferred) {
	var ok bool
	defer func() {
		if !ok {
			r := recover()
			switch r.(type) {
			case pathEnd, unsupported, failPanic:
				panic(r)
			}
			fr.panicking = true
			fr.panic = r
		}
	}()
	fr.i.call(fr, d.instr.Pos(), d.fn, d.args)
	ok = true
}

func (fr *frame) runDefers() {
	for d := fr.defers; d != nil; d = d.tail {
		fr.runDefer(d)
	}
	fr.defers = nil
	if fr.panicking {
		panic(fr.panic)
	}
}

type methKey struct {
	t types.Type
	m *types.Func
}

func (i *Interp) lookupMethod(typ types.Type, meth *types.Func) *ssa.Function {
	k := methKey{typ, meth}
	if f, ok := i.methCache[k]; ok {
		return f
	}
	f := i.prog.LookupMethod(typ, meth.Pkg(), meth.Name())
	i.methCache[k] = f
	return f
}

func (fr *frame) prepareCall(ci *cinstr, call *ssa.CallCommon) (fn value, args []value) {
	v := fr.arg(&ci.ops[0])
	nargs := len(call.Args)
	if call.Method == nil {
		fn = v
		args = make([]value, 0, nargs)
	} else {
		recv, ok := v.(iface)
		if !ok {
			panic(fmt.Sprintf("invoke on %T at %s", v, fr.pos(ci.instr)))
		}
		if recv.t == nil {
			tp := fr.i.rtPanic("invalid memory address or nil pointer dereference (method " + call.Method.Name() + " on nil interface)")
			tp.where = fr.pos(ci.instr)
			panic(tp)
		}
		if _, isR := recv.v.(rtype); isR && call.Method.Pkg() != nil && (call.Method.Pkg().Path() == "reflect" || call.Method.Pkg().Path() == "internal/reflectlite") {
			fn = &rtypeMethod{name: call.Method.Name()}
		} else if f := fr.i.lookupMethod(recv.t, call.Method); f == nil {
			panic(unsupported{fmt.Sprintf("method set for dynamic type %v does not contain %s", recv.t, call.Method)})
		} else {
			fn = f
		}
		args = make([]value, 0, nargs+1)
		args = append(args, recv.v)
	}
	for k := 0; k < nargs; k++ {
		args = append(args, fr.arg(&ci.ops[1+k]))
	}
	return
}

// reloadAtReturn: result k of ret is a load of a local variable (Alloc) made
// earlier in the same block with a call in between, and used only by ret.
func reloadAtReturn(ret *ssa.Return, k int) *ssa.UnOp {
	ld, ok := ret.Results[k].(*ssa.UnOp)
	if !ok || ld.Op != token.MUL || ld.Block() != ret.Block() {
		return nil
	}
	if _, isAlloc := ld.X.(*ssa.Alloc); !isAlloc {
		return nil
	}
	if refs := ld.Referrers(); refs == nil || len(*refs) != 1 {
		return nil
	}
	seenLoad, callBetween := false, false
	for _, in := range ret.Block().Instrs {
		if in == ssa.Instruction(ld) {
			seenLoad = true
			continue
		}
		if seenLoad {
			if _, isCall := in.(*ssa.Call); isCall {
				callBetween = true
			}
		}
	}
	if !callBetween {
		return nil
	}
	return ld
}

type rtypeMethod struct{ name string }

func (i *Interp) call(caller *frame, callpos token.Pos, fn value, args []value) value {
	switch fn := fn.(type) {
	case *ssa.Function:
		if fn == nil {
			panic(i.rtPanic("invalid memory address or nil pointer dereference (call of nil func)"))
		}
		return i.callSSA(caller, callpos, fn, args, nil)
	case *closure:
		if fn == nil {
			panic(i.rtPanic("invalid memory address or nil pointer dereference (call of nil func)"))
		}
		return i.callSSA(caller, callpos, fn.Fn, args, fn.Env)
	case *ssa.Builtin:
		return i.callBuiltin(caller, callpos, fn, args)
	case *rtypeMethod:
		return rtypeCall(i, fn.name, args)
	case *hostFunc:
		return fn.f(i, caller, args)
	}
	panic(fmt.Sprintf("cannot call %T", fn))
}

// useBody is returned by an intrinsic that declines (e.g. a concrete fast
// path given symbolic operands): the function's SSA body is executed instead.
type useBody struct{}

type hostFunc struct {
	f func(i *Interp, caller *frame, args []value) value
}

const maxDepth = 400

func (i *Interp) callSSA(caller *frame, callpos token.Pos, fn *ssa.Function, args []value, env []value) value {
	fi := i.infoCache[fn]
	if fi == nil {
		fi = i.sh.info(fn)
		i.infoCache[fn] = fi
		if i.funcsRun != nil {
			i.funcsRun[fn] = struct{}{}
		}
	}
	fr := &frame{i: i, caller: caller, fi: fi, fn: fn, callpos: callpos}
	if fi.intr != nil {
		if r := fi.intr(fr, args); r != (useBody{}) {
			return r
		}
	}
	if fn.Name() == "init" && fn.Pkg != nil && fn.Signature.Recv() == nil {
		if skipInit(fn.Pkg.Pkg.Path()) {
			return nil
		}
		if i.initMode && os.Getenv("GOSYM_INITTIME") != "" {
			t0 := time.Now()
			s0 := i.steps
			defer func() {
				if d := time.Since(t0); d > 50*time.Millisecond {
					fmt.Fprintf(os.Stderr, "init %s: %.2fs (cumulative), %d instrs\n", fn.Pkg.Pkg.Path(), d.Seconds(), i.steps-s0)
				}
			}()
		}
	}
	if fn.Blocks == nil {
		if alt := i.altBody(fn); alt != nil {
			return i.callSSA(caller, callpos, alt, args, env)
		}
		if i.initMode {
			i.initWarn["no code: "+fi.name]++
			if fn.Signature.Results().Len() == 0 {
				return nil
			}
			return zero(fn.Signature.Results())
		}
		panic(unsupported{"no code for function: " + fi.name + " [" + stackOf(caller) + "]"})
	}
	if fn.TypeParams().Len() > 0 && len(fn.TypeArgs()) == 0 {
		panic(unsupported{"uninstantiated generic: " + fi.name})
	}
	i.depth++
	if i.depth > maxDepth {
		i.depth--
		panic(pathEnd{kind: "unwind", msg: "call depth exceeded in " + fi.name})
	}
	defer func() { i.depth-- }()
	if i.trace {
		fmt.Fprintf(os.Stderr, "%s> %s\n", strings.Repeat(" ", i.depth), fi.name)
	}
	fr.env = make([]value, fi.nslots)
	for k, s := range fi.locals {
		cell := new(value)
		*cell = zero(deref(fn.Locals[k].Type()))
		fr.env[s] = cell
	}
	for k, s := range fi.params {
		fr.env[s] = args[k]
	}
	for k, s := range fi.freevar {
		fr.env[s] = env[k]
	}
	fr.block = 0
	fr.prevBlock = -1
	for fr.block >= 0 {
		fr.run()
	}
	return fr.result
}

func deref(t types.Type) types.Type {
	if p, ok := t.Underlying().(*types.Pointer); ok {
		return p.Elem()
	}
	panic(fmt.Sprintf("deref of non-pointer %s", t))
}

// run executes from fr.block until return, panic or recovered panic.
func (fr *frame) run() {
	defer func() {
		if fr.block < 0 {
			return // normal return
		}
		r := recover()
		switch r.(type) {
		case unsupported:
			if u := r.(unsupported); !strings.Contains(u.what, " [") {
				u.what += " [" + stackOf(fr) + "]"
				r = u
			}
			panic(r)
		case pathEnd, failPanic:
			panic(r)
		case targetPanic:
			if tp := r.(targetPanic); tp.stack == "" {
				tp.stack = stackOf(fr)
				if tp.where == "" {
					tp.where = fr.fi.name
				}
				r = tp
			}
		default:
			// a host run-time error inside the executor: an executor defect or an
			// unmodelled situation, never a property of the program.
			panic(unsupported{fmt.Sprintf("internal: %v in %s [%s]", r, fr.fi.name, stackOf(fr))})
		}
		fr.panicking = true
		fr.panic = r
		fr.runDefers() // re-panics unless recovered
		// recovered
		if fr.fn.Recover != nil {
			fr.prevBlock = fr.block
			fr.block = fr.fn.Recover.Index
		} else {
			// no named results: return zero values
			res := fr.fn.Signature.Results()
			switch res.Len() {
			case 0:
				fr.result = nil
			default:
				fr.result = zero(res)
			}
			fr.block = -1
		}
	}()
	i := fr.i
	for {
		cb := &fr.fi.blocks[fr.block]
		if len(cb.phis) > 0 {
			b := fr.fn.Blocks[fr.block]
			pred := -1
			for k, p := range b.Preds {
				if p.Index == fr.prevBlock {
					pred = k
					break
				}
			}
			if len(cb.phis) == 1 {
				ci := &cb.phis[0]
				fr.env[ci.dst] = fr.arg(&ci.ops[pred])
			} else {
				tmp := make([]value, len(cb.phis))
				for k := range cb.phis {
					tmp[k] = fr.arg(&cb.phis[k].ops[pred])
				}
				for k := range cb.phis {
					fr.env[cb.phis[k].dst] = tmp[k]
				}
			}
		}
		jumped := false
		for k := range cb.instrs {
			ci := &cb.instrs[k]
			i.steps++
			if i.steps > i.budget {
				panic(pathEnd{kind: "budget", msg: "instruction budget exhausted in " + fr.fi.name + " [" + stackOf(fr) + "]"})
			}
			if i.steps&0x3fff == 0 && !i.pathDeadline.IsZero() && time.Now().After(i.pathDeadline) {
				panic(pathEnd{kind: "budget", msg: "per-path time limit exceeded in " + fr.fi.name + " [" + stackOf(fr) + "]"})
			}
			switch fr.visit(ci) {
			case kReturn:
				return
			case kJump:
				jumped = true
			}
			if jumped {
				break
			}
		}
		if !jumped {
			panic(fmt.Sprintf("block %d of %s fell through", fr.block, fr.fi.name))
		}
	}
}

// tolerantCall is used during package initialisation only: a callee that
// cannot be executed yields the zero value of its result type (poison) and is
// recorded, instead of aborting the initialisation of everything after it.
func (fr *frame) tolerantCall(ci *cinstr, instr *ssa.Call) (res value) {
	i := fr.i
	depth := i.depth
	defer func() {
		if r := recover(); r != nil {
			i.depth = depth
			i.initWarn[fmt.Sprintf("%s: %s", fr.pos(instr), short(r))]++
			if instr.Type() == nil {
				res = nil
				return
			}
			if tt, ok := instr.Type().(*types.Tuple); ok && tt.Len() == 0 {
				res = nil
				return
			}
			res = zero(instr.Type())
		}
	}()
	fn, args := fr.prepareCall(ci, &instr.Call)
	return i.call(fr, instr.Pos(), fn, args)
}

type continuation int

const (
	kNext continuation = iota
	kReturn
	kJump
)

func (fr *frame) visit(ci *cinstr) continuation {
	i := fr.i
	switch instr := ci.instr.(type) {
	case *ssa.UnOp:
		fr.env[ci.dst] = fr.unop(instr, fr.arg(&ci.ops[0]))

	case *ssa.BinOp:
		fr.env[ci.dst] = fr.binop(instr, instr.Op, instr.X.Type(), fr.arg(&ci.ops[0]), fr.arg(&ci.ops[1]))

	case *ssa.Call:
		if i.initMode {
			fr.env[ci.dst] = fr.tolerantCall(ci, instr)
			break
		}
		fn, args := fr.prepareCall(ci, &instr.Call)
		fr.env[ci.dst] = i.call(fr, instr.Pos(), fn, args)

	case *ssa.ChangeInterface:
		fr.env[ci.dst] = fr.arg(&ci.ops[0])

	case *ssa.ChangeType:
		fr.env[ci.dst] = fr.arg(&ci.ops[0])

	case *ssa.Convert:
		fr.env[ci.dst] = i.conv(fr, instr.Type(), instr.X.Type(), fr.arg(&ci.ops[0]))

	case *ssa.MultiConvert:
		fr.env[ci.dst] = i.conv(fr, instr.Type(), instr.X.Type(), fr.arg(&ci.ops[0]))

	case *ssa.SliceToArrayPointer:
		x := fr.arg(&ci.ops[0]).([]value)
		n := instr.Type().Underlying().(*types.Pointer).Elem().Underlying().(*types.Array).Len()
		if int64(len(x)) < n {
			panic(i.rtPanic("cannot convert slice to array pointer: length too short"))
		}
		if x == nil {
			fr.env[ci.dst] = (*value)(nil)
		} else {
			cell := new(value)
			*cell = array(x[:n:n])
			fr.env[ci.dst] = cell
		}

	case *ssa.MakeInterface:
		fr.env[ci.dst] = iface{t: instr.X.Type(), v: fr.arg(&ci.ops[0])}

	case *ssa.Extract:
		fr.env[ci.dst] = fr.arg(&ci.ops[0]).(tuple)[instr.Index]

	case *ssa.Slice:
		fr.env[ci.dst] = fr.slice(instr, fr.arg(&ci.ops[0]), fr.arg(&ci.ops[1]), fr.arg(&ci.ops[2]), fr.arg(&ci.ops[3]))

	case *ssa.Return:
		switch len(instr.Results) {
		case 0:
		case 1:
			fr.result = fr.arg(&ci.ops[0])
		default:
			res := make(tuple, len(instr.Results))
			for k := range instr.Results {
				res[k] = fr.arg(&ci.ops[k])
				// `return x, f(&x)`: the Go specification leaves the order of
				// reading x and calling f open; go/ssa reads x first, the gc
				// compiler — the build users run — calls f first. Follow gc:
				// reload a local variable that was read before a later call in
				// the same block (legacy.ReadTranslations depends on it)
				if ci.reload != nil && ci.reload[k] >= 0 {
					if addr, ok := fr.env[ci.reload[k]].(*value); ok && addr != nil {
						res[k] = copyVal(*addr)
					}
				}
			}
			fr.result = res
		}
		fr.block = -1
		return kReturn

	case *ssa.RunDefers:
		fr.runDefers()

	case *ssa.Panic:
		panic(targetPanic{v: fr.arg(&ci.ops[0]), where: fr.pos(instr)})

	case *ssa.Store:
		addr := fr.deref(instr, fr.arg(&ci.ops[0]))
		i.noteWrite(addr, fr, instr)
		i.tr.store(addr, fr.arg(&ci.ops[1]))

	case *ssa.If:
		c := fr.arg(&ci.ops[0])
		var b bool
		switch c := c.(type) {
		case bool:
			b = c
		case *Term:
			fr.countSym(instr)
			b = i.decide(c, fr, "if")
		default:
			panic(fmt.Sprintf("If on %T at %s", c, fr.pos(instr)))
		}
		succ := 1
		if b {
			succ = 0
		}
		fr.prevBlock, fr.block = fr.block, instr.Block().Succs[succ].Index
		return kJump

	case *ssa.Jump:
		fr.prevBlock, fr.block = fr.block, instr.Block().Succs[0].Index
		return kJump

	case *ssa.Defer:
		fn, args := fr.prepareCall(ci, &instr.Call)
		defers := &fr.defers
		if into := fr.arg(&ci.ops[len(ci.ops)-1]); into != nil {
			defers = into.(**deferred)
		}
		*defers = &deferred{fn: fn, args: args, instr: instr, tail: *defers}

	case *ssa.Go:
		panic(unsupported{"go statement at " + fr.pos(instr)})

	case *ssa.MakeChan:
		// channels are not modelled; creating one is harmless until it is used
		cell := new(value)
		*cell = "chan"
		fr.env[ci.dst] = cell

	case *ssa.Send, *ssa.Select:
		panic(unsupported{"channel operation at " + fr.pos(instr)})

	case *ssa.Alloc:
		cell := new(value)
		*cell = zero(deref(instr.Type()))
		fr.env[ci.dst] = cell

	case *ssa.MakeSlice:
		ln := fr.concreteInt(fr.arg(&ci.ops[0]), "make len", 0, 1<<16)
		cp := fr.concreteInt(fr.arg(&ci.ops[1]), "make cap", 0, 1<<16)
		if ln < 0 || cp < ln {
			panic(i.rtPanic("makeslice: len out of range"))
		}
		if cp > 1<<28 {
			panic(unsupported{"makeslice: huge allocation"})
		}
		sl := make([]value, cp)
		tElt := instr.Type().Underlying().(*types.Slice).Elem()
		if _, basic := tElt.Underlying().(*types.Basic); basic {
			z := zero(tElt)
			for k := range sl {
				sl[k] = z
			}
		} else {
			for k := range sl {
				sl[k] = zero(tElt)
			}
		}
		fr.env[ci.dst] = sl[:ln]

	case *ssa.MakeMap:
		fr.env[ci.dst] = newSmap(instr.Type().Underlying().(*types.Map).Key())

	case *ssa.Range:
		fr.env[ci.dst] = fr.rangeIter(instr, fr.arg(&ci.ops[0]))

	case *ssa.Next:
		fr.env[ci.dst] = fr.arg(&ci.ops[0]).(iter).next(fr)

	case *ssa.FieldAddr:
		p := fr.deref(instr, fr.arg(&ci.ops[0]))
		st, ok := (*p).(structure)
		if !ok {
			panic(fmt.Sprintf("FieldAddr on %T at %s", *p, fr.pos(instr)))
		}
		fr.env[ci.dst] = &st[instr.Field]

	case *ssa.Field:
		fr.env[ci.dst] = fr.arg(&ci.ops[0]).(structure)[instr.Field]

	case *ssa.IndexAddr:
		x := fr.arg(&ci.ops[0])
		idx := fr.arg(&ci.ops[1])
		switch x := x.(type) {
		case []value:
			k, t := fr.checkIndex(instr, idx, len(x), instr.Index.Type())
			if t != nil {
				et := instr.X.Type().Underlying().(*types.Slice).Elem()
				// reading through a symbolic index: defer the choice if this
				// address is only loaded from (common case), else concretise.
				if onlyLoaded(instr) && isScalarType(et) && len(x) <= 300 {
					fr.env[ci.dst] = &symAddr{elems: x, idx: t, et: et}
					break
				}
				k = fr.concretizeIndex(t, len(x))
			}
			fr.env[ci.dst] = &x[k]
		case *value:
			p := fr.deref(instr, x)
			a := (*p).(array)
			k, t := fr.checkIndex(instr, idx, len(a), instr.Index.Type())
			if t != nil {
				et := deref(instr.X.Type()).Underlying().(*types.Array).Elem()
				if onlyLoaded(instr) && isScalarType(et) && len(a) <= 300 {
					fr.env[ci.dst] = &symAddr{elems: a, idx: t, et: et}
					break
				}
				k = fr.concretizeIndex(t, len(a))
			}
			fr.env[ci.dst] = &a[k]
		default:
			panic(fmt.Sprintf("unexpected x type in IndexAddr: %T", x))
		}

	case *ssa.Index:
		x := fr.arg(&ci.ops[0])
		idx := fr.arg(&ci.ops[1])
		switch x := x.(type) {
		case array:
			k, t := fr.checkIndex(instr, idx, len(x), instr.Index.Type())
			if t != nil {
				fr.env[ci.dst] = fr.selectElem(x, t, instr.Type())
			} else {
				fr.env[ci.dst] = x[k]
			}
		case string:
			k, t := fr.checkIndex(instr, idx, len(x), instr.Index.Type())
			if t != nil {
				fr.env[ci.dst] = fr.selectElem(strBytes(x), t, types.Typ[types.Uint8])
			} else {
				fr.env[ci.dst] = x[k]
			}
		case sstring:
			k, t := fr.checkIndex(instr, idx, len(x), instr.Index.Type())
			if t != nil {
				fr.env[ci.dst] = fr.selectElem(x, t, types.Typ[types.Uint8])
			} else {
				fr.env[ci.dst] = x[k]
			}
		default:
			panic(fmt.Sprintf("unexpected x type in Index: %T", x))
		}

	case *ssa.Lookup:
		fr.env[ci.dst] = fr.lookup(instr, fr.arg(&ci.ops[0]), fr.arg(&ci.ops[1]))

	case *ssa.MapUpdate:
		m, _ := fr.arg(&ci.ops[0]).(*smap)
		if m == nil {
			tp := i.rtPanic("assignment to entry in nil map")
			tp.where = fr.pos(instr)
			panic(tp)
		}
		i.noteMapWrite(m, fr, instr)
		fr.mapSet(m, fr.arg(&ci.ops[1]), fr.arg(&ci.ops[2]))

	case *ssa.TypeAssert:
		fr.env[ci.dst] = fr.typeAssert(instr, fr.arg(&ci.ops[0]).(iface))

	case *ssa.MakeClosure:
		bindings := make([]value, len(instr.Bindings))
		for k := range instr.Bindings {
			bindings[k] = fr.arg(&ci.ops[1+k])
		}
		fr.env[ci.dst] = &closure{instr.Fn.(*ssa.Function), bindings}

	default:
		panic(unsupported{fmt.Sprintf("instruction %T at %s", instr, fr.pos(instr))})
	}
	return kNext
}

// symAddr stands for &elems[idx] with a symbolic idx when the address is only
// ever loaded from; the load builds an ite-chain.
type symAddr struct {
	elems []value
	idx   *Term
	et    types.Type
}

func onlyLoaded(v ssa.Value) bool {
	refs := v.Referrers()
	if refs == nil {
		return false
	}
	for _, r := range *refs {
		switch r := r.(type) {
		case *ssa.UnOp:
			if r.Op != token.MUL {
				return false
			}
		case *ssa.DebugRef:
		default:
			return false
		}
	}
	return true
}

func (fr *frame) countSym(in ssa.Instruction) {
	if fr.i.ex == nil {
		return
	}
	if fr.symVisits == nil {
		fr.symVisits = map[int]int{}
	}
	b := in.Block().Index
	fr.symVisits[b]++
	if fr.symVisits[b] > fr.i.ex.unwind {
		panic(pathEnd{kind: "unwind", msg: fmt.Sprintf("unwinding bound %d exceeded at %s", fr.i.ex.unwind, fr.pos(in))})
	}
}

// concreteInt returns a concrete integer for a possibly symbolic one by
// forking over its feasible values in [lo,hi].
func (fr *frame) concreteInt(v value, what string, lo, hi int) int {
	if t, ok := v.(*Term); ok {
		return fr.i.concretize(t, lo, hi, fr)
	}
	return int(asInt64(v))
}

func (fr *frame) slice(in *ssa.Slice, x, lo, hi, max value) value {
	i := fr.i
	var Len, Cap int
	var arr array
	switch x := x.(type) {
	case string:
		Len = len(x)
		Cap = Len
	case sstring:
		Len = len(x)
		Cap = Len
	case []value:
		Len = len(x)
		Cap = cap(x)
	case *value:
		p := fr.deref(in, x)
		arr = (*p).(array)
		Len = len(arr)
		Cap = len(arr)
	default:
		panic(fmt.Sprintf("slice: unexpected X type: %T", x))
	}
	l := 0
	if lo != nil {
		l = fr.concreteInt(lo, "slice low", 0, Cap)
	}
	h := Len
	if hi != nil {
		h = fr.concreteInt(hi, "slice high", 0, Cap)
	}
	m := Cap
	if max != nil {
		m = fr.concreteInt(max, "slice max", 0, Cap)
	}
	bad := l < 0 || h < l || m < h || m > Cap
	if _, isStr := x.(string); isStr && h > Len {
		bad = true
	}
	if _, isStr := x.(sstring); isStr && h > Len {
		bad = true
	}
	if bad {
		tp := i.rtPanic(fmt.Sprintf("slice bounds out of range [%d:%d:%d] with capacity %d", l, h, m, Cap))
		tp.where = fr.pos(in)
		panic(tp)
	}
	switch x := x.(type) {
	case string:
		return x[l:h]
	case sstring:
		return mkString([]value(x[l:h]))
	case []value:
		return x[l:h:m]
	case *value:
		return []value(arr)[l:h:m]
	}
	panic("unreachable")
}

func (fr *frame) typeAssert(instr *ssa.TypeAssert, itf iface) value {
	i := fr.i
	var v value
	err := ""
	if itf.t == nil {
		err = fmt.Sprintf("interface conversion: interface is nil, not %s", instr.AssertedType)
	} else if idst, ok := instr.AssertedType.Underlying().(*types.Interface); ok {
		v = itf
		if !i.implements(itf.t, idst) {
			err = fmt.Sprintf("interface conversion: %v is not %v: missing method", itf.t, idst)
		}
	} else if types.Identical(itf.t, instr.AssertedType) {
		v = itf.v
	} else {
		err = fmt.Sprintf("interface conversion: interface is %s, not %s", itf.t, instr.AssertedType)
	}
	if err != "" {
		if !instr.CommaOk {
			tp := targetPanic{v: iface{t: i.sh.rtErr, v: err}, where: fr.pos(instr)}
			panic(tp)
		}
		return tuple{zero(instr.AssertedType), false}
	}
	if instr.CommaOk {
		return tuple{v, true}
	}
	return v
}

var implCache sync.Map

type implKey struct {
	t types.Type
	i *types.Interface
}

func (i *Interp) implements(t types.Type, it *types.Interface) bool {
	if it.NumMethods() == 0 {
		return true
	}
	k := implKey{t, it}
	if v, ok := implCache.Load(k); ok {
		return v.(bool)
	}
	meth, _ := types.MissingMethod(t, it, true)
	implCache.Store(k, meth == nil)
	return meth == nil
}

// callFn calls an SSA function by value from intrinsics.
func (i *Interp) callFn(caller *frame, fn value, args ...value) value {
	return i.call(caller, token.NoPos, fn, args)
}

// fnByName finds a package-level function or method by its full SSA name.
func (i *Interp) pkgFunc(pkgPath, name string) *ssa.Function {
	p := i.prog.ImportedPackage(pkgPath)
	if p == nil {
		panic(unsupported{"package not loaded: " + pkgPath})
	}
	f := p.Func(name)
	if f == nil {
		panic(unsupported{"function not found: " + pkgPath + "." + name})
	}
	return f
}

func (i *Interp) altBody(fn *ssa.Function) *ssa.Function {
	if alt, ok := altBodies[fn.String()]; ok {
		return i.pkgFunc(alt[0], alt[1])
	}
	return nil
}

var skipInitPrefixes = []string{"runtime", "internal/abi", "internal/cpu", "internal/goarch", "internal/goos", "reflect", "internal/reflectlite",
	"syscall", "internal/poll", "internal/syscall", "unsafe", "internal/bytealg", "internal/runtime", "internal/godebug", "internal/race",
	"sync", "net", "crypto", "os/signal", "os/exec", "os/user", "internal/testlog", "internal/itoa", "internal/oserror", "testing", "plugin",
	"encoding/gob", "net/http", "mime", "log/slog", "hash", "vendor/", "golang.org/x/net", "golang.org/x/sys", "golang.org/x/crypto",
	"google.golang.org/protobuf", "github.com/nyaruka/phonenumbers", "github.com/gabriel-vasile/mimetype", "github.com/go-playground/validator",
	"github.com/go-playground/locales", "github.com/go-playground/universal-translator", "database/sql", "compress", "archive", "image", "html/template", "text/template",
	"github.com/antlr4-go", "encoding/xml", "github.com/leodido", "github.com/google/uuid", "github.com/gorilla", "github.com/go-chi", "github.com/stretchr",
	"github.com/davecgh", "github.com/pmezard", "gopkg.in/yaml", "github.com/Shopify", "gopkg.in/alexcesaro", "github.com/sergi", "go/", "flag", "embed", "io/ioutil", "path", "bufio",
	"container", "context", "encoding/base64", "encoding/hex", "encoding/binary", "encoding/csv", "expvar", "debug", "text/tabwriter", "text/scanner", "log"}

// initialisers inside skipped trees that are plain table set-up and are needed
// (http.NewRequest validates the method against httpguts' token table)
var forceInit = []string{"vendor/golang.org/x/net/http/httpguts", "golang.org/x/net/http/httpguts"}

func skipInit(path string) bool {
	for _, p := range forceInit {
		if path == p {
			return false
		}
	}
	for _, p := range skipInitPrefixes {
		if path == p || strings.HasPrefix(path, p+"/") || (strings.HasSuffix(p, "/") && strings.HasPrefix(path, p)) {
			return true
		}
	}
	return false
}
