package main

// Values of the symbolic interpreter.  All values are boxed in `value`:
//
//   bool, int…uintptr, float32/64, complex64/128, string   concrete scalars
//   *Term                 symbolic Bool or bit-vector (width from the static type)
//   sstring               string with at least one symbolic byte (length concrete)
//   *value                pointer (to a cell); cells of aggregates hold structure/array
//   []value               slice
//   structure, array      aggregates (copied on load/store)
//   iface                 interface value with concrete dynamic type
//   *smap                 map (insertion ordered)
//   *ssa.Function, *ssa.Builtin, *closure   functions
//   tuple                 multiple results
//   unsafe.Pointer        unsafe pointer to a cell
//   rtype                 reflect.Type / reflectlite token
//   *native               opaque host value (bridged library types)

import (
	"fmt"
	"go/types"
	"sort"
	"strings"
	"unsafe"

	"golang.org/x/tools/go/ssa"
)

type value interface{}

type tuple []value
type array []value
type structure []value
type sstring []value // each element uint8 or *Term(w=8)

type iface struct {
	t types.Type
	v value
}

type closure struct {
	Fn  *ssa.Function
	Env []value
}

type rtype struct{ t types.Type }

type native struct {
	v interface{}
}

type bad struct{}

// ---------------------------------------------------------------------
// trail: undo log of every mutation of pre-existing memory, so that the base
// image built by package initialisation is restored after every path.

type trailEntry struct {
	addr *value
	old  value
	fn   func()
}

type trail struct {
	on      bool
	entries []trailEntry
}

func (tr *trail) set(addr *value, v value) {
	if tr.on {
		tr.entries = append(tr.entries, trailEntry{addr: addr, old: *addr})
	}
	*addr = v
}

func (tr *trail) logFn(fn func()) {
	if tr.on {
		tr.entries = append(tr.entries, trailEntry{fn: fn})
	}
}

func (tr *trail) undo() {
	for i := len(tr.entries) - 1; i >= 0; i-- {
		e := &tr.entries[i]
		if e.fn != nil {
			e.fn()
		} else {
			*e.addr = e.old
		}
		tr.entries[i] = trailEntry{}
	}
	tr.entries = tr.entries[:0]
}

// ---------------------------------------------------------------------
// maps: insertion-ordered association list with a hash index for concrete keys

type smap struct {
	keys  []value
	vals  []value
	live  []bool
	index map[interface{}][]int // hash key -> positions
	n     int
	kt    types.Type
}

func newSmap(kt types.Type) *smap {
	return &smap{index: make(map[interface{}][]int), kt: kt}
}

// hashKey returns a Go-comparable key such that equal values have equal
// keys.  Symbolic content hashes to a fixed bucket (compared structurally).
func hashKey(v value) interface{} {
	switch v := v.(type) {
	case bool, int, int8, int16, int32, int64, uint, uint8, uint16, uint32, uint64, uintptr, float32, float64, complex64, complex128, string, *value, unsafe.Pointer:
		return v
	case *Term, sstring:
		return "\x00sym"
	case iface:
		if v.t == nil {
			return nil
		}
		return [2]interface{}{typeKey(v.t), hashKey(v.v)}
	case rtype:
		return typeKey(v.t)
	case structure:
		var sb strings.Builder
		for _, f := range v {
			fmt.Fprintf(&sb, "%v|", hashKey(f))
		}
		return sb.String()
	case array:
		var sb strings.Builder
		for _, f := range v {
			fmt.Fprintf(&sb, "%v|", hashKey(f))
		}
		return sb.String()
	case *native:
		return v
	case *smap:
		return v
	}
	panic(fmt.Sprintf("unhashable map key %T", v))
}

func typeKey(t types.Type) string {
	return types.TypeString(t, nil)
}

func isSymbolicKey(v value) bool {
	switch v := v.(type) {
	case *Term, sstring:
		return true
	case iface:
		return isSymbolicKey(v.v)
	case structure:
		for _, f := range v {
			if isSymbolicKey(f) {
				return true
			}
		}
	case array:
		for _, f := range v {
			if isSymbolicKey(f) {
				return true
			}
		}
	}
	return false
}

func (m *smap) len() int { return m.n }

// order returns the live positions in insertion order.
func (m *smap) order() []int {
	out := make([]int, 0, m.n)
	for i, l := range m.live {
		if l {
			out = append(out, i)
		}
	}
	return out
}

// sortedOrder returns positions sorted by a rendering of the key, used to make
// iteration independent of insertion history where the harness asks for it.
func (m *smap) sortedOrder() []int {
	o := m.order()
	sort.SliceStable(o, func(i, j int) bool {
		return fmt.Sprint(hashKey(m.keys[o[i]])) < fmt.Sprint(hashKey(m.keys[o[j]]))
	})
	return o
}

// ---------------------------------------------------------------------

func isNilValue(v value) bool {
	switch v := v.(type) {
	case *value:
		return v == nil
	case []value:
		return v == nil
	case *smap:
		return v == nil
	case *ssa.Function:
		return v == nil
	case *closure:
		return v == nil
	case iface:
		return v.t == nil
	case unsafe.Pointer:
		return v == nil
	case nil:
		return true
	}
	return false
}

// zero returns a new zero value of type t.
func zero(t types.Type) value {
	switch t := t.(type) {
	case *types.Basic:
		if t.Info()&types.IsUntyped != 0 && t.Kind() != types.UntypedNil {
			t = types.Default(t).(*types.Basic)
		}
		switch t.Kind() {
		case types.Bool:
			return false
		case types.Int:
			return int(0)
		case types.Int8:
			return int8(0)
		case types.Int16:
			return int16(0)
		case types.Int32:
			return int32(0)
		case types.Int64:
			return int64(0)
		case types.Uint:
			return uint(0)
		case types.Uint8:
			return uint8(0)
		case types.Uint16:
			return uint16(0)
		case types.Uint32:
			return uint32(0)
		case types.Uint64:
			return uint64(0)
		case types.Uintptr:
			return uintptr(0)
		case types.Float32:
			return float32(0)
		case types.Float64:
			return float64(0)
		case types.Complex64:
			return complex64(0)
		case types.Complex128:
			return complex128(0)
		case types.String:
			return ""
		case types.UnsafePointer:
			return unsafe.Pointer(nil)
		case types.UntypedNil:
			return nil
		}
		panic(fmt.Sprint("zero for unexpected type:", t))
	case *types.Pointer:
		return (*value)(nil)
	case *types.Array:
		a := make(array, t.Len())
		et := t.Elem()
		if b, ok := et.Underlying().(*types.Basic); ok {
			z := zero(b)
			for i := range a {
				a[i] = z
			}
			return a
		}
		for i := range a {
			a[i] = zero(et)
		}
		return a
	case *types.Named:
		return zero(t.Underlying())
	case *types.Alias:
		return zero(types.Unalias(t))
	case *types.Interface:
		return iface{}
	case *types.Slice:
		return []value(nil)
	case *types.Struct:
		s := make(structure, t.NumFields())
		for i := range s {
			s[i] = zero(t.Field(i).Type())
		}
		return s
	case *types.Tuple:
		if t.Len() == 1 {
			return zero(t.At(0).Type())
		}
		s := make(tuple, t.Len())
		for i := range s {
			s[i] = zero(t.At(i).Type())
		}
		return s
	case *types.Chan:
		return (*value)(nil)
	case *types.Map:
		return (*smap)(nil)
	case *types.Signature:
		return (*ssa.Function)(nil)
	case *types.TypeParam:
		panic(unsupported{"zero of type parameter " + t.String()})
	}
	panic(fmt.Sprint("zero: unexpected ", t))
}

// copyVal makes an unaliased copy of aggregates.
func copyVal(v value) value {
	switch v := v.(type) {
	case structure:
		a := make(structure, len(v))
		for i := range v {
			a[i] = copyVal(v[i])
		}
		return a
	case array:
		a := make(array, len(v))
		for i := range v {
			a[i] = copyVal(v[i])
		}
		return a
	}
	return v
}

// load returns the value stored in *addr (aggregates are copied).
func load(addr *value) value {
	return copyVal(*addr)
}

// store stores v into *addr, keeping the identity of aggregate cells so that
// pointers to fields stay valid.
func (tr *trail) store(addr *value, v value) {
	switch rhs := v.(type) {
	case structure:
		if lhs, ok := (*addr).(structure); ok && len(lhs) == len(rhs) {
			for i := range lhs {
				tr.store(&lhs[i], rhs[i])
			}
			return
		}
		tr.set(addr, copyVal(v))
	case array:
		if lhs, ok := (*addr).(array); ok && len(lhs) == len(rhs) {
			for i := range lhs {
				tr.store(&lhs[i], rhs[i])
			}
			return
		}
		tr.set(addr, copyVal(v))
	default:
		tr.set(addr, v)
	}
}

// ---------------------------------------------------------------------
// strings

func strLen(v value) int {
	switch s := v.(type) {
	case string:
		return len(s)
	case sstring:
		return len(s)
	}
	panic(fmt.Sprintf("strLen of %T", v))
}

func strByte(v value, i int) value {
	switch s := v.(type) {
	case string:
		return s[i]
	case sstring:
		return s[i]
	}
	panic(fmt.Sprintf("strByte of %T", v))
}

// strBytes returns the bytes of a string value as a fresh []value.
func strBytes(v value) []value {
	switch s := v.(type) {
	case string:
		out := make([]value, len(s))
		for i := 0; i < len(s); i++ {
			out[i] = s[i]
		}
		return out
	case sstring:
		out := make([]value, len(s))
		copy(out, s)
		return out
	}
	panic(fmt.Sprintf("strBytes of %T", v))
}

// mkString builds a string value from bytes: a Go string when all bytes are
// concrete, an sstring otherwise.
func mkString(b []value) value {
	conc := true
	for _, x := range b {
		if _, ok := x.(uint8); !ok {
			conc = false
			break
		}
	}
	if conc {
		var sb strings.Builder
		sb.Grow(len(b))
		for _, x := range b {
			sb.WriteByte(x.(uint8))
		}
		return sb.String()
	}
	out := make(sstring, len(b))
	copy(out, b)
	return out
}

func strSlice(v value, lo, hi int) value {
	switch s := v.(type) {
	case string:
		return s[lo:hi]
	case sstring:
		return mkString([]value(s[lo:hi]))
	}
	panic(fmt.Sprintf("strSlice of %T", v))
}

func strConcat(a, b value) value {
	if x, ok := a.(string); ok {
		if y, ok := b.(string); ok {
			return x + y
		}
	}
	return mkString(append(strBytes(a), strBytes(b)...))
}

func isString(v value) bool {
	switch v.(type) {
	case string, sstring:
		return true
	}
	return false
}

// describe renders a value for notes/samples.
func describe(v value) string {
	switch v := v.(type) {
	case sstring:
		var sb strings.Builder
		sb.WriteString("sym\"")
		for _, b := range v {
			if c, ok := b.(uint8); ok {
				sb.WriteByte(c)
			} else {
				sb.WriteString("?")
			}
		}
		sb.WriteString("\"")
		return sb.String()
	case *Term:
		return v.String()
	case iface:
		if v.t == nil {
			return "nil"
		}
		return fmt.Sprintf("(%s)%s", v.t, describe(v.v))
	case structure:
		var sb strings.Builder
		sb.WriteString("{")
		for i, f := range v {
			if i > 0 {
				sb.WriteString(" ")
			}
			sb.WriteString(describe(f))
		}
		sb.WriteString("}")
		return sb.String()
	case []value:
		var sb strings.Builder
		sb.WriteString("[")
		for i, f := range v {
			if i > 0 {
				sb.WriteString(" ")
			}
			if i > 16 {
				sb.WriteString("…")
				break
			}
			sb.WriteString(describe(f))
		}
		sb.WriteString("]")
		return sb.String()
	case *value:
		if v == nil {
			return "nil"
		}
		return fmt.Sprintf("&%p", v)
	case tuple:
		return describe([]value(v))
	case array:
		return describe([]value(v))
	case *ssa.Function:
		if v == nil {
			return "nilfunc"
		}
		return v.String()
	case *closure:
		return "closure:" + v.Fn.String()
	case string:
		return fmt.Sprintf("%q", v)
	}
	return fmt.Sprintf("%v", v)
}
