package main

// Native replay: the same harness source, compiled by the ordinary Go tool
// chain against /repo's working tree through `go test -overlay`, fed with the
// solver's model.  Only what reproduces is reported.

import (
	"bytes"
	"context"
	"encoding/json"
	"fmt"
	"os"
	"os/exec"
	"path/filepath"
	"sort"
	"strconv"
	"strings"
	"sync"
	"time"
)

var replayMu sync.Mutex

// workDir is this process's scratch directory (concurrent checks must not
// share generated drivers and overlays); removed by cleanupWork at exit.
func workDir() string {
	d := filepath.Join(verifDir, ".work", fmt.Sprintf("p%d", os.Getpid()))
	os.MkdirAll(d, 0o755)
	return d
}

func cleanupWork() { os.RemoveAll(filepath.Join(verifDir, ".work", fmt.Sprintf("p%d", os.Getpid()))) }

// writeOverlay writes the overlay JSON for `go test` and returns its path.
func writeOverlay(files []harnessFile, pkgRel string, harnessNames []string) string {
	var selfNames, diffNames []string
	var hn []string
	for _, n := range harnessNames {
		if strings.HasPrefix(n, "VerifSelftest_") {
			selfNames = append(selfNames, n)
		} else if strings.HasPrefix(n, "VerifDiff_") {
			diffNames = append(diffNames, n)
		} else {
			hn = append(hn, n)
		}
	}
	harnessNames = hn
	sort.Strings(selfNames)
	sort.Strings(diffNames)
	work := workDir()
	repl := map[string]string{}
	for _, f := range files {
		repl[f.virtual] = f.real
	}
	// generated test driver in the harness package
	pkgName := packageNameOf(files, pkgRel)
	var sb strings.Builder
	fmt.Fprintf(&sb, "package %s\n\nimport (\n\t\"fmt\"\n\t\"testing\"\n\n\t\"%s/zzverif\"\n)\n\n", pkgName, modPath)
	sb.WriteString("func TestVerifReplay(t *testing.T) {\n\tfns := map[string]func(){\n")
	sort.Strings(harnessNames)
	for _, n := range harnessNames {
		fmt.Fprintf(&sb, "\t\t%q: %s,\n", n, n)
	}
	sb.WriteString("\t}\n\tfor k, path := range zzverif.ReplayPaths() {\n\t\tname := zzverif.LoadPath(path)\n\t\tfn := fns[name]\n\t\tif fn == nil {\n\t\t\tt.Fatalf(\"unknown harness %s\", name)\n\t\t}\n")
	sb.WriteString("\t\toutcome, detail := zzverif.Run(fn)\n\t\tfmt.Printf(\"VERIF-OUTCOME-%d %s %s\\n\", k, outcome, detail)\n\t\tif k == 0 {\n\t\t\tfmt.Printf(\"VERIF-OUTCOME %s %s\\n\", outcome, detail)\n\t\t}\n\t}\n}\n")
	// native self-tests of harness-side models (contract cuts)
	sb.WriteString("\nfunc TestVerifSelf(t *testing.T) {\n\tfor name, fn := range map[string]func() string{\n")
	for _, n := range selfNames {
		fmt.Fprintf(&sb, "\t\t%q: %s,\n", n, n)
	}
	sb.WriteString("\t} {\n\t\tif e := fn(); e != \"\" {\n\t\t\tt.Errorf(\"%s: %s\", name, e)\n\t\t}\n\t}\n}\n")
	sb.WriteString("\nfunc TestVerifDiff(t *testing.T) {\n\tzzverif.Load()\n\tfor name, fn := range map[string]func() string{\n")
	for _, n := range diffNames {
		fmt.Fprintf(&sb, "\t\t%q: %s,\n", n, n)
	}
	sb.WriteString("\t} {\n\t\tfmt.Printf(\"VERIF-DIFF %s %q\\n\", name, fn())\n\t}\n}\n")
	drv := filepath.Join(work, "driver_"+strings.ReplaceAll(pkgRel, "/", "_")+"_test.go")
	os.WriteFile(drv, []byte(sb.String()), 0o644)
	repl[filepath.Join(repoDir, pkgRel, "zz_verif_replay_test.go")] = drv
	b, _ := json.Marshal(map[string]interface{}{"Replace": repl})
	ov := filepath.Join(work, "overlay_"+strings.ReplaceAll(pkgRel, "/", "_")+".json")
	os.WriteFile(ov, b, 0o644)
	return ov
}

func packageNameOf(files []harnessFile, pkgRel string) string {
	for _, f := range files {
		if f.pkgRel == pkgRel {
			src, _ := os.ReadFile(f.real)
			for _, l := range strings.Split(string(src), "\n") {
				if strings.HasPrefix(l, "package ") {
					return strings.TrimSpace(strings.TrimPrefix(l, "package "))
				}
			}
		}
	}
	return filepath.Base(pkgRel)
}

func nativeReplay(ld *loaded, f *Failure, replayPath string) (string, string) {
	pkgRel := ld.hpkg[f.Harness]
	var names []string
	for n, p := range ld.hpkg {
		if p == pkgRel {
			names = append(names, n)
		}
	}
	return runNative(ld.files, pkgRel, names, replayPath)
}

func runNative(files []harnessFile, pkgRel string, names []string, replayPath string) (string, string) {
	replayMu.Lock()
	defer replayMu.Unlock()
	ov := writeOverlay(files, pkgRel, names)
	ctx, cancel := context.WithTimeout(context.Background(), 240*time.Second)
	defer cancel()
	args := []string{"test", "-v", "-vet=off", "-count=1", "-timeout", "120s", "-overlay", ov, "-run", "^TestVerifReplay$", "./" + pkgRel}
	if b, err := os.ReadFile(replayPath); err == nil && strings.Contains(string(b), "\"VerifC09_") {
		// lock-discipline findings are confirmed under the race detector
		args = append([]string{"test", "-race"}, args[1:]...)
	}
	cmd := exec.CommandContext(ctx, "go", args...)
	cmd.Dir = repoDir
	cmd.Env = append(os.Environ(), "GOFLAGS=-mod=mod", "GOPROXY=off", "GOSUMDB=off", "GOTOOLCHAIN=local", "TZ=UTC", "VERIF_REPLAY="+replayPath)
	var out bytes.Buffer
	cmd.Stdout = &out
	cmd.Stderr = &out
	err := cmd.Run()
	o := out.String()
	if os.Getenv("GOSYM_REPLAY_VERBOSE") != "" {
		fmt.Fprintln(os.Stderr, o)
	}
	if strings.Contains(o, "WARNING: DATA RACE") {
		return "fail", "data race reported by the race detector"
	}
	for _, l := range strings.Split(o, "\n") {
		if strings.HasPrefix(l, "VERIF-OUTCOME ") {
			parts := strings.SplitN(strings.TrimPrefix(l, "VERIF-OUTCOME "), " ", 2)
			d := ""
			if len(parts) > 1 {
				d = parts[1]
			}
			return parts[0], d
		}
	}
	if ctx.Err() != nil || strings.Contains(o, "test timed out") {
		return "hang", "native run did not finish within 120s"
	}
	if err != nil {
		if len(o) > 1500 {
			o = o[len(o)-1500:]
		}
		if strings.Contains(o, "panic:") || strings.Contains(o, "fatal error:") {
			return "panic", "uncaught: " + firstLineWith(o, "panic:", "fatal error:")
		}
		return "error", o
	}
	return "error", "no outcome line"
}

// runNativeMany replays several stored paths of one package's harnesses in
// one native test run and returns the outcome of each ("outcome detail").
func runNativeMany(files []harnessFile, pkgRel string, names []string, paths []string) []string {
	replayMu.Lock()
	defer replayMu.Unlock()
	ov := writeOverlay(files, pkgRel, names)
	ctx, cancel := context.WithTimeout(context.Background(), 400*time.Second)
	defer cancel()
	args := []string{"test", "-v", "-vet=off", "-count=1", "-timeout", "300s", "-overlay", ov, "-run", "^TestVerifReplay$", "./" + pkgRel}
	cmd := exec.CommandContext(ctx, "go", args...)
	cmd.Dir = repoDir
	cmd.Env = append(os.Environ(), "GOFLAGS=-mod=mod", "GOPROXY=off", "GOSUMDB=off", "GOTOOLCHAIN=local", "TZ=UTC", "VERIF_REPLAY="+strings.Join(paths, string(os.PathListSeparator)))
	var out bytes.Buffer
	cmd.Stdout = &out
	cmd.Stderr = &out
	cmd.Run()
	o := out.String()
	if os.Getenv("GOSYM_REPLAY_VERBOSE") != "" {
		fmt.Fprintln(os.Stderr, o)
	}
	res := make([]string, len(paths))
	for k := range res {
		res[k] = "error no outcome line"
		pre := fmt.Sprintf("VERIF-OUTCOME-%d ", k)
		for _, l := range strings.Split(o, "\n") {
			if strings.HasPrefix(l, pre) {
				res[k] = strings.TrimSpace(strings.TrimPrefix(l, pre))
			}
		}
	}
	// an uncaught crash (fatal error, os.Exit) ends the run: attribute it to the first path without an outcome
	for k := range res {
		if res[k] == "error no outcome line" {
			if l := firstLineWith(o, "panic:", "fatal error:", "[build failed]", "cannot"); l != "" {
				res[k] = "error " + l
			}
			break
		}
	}
	return res
}

func firstLineWith(o string, keys ...string) string {
	for _, l := range strings.Split(o, "\n") {
		for _, k := range keys {
			if strings.Contains(l, k) {
				return strings.TrimSpace(l)
			}
		}
	}
	return ""
}

// nativeReplayFile replays a stored counterexample (for replay_cmd_template).
func nativeReplayFile(path string) (string, string) {
	b, err := os.ReadFile(path)
	if err != nil {
		fatal("read %s: %v", path, err)
	}
	var doc struct {
		Harness string `json:"harness"`
	}
	json.Unmarshal(b, &doc)
	files := findHarnessFiles()
	pkgRel := ""
	var names []string
	for _, f := range files {
		src, _ := os.ReadFile(f.real)
		if strings.Contains(string(src), "func "+doc.Harness+"(") {
			pkgRel = f.pkgRel
		}
	}
	if pkgRel == "" {
		fatal("harness %s not found", doc.Harness)
	}
	for _, f := range files {
		if f.pkgRel != pkgRel {
			continue
		}
		src, _ := os.ReadFile(f.real)
		for _, l := range strings.Split(string(src), "\n") {
			if strings.HasPrefix(l, "func Verif") {
				n := strings.TrimPrefix(l, "func ")
				n = n[:strings.Index(n, "(")]
				if isHarnessName(n) {
					names = append(names, n)
				}
			}
		}
	}
	abs, _ := filepath.Abs(path)
	return runNative(files, pkgRel, names, abs)
}

// harnessNamesIn lists the Verif* functions declared in the harness files of a package.
func harnessNamesIn(files []harnessFile, pkgRel string) []string {
	var names []string
	for _, f := range files {
		if f.pkgRel != pkgRel {
			continue
		}
		src, _ := os.ReadFile(f.real)
		for _, l := range strings.Split(string(src), "\n") {
			if strings.HasPrefix(l, "func Verif") {
				n := strings.TrimPrefix(l, "func ")
				n = n[:strings.Index(n, "(")]
				if isHarnessName(n) {
					names = append(names, n)
				}
			}
		}
	}
	return names
}

// selftest runs the native self-tests of every harness package that has some,
// and the concrete differential tests of the executor (VerifDiff_*).
func selftest() int {
	files := findHarnessFiles()
	pkgs := map[string]bool{}
	diffPkgs := map[string]bool{}
	for _, f := range files {
		src, _ := os.ReadFile(f.real)
		if strings.Contains(string(src), "func VerifSelftest_") {
			pkgs[f.pkgRel] = true
		}
		if strings.Contains(string(src), "func VerifDiff_") {
			diffPkgs[f.pkgRel] = true
		}
	}
	rc := 0
	for p := range pkgs {
		ov := writeOverlay(files, p, harnessNamesIn(files, p))
		cmd := exec.Command("go", "test", "-v", "-vet=off", "-count=1", "-timeout", "600s", "-overlay", ov, "-run", "^TestVerifSelf$", "./"+p)
		cmd.Dir = repoDir
		cmd.Env = append(os.Environ(), "GOFLAGS=-mod=mod", "GOPROXY=off", "GOSUMDB=off", "GOTOOLCHAIN=local")
		out, err := cmd.CombinedOutput()
		for _, l := range strings.Split(string(out), "\n") {
			if strings.Contains(l, "VERIF-SELFTEST") || strings.Contains(l, "FAIL") || strings.Contains(l, "disagree") || strings.HasPrefix(l, "ok") {
				fmt.Println(l)
			}
		}
		if err != nil {
			fmt.Printf("SELFTEST-FAILED %s: %v\n", p, err)
			rc = 1
		}
	}
	for p := range diffPkgs {
		// native results
		ov := writeOverlay(files, p, harnessNamesIn(files, p))
		cmd := exec.Command("go", "test", "-v", "-vet=off", "-count=1", "-timeout", "600s", "-overlay", ov, "-run", "^TestVerifDiff$", "./"+p)
		cmd.Dir = repoDir
		cmd.Env = append(os.Environ(), "GOFLAGS=-mod=mod", "GOPROXY=off", "GOSUMDB=off", "GOTOOLCHAIN=local", "TZ=UTC")
		out, err := cmd.CombinedOutput()
		if err != nil {
			fmt.Printf("SELFTEST-FAILED %s (native differential run): %v\n%s\n", p, err, tailOf(string(out), 1500))
			rc = 1
			continue
		}
		native := map[string]string{}
		for _, l := range strings.Split(string(out), "\n") {
			if strings.HasPrefix(l, "VERIF-DIFF ") {
				parts := strings.SplitN(strings.TrimPrefix(l, "VERIF-DIFF "), " ", 2)
				if len(parts) == 2 {
					if u, err := strconv.Unquote(parts[1]); err == nil {
						native[parts[0]] = u
					}
				}
			}
		}
		// the same functions in the symbolic executor
		ld := loadProgramFor([]string{p})
		sh := NewShared(ld.prog)
		e := &Explorer{sh: sh, pathTimeout: 120 * time.Second}
		e.cond = sync.NewCond(&e.mu)
		w := newWorker(0, sh, ld, e)
		w.solver = NewSolver(8000)
		w.xsolver = NewSolver(4000)
		w.crossEvery = 97
		e.workers = []*Worker{w}
		names := make([]string, 0)
		for n := range ld.harness {
			if strings.HasPrefix(n, "VerifDiff_") {
				names = append(names, n)
			}
		}
		sort.Strings(names)
		for _, n := range names {
			got, kind := w.runForResult(ld.harness[n])
			if kind != "pass" {
				fmt.Printf("SELFTEST-FAILED %s: executor could not run it: %s %s\n", n, kind, got)
				rc = 1
				continue
			}
			if got != native[n] {
				fmt.Printf("SELFTEST-FAILED %s: executor and native build disagree\n--- executor\n%s\n--- native\n%s\n", n, firstDiff(got, native[n]), "")
				rc = 1
			} else {
				fmt.Printf("VERIF-SELFTEST %s: executor and native build agree on %d bytes of output\n", n, len(got))
			}
		}
		w.solver.Close()
		w.xsolver.Close()
	}
	return rc
}

func tailOf(s string, n int) string {
	if len(s) > n {
		return s[len(s)-n:]
	}
	return s
}

func firstDiff(a, b string) string {
	k := 0
	for k < len(a) && k < len(b) && a[k] == b[k] {
		k++
	}
	lo := k - 80
	if lo < 0 {
		lo = 0
	}
	ha, hb := k+120, k+120
	if ha > len(a) {
		ha = len(a)
	}
	if hb > len(b) {
		hb = len(b)
	}
	return fmt.Sprintf("first difference at byte %d:\n executor: …%q\n native:   …%q", k, a[lo:ha], b[lo:hb])
}
