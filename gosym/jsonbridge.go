package main

// JSON bridge (DESIGN §3.5 F): encoding/json is reflection all the way down and
// cannot be executed from SSA.  Its two entry points are modelled here with
// encoding/json's documented semantics, directed by go/types instead of
// reflect: struct tags (name, omitempty, "-", embedded structs), maps, slices,
// pointers, interfaces, json.Number, and dispatch into the *real* goflow
// MarshalJSON / UnmarshalJSON / MarshalText / UnmarshalText methods, which are
// executed from their SSA like all other code.  JSON syntax itself (tokenising,
// escaping) is done by the host's encoding/json on concrete text and is
// trusted; the go-playground validator is cut (utils.Validate returns nil).

import (
	"go/token"
	"bytes"
	"encoding/json"
	"fmt"
	"go/types"
	"reflect"
	"sort"
	"strconv"
	"strings"
	"unicode/utf8"

	"golang.org/x/tools/go/ssa"
)

func init() {
	reg := func(name string, f intrinsic) { intrinsics[name] = f }
	reg("encoding/json.Unmarshal", func(fr *frame, args []value) value {
		return fr.i.jsonUnmarshal(fr, args[0], args[1].(iface), false)
	})
	reg("encoding/json.Marshal", func(fr *frame, args []value) value {
		return fr.i.jsonMarshalTuple(fr, args[0].(iface), false)
	})
	reg("encoding/json.MarshalIndent", func(fr *frame, args []value) value {
		return fr.i.jsonMarshalTuple(fr, args[0].(iface), false)
	})
	reg("encoding/json.Valid", func(fr *frame, args []value) value {
		return json.Valid(fr.i.jsonIn(fr, args[0]))
	})
	reg("github.com/nyaruka/gocommon/jsonx.marshal", func(fr *frame, args []value) value {
		return fr.i.jsonMarshalTuple(fr, args[0].(iface), true)
	})
	reg("github.com/nyaruka/gocommon/jsonx.DecodeGeneric", func(fr *frame, args []value) value {
		b := fr.i.jsonIn(fr, args[0])
		dec := json.NewDecoder(bytes.NewReader(b))
		dec.UseNumber()
		var g interface{}
		if err := dec.Decode(&g); err != nil {
			return tuple{iface{}, fr.i.mkError("json: " + err.Error())}
		}
		return tuple{fr.i.genericToValue(g, true), iface{}}
	})
	// the validator library is reflection based: its `required` rule is
	// modelled (goflow's control flow depends on it: a legacy definition is
	// recognised by failing the header's validation), every other rule is cut
	reg("github.com/nyaruka/goflow/utils.Validate", func(fr *frame, args []value) value {
		it, _ := args[0].(iface)
		if it.t == nil {
			return iface{}
		}
		if _, isSlice := it.t.Underlying().(*types.Slice); isSlice {
			return iface{}
		}
		fr.i.vfr = fr
		if msg := fr.i.validateRequired(it.t, it.v, "", 0); msg != "" {
			return fr.i.mkError(msg)
		}
		return iface{}
	})
	// goflow's own validation tags (result_name, result_category, urn, urnscheme,
	// date_format, time_format, attachment): the registered function is kept and
	// run — symbolically — on the fields that carry the tag
	reg("github.com/nyaruka/goflow/utils.RegisterValidatorTag", func(fr *frame, args []value) value {
		if fr.i.customValidators == nil {
			fr.i.customValidators = map[string]value{}
		}
		if tag, ok := args[0].(string); ok {
			fr.i.customValidators[tag] = args[1]
		}
		return useBody{}
	})
}

// Symbolic bytes inside JSON text: a symbolic byte that is a plain string
// character (0x20..0x7e except quote and backslash — decided, forking
// otherwise) is replaced by a private-use placeholder rune for the host's
// JSON tokenizer and mapped back wherever decoded text re-enters the
// interpreter, so that JSON syntax stays concrete while string content stays
// symbolic.
const placeholderBase = 0xE000

func (i *Interp) jsonIn(fr *frame, v value) []byte {
	if b, ok := concreteBytes(v); ok {
		return b
	}
	var src []value
	switch t := v.(type) {
	case sstring:
		src = []value(t)
	case []value:
		src = t
	default:
		panic(unsupported{fmt.Sprintf("json input of %T", v)})
	}
	ex := i.needEx("json")
	out := make([]byte, 0, len(src)+8)
	for _, b := range src {
		if c, ok := b.(uint8); ok {
			out = append(out, c)
			continue
		}
		t := b.(*Term)
		ts := i.ts
		plain := ts.And(ts.Cmp(OpULE, ts.BV(0x20, 8), t), ts.Cmp(OpULT, t, ts.BV(0x7f, 8)))
		plain = ts.And(plain, ts.Not(ts.Eq(t, ts.BV('"', 8))))
		plain = ts.And(plain, ts.Not(ts.Eq(t, ts.BV('\\', 8))))
		if !i.decide(plain, fr, "json-plain") {
			out = append(out, byte(i.concretize(t, 0, 255, fr)))
			continue
		}
		idx, ok := ex.placeholders[t]
		if !ok {
			idx = len(ex.placeholderTerms)
			if ex.placeholders == nil {
				ex.placeholders = map[*Term]int{}
			}
			ex.placeholders[t] = idx
			ex.placeholderTerms = append(ex.placeholderTerms, t)
		}
		out = utf8.AppendRune(out, rune(placeholderBase+idx))
	}
	return out
}

// jsonOutBytes maps placeholder runes in host-produced text back to their
// symbolic bytes.
func (i *Interp) jsonOutBytes(b []byte) []value {
	if i.ex == nil || len(i.ex.placeholderTerms) == 0 || !bytes.Contains(b, []byte{0xEE}) {
		return bytesValue(b)
	}
	out := make([]value, 0, len(b))
	for len(b) > 0 {
		r, n := utf8.DecodeRune(b)
		if idx := int(r) - placeholderBase; r >= placeholderBase && idx < len(i.ex.placeholderTerms) {
			out = append(out, i.ex.placeholderTerms[idx])
		} else {
			for _, c := range b[:n] {
				out = append(out, c)
			}
		}
		b = b[n:]
	}
	return out
}

func (i *Interp) jsonOutString(s string) value {
	if i.ex == nil || len(i.ex.placeholderTerms) == 0 || !strings.Contains(s, "\xee") {
		return s
	}
	return mkString(i.jsonOutBytes([]byte(s)))
}

func concreteBytes(v value) ([]byte, bool) {
	switch s := v.(type) {
	case string:
		return []byte(s), true
	case []value:
		out := make([]byte, len(s))
		for k, b := range s {
			c, ok := b.(uint8)
			if !ok {
				return nil, false
			}
			out[k] = c
		}
		return out, true
	}
	return nil, false
}

func bytesValue(b []byte) []value {
	out := make([]value, len(b))
	for k, c := range b {
		out[k] = c
	}
	return out
}

func (i *Interp) mkError(msg string) iface {
	t := i.prog.ImportedPackage("errors").Type("errorString").Object().Type()
	cell := new(value)
	*cell = structure{msg}
	return iface{t: types.NewPointer(t), v: cell}
}

var (
	jsonNumberType types.Type
	anyType        = types.NewInterfaceType(nil, nil)
)

func (i *Interp) jsonNumberT() types.Type {
	if jsonNumberType == nil {
		if p := i.prog.ImportedPackage("encoding/json"); p != nil {
			jsonNumberType = p.Type("Number").Object().Type()
		}
	}
	return jsonNumberType
}

// genericToValue converts a host generic JSON value into interpreter values
// of static type `any`.
func (i *Interp) genericToValue(g interface{}, useNumber bool) value {
	switch t := g.(type) {
	case nil:
		return iface{}
	case bool:
		return iface{t: types.Typ[types.Bool], v: t}
	case string:
		return iface{t: types.Typ[types.String], v: i.jsonOutString(t)}
	case json.Number:
		if useNumber {
			return iface{t: i.jsonNumberT(), v: string(t)}
		}
		f, _ := t.Float64()
		return iface{t: types.Typ[types.Float64], v: f}
	case float64:
		return iface{t: types.Typ[types.Float64], v: t}
	case []interface{}:
		out := make([]value, len(t))
		for k := range t {
			out[k] = i.genericToValue(t[k], useNumber)
		}
		return iface{t: types.NewSlice(anyType), v: out}
	case map[string]interface{}:
		m := newSmap(types.Typ[types.String])
		keys := make([]string, 0, len(t))
		for k := range t {
			keys = append(keys, k)
		}
		sort.Strings(keys)
		for _, k := range keys {
			if _, sym := i.jsonOutString(k).(sstring); sym {
				panic(unsupported{"json: object key with symbolic bytes"})
			}
			m.keys = append(m.keys, k)
			m.vals = append(m.vals, i.genericToValue(t[k], useNumber))
			m.live = append(m.live, true)
			m.index[k] = append(m.index[k], len(m.keys)-1)
			m.n++
		}
		return iface{t: types.NewMap(types.Typ[types.String], anyType), v: m}
	}
	panic(fmt.Sprintf("genericToValue: %T", g))
}

// ---- Unmarshal -----------------------------------------------------------

func (i *Interp) jsonUnmarshal(fr *frame, data value, target iface, useNumber bool) value {
	b := i.jsonIn(fr, data)
	if target.t == nil {
		return i.mkError("json: Unmarshal(nil)")
	}
	pt, ok := target.t.Underlying().(*types.Pointer)
	if !ok || isNilValue(target.v) {
		return i.mkError("json: Unmarshal(non-pointer " + target.t.String() + ")")
	}
	dec := json.NewDecoder(bytes.NewReader(b))
	dec.UseNumber()
	var g interface{}
	if err := dec.Decode(&g); err != nil {
		return i.mkError("json: " + err.Error())
	}
	if !json.Valid(b) {
		// json.Unmarshal checks the whole input first (trailing `]`, `}` included, which Decoder.More does not report)
		return i.mkError("invalid character after top-level value")
	}
	// keep the source text of every object and array: an UnmarshalJSON method
	// (json.RawMessage in particular) receives it verbatim, as from encoding/json
	g = i.decodeKeepingRaw(b)
	cell := target.v.(*value)
	if err := i.jsonDecodeInto(fr, pt.Elem(), cell, g, useNumber); err != "" {
		return i.mkError(err)
	}
	return iface{}
}

func (i *Interp) methodOf(t types.Type, name string, nparams int) *ssa.Function {
	if m := i.findMethod(t, name); m != nil && m.Signature.Params().Len() == nparams {
		return m
	}
	return nil
}

func rawOf(g interface{}) []byte {
	b, _ := json.Marshal(g)
	return b
}

type rawEntry struct {
	obj interface{} // keeps the object alive so that its address is not reused
	raw []byte
}

// decodeKeepingRaw decodes valid JSON like json.Unmarshal into interface{}
// (with json.Number) and records the source text of every object and array.
func (i *Interp) decodeKeepingRaw(raw []byte) interface{} {
	raw = bytes.TrimSpace(raw)
	if len(raw) == 0 {
		return nil
	}
	if i.jsonRaws == nil {
		i.jsonRaws = map[uintptr]rawEntry{}
	}
	switch raw[0] {
	case '{':
		var m map[string]json.RawMessage
		if json.Unmarshal(raw, &m) != nil {
			break
		}
		out := make(map[string]interface{}, len(m))
		for k, v := range m {
			out[k] = i.decodeKeepingRaw(v)
		}
		i.jsonRaws[reflect.ValueOf(out).Pointer()] = rawEntry{out, raw}
		return out
	case '[':
		var a []json.RawMessage
		if json.Unmarshal(raw, &a) != nil {
			break
		}
		out := make([]interface{}, len(a))
		for k, v := range a {
			out[k] = i.decodeKeepingRaw(v)
		}
		if len(out) > 0 {
			i.jsonRaws[reflect.ValueOf(out).Pointer()] = rawEntry{out, raw}
		}
		return out
	}
	dec := json.NewDecoder(bytes.NewReader(raw))
	dec.UseNumber()
	var g interface{}
	dec.Decode(&g)
	return g
}

// rawOfKept is rawOf with the recorded source text where there is one.
func (i *Interp) rawOfKept(g interface{}) []byte {
	switch t := g.(type) {
	case map[string]interface{}:
		if e, ok := i.jsonRaws[reflect.ValueOf(t).Pointer()]; ok {
			return e.raw
		}
	case []interface{}:
		if len(t) > 0 {
			if e, ok := i.jsonRaws[reflect.ValueOf(t).Pointer()]; ok {
				if s, isSlice := e.obj.([]interface{}); isSlice && len(s) == len(t) {
					return e.raw
				}
			}
		}
	}
	return rawOf(g)
}

// jsonDecodeInto stores the decoding of g, for static type t, into *cell.
// Returns an error text or "".
func (i *Interp) jsonDecodeInto(fr *frame, t types.Type, cell *value, g interface{}, useNumber bool) string {
	// decoding writes the target: into shared-immutable memory that is a violation of the C09 discipline
	// (json.Unmarshal fills an existing non-nil pointer in place)
	i.noteWriteAt(cell, fr, token.NoPos, "json.Unmarshal")
	// custom unmarshalers (pointer receiver method sets)
	if _, isIface := t.Underlying().(*types.Interface); !isIface {
		pt := types.NewPointer(t)
		if _, isPtr := t.Underlying().(*types.Pointer); !isPtr {
			if m := i.methodOf(pt, "UnmarshalJSON", 1); m != nil {
				if g == nil {
					if _, isNamedBytes := t.Underlying().(*types.Slice); !isNamedBytes {
						return "" // null is a no-op for Unmarshalers (except RawMessage)
					}
				}
				res := i.callFn(fr, m, cell, i.jsonOutBytes(i.rawOfKept(g)))
				if e := res.(iface); e.t != nil {
					return i.panicText(e)
				}
				return ""
			}
			if s, ok := g.(string); ok {
				if m := i.methodOf(pt, "UnmarshalText", 1); m != nil {
					res := i.callFn(fr, m, cell, i.jsonOutBytes([]byte(s)))
					if e := res.(iface); e.t != nil {
						return i.panicText(e)
					}
					return ""
				}
			}
		}
	}
	switch u := t.Underlying().(type) {
	case *types.Pointer:
		if g == nil {
			i.tr.store(cell, (*value)(nil))
			return ""
		}
		p, _ := (*cell).(*value)
		if p == nil {
			p = new(value)
			*p = zero(u.Elem())
			i.tr.store(cell, p)
		}
		return i.jsonDecodeInto(fr, u.Elem(), p, g, useNumber)
	case *types.Interface:
		if u.NumMethods() == 0 {
			i.tr.store(cell, i.genericToValue(g, useNumber))
			return ""
		}
		if g == nil {
			i.tr.store(cell, iface{})
			return ""
		}
		return "json: cannot unmarshal into Go value of type " + t.String()
	case *types.Basic:
		if g == nil {
			return ""
		}
		k, _ := basicKind(t)
		switch {
		case k == types.String:
			s, ok := g.(string)
			if !ok {
				if n, isNum := g.(json.Number); isNum && types.Identical(t, i.jsonNumberT()) {
					i.tr.store(cell, string(n))
					return ""
				}
				return fmt.Sprintf("json: cannot unmarshal %s into Go value of type %s", jsonKind(g), t)
			}
			i.tr.store(cell, i.jsonOutString(s))
		case k == types.Bool:
			b, ok := g.(bool)
			if !ok {
				return fmt.Sprintf("json: cannot unmarshal %s into Go value of type %s", jsonKind(g), t)
			}
			i.tr.store(cell, b)
		case k == types.Float64 || k == types.Float32:
			n, ok := g.(json.Number)
			if !ok {
				return fmt.Sprintf("json: cannot unmarshal %s into Go value of type %s", jsonKind(g), t)
			}
			f, err := n.Float64()
			if err != nil {
				return "json: cannot unmarshal number " + string(n) + " into Go value of type " + t.String()
			}
			i.tr.store(cell, convFloat(k, f))
		default:
			w, signed := intInfo(t)
			if w == 0 {
				return "json: unsupported basic type " + t.String()
			}
			n, ok := g.(json.Number)
			if !ok {
				return fmt.Sprintf("json: cannot unmarshal %s into Go value of type %s", jsonKind(g), t)
			}
			if signed {
				v, err := strconv.ParseInt(string(n), 10, int(w))
				if err != nil {
					return "json: cannot unmarshal number " + string(n) + " into Go value of type " + t.String()
				}
				i.tr.store(cell, fromU64(k, uint64(v)))
			} else {
				v, err := strconv.ParseUint(string(n), 10, int(w))
				if err != nil {
					return "json: cannot unmarshal number " + string(n) + " into Go value of type " + t.String()
				}
				i.tr.store(cell, fromU64(k, v))
			}
		}
		return ""
	case *types.Slice:
		if g == nil {
			i.tr.store(cell, []value(nil))
			return ""
		}
		if ek, _ := basicKind(u.Elem()); ek == types.Uint8 {
			if s, ok := g.(string); ok {
				// []byte from base64
				var raw []byte
				if err := json.Unmarshal([]byte(strconv.Quote(s)), &raw); err != nil {
					return "json: " + err.Error()
				}
				i.tr.store(cell, bytesValue(raw))
				return ""
			}
		}
		arr, ok := g.([]interface{})
		if !ok {
			return fmt.Sprintf("json: cannot unmarshal %s into Go value of type %s", jsonKind(g), t)
		}
		out := make([]value, len(arr))
		for k := range arr {
			out[k] = zero(u.Elem())
			if e := i.jsonDecodeInto(fr, u.Elem(), &out[k], arr[k], useNumber); e != "" {
				return e
			}
		}
		i.tr.store(cell, out)
		return ""
	case *types.Array:
		arr, ok := g.([]interface{})
		if g == nil {
			return ""
		}
		if !ok {
			return fmt.Sprintf("json: cannot unmarshal %s into Go value of type %s", jsonKind(g), t)
		}
		a := (*cell).(array)
		for k := range a {
			if k < len(arr) {
				if e := i.jsonDecodeInto(fr, u.Elem(), &a[k], arr[k], useNumber); e != "" {
					return e
				}
			}
		}
		return ""
	case *types.Map:
		if g == nil {
			i.tr.store(cell, (*smap)(nil))
			return ""
		}
		obj, ok := g.(map[string]interface{})
		if !ok {
			return fmt.Sprintf("json: cannot unmarshal %s into Go value of type %s", jsonKind(g), t)
		}
		m, _ := (*cell).(*smap)
		if m == nil {
			m = newSmap(u.Key())
			i.tr.store(cell, m)
		}
		keys := make([]string, 0, len(obj))
		for k := range obj {
			keys = append(keys, k)
		}
		sort.Strings(keys)
		for _, k := range keys {
			var kv value = k
			if kk, _ := basicKind(u.Key()); kk != types.String {
				if w, signed := intInfo(u.Key()); w != 0 {
					if signed {
						n, err := strconv.ParseInt(k, 10, int(w))
						if err != nil {
							return "json: cannot unmarshal number " + k + " into Go value of type " + u.Key().String()
						}
						kv = fromU64(kk, uint64(n))
					} else {
						n, err := strconv.ParseUint(k, 10, int(w))
						if err != nil {
							return "json: cannot unmarshal number " + k + " into Go value of type " + u.Key().String()
						}
						kv = fromU64(kk, n)
					}
				} else {
					return "json: unsupported map key type " + u.Key().String()
				}
			}
			var ev value = zero(u.Elem())
			if e := i.jsonDecodeInto(fr, u.Elem(), &ev, obj[k], useNumber); e != "" {
				return e
			}
			fr.mapSet(m, kv, ev)
		}
		return ""
	case *types.Struct:
		if g == nil {
			return ""
		}
		obj, ok := g.(map[string]interface{})
		if !ok {
			return fmt.Sprintf("json: cannot unmarshal %s into Go value of type %s", jsonKind(g), t)
		}
		st := (*cell).(structure)
		fields := jsonFields(u, nil)
		for name, gv := range obj {
			var f *jsonField
			for k := range fields {
				if fields[k].name == name {
					f = &fields[k]
					break
				}
			}
			if f == nil {
				for k := range fields {
					if strings.EqualFold(fields[k].name, name) {
						f = &fields[k]
						break
					}
				}
			}
			if f == nil {
				continue
			}
			// walk to the (possibly embedded) field cell
			c := &st[f.index[0]]
			ft := u.Field(f.index[0]).Type()
			bad := false
			for _, ix := range f.index[1:] {
				if pt, ok := ft.Underlying().(*types.Pointer); ok {
					p, _ := (*c).(*value)
					if p == nil {
						p = new(value)
						*p = zero(pt.Elem())
						i.tr.store(c, p)
					}
					c = p
					ft = pt.Elem()
				}
				inner, ok := (*c).(structure)
				if !ok {
					bad = true
					break
				}
				c = &inner[ix]
				ft = ft.Underlying().(*types.Struct).Field(ix).Type()
			}
			if bad {
				continue
			}
			if f.quoted {
				if s, ok := gv.(string); ok {
					var inner interface{}
					d := json.NewDecoder(strings.NewReader(s))
					d.UseNumber()
					if d.Decode(&inner) == nil {
						gv = inner
					}
				}
			}
			if e := i.jsonDecodeInto(fr, ft, c, gv, useNumber); e != "" {
				return e
			}
		}
		return ""
	}
	return "json: unsupported type " + t.String()
}

func jsonKind(g interface{}) string {
	switch g.(type) {
	case nil:
		return "null"
	case bool:
		return "bool"
	case string:
		return "string"
	case json.Number:
		return "number"
	case []interface{}:
		return "array"
	}
	return "object"
}

type jsonField struct {
	name      string
	index     []int
	omitEmpty bool
	quoted    bool
	typ       types.Type
}

// jsonFields lists the JSON-visible fields of a struct with encoding/json's
// rules (tags, unexported fields skipped, untagged embedded structs flattened,
// shallower names win).
func jsonFields(st *types.Struct, prefix []int) []jsonField {
	all := jsonFieldsRaw(st, prefix)
	// among fields of the same name the shallowest wins (encoding/json's
	// dominance rule); order is declaration order with embedded structs
	// inlined at their position
	best := map[string]int{}
	for _, f := range all {
		if d, ok := best[f.name]; !ok || len(f.index) < d {
			best[f.name] = len(f.index)
		}
	}
	var out []jsonField
	seen := map[string]bool{}
	for _, f := range all {
		if len(f.index) == best[f.name] && !seen[f.name] {
			seen[f.name] = true
			out = append(out, f)
		}
	}
	return out
}

func jsonFieldsRaw(st *types.Struct, prefix []int) []jsonField {
	var out []jsonField
	for k := 0; k < st.NumFields(); k++ {
		f := st.Field(k)
		tag := reflect.StructTag(st.Tag(k)).Get("json")
		if tag == "-" {
			continue
		}
		name, opts, _ := strings.Cut(tag, ",")
		idx := append(append([]int{}, prefix...), k)
		if f.Embedded() && name == "" {
			ft := f.Type()
			if pt, ok := ft.Underlying().(*types.Pointer); ok {
				ft = pt.Elem()
			}
			if est, ok := ft.Underlying().(*types.Struct); ok {
				out = append(out, jsonFieldsRaw(est, idx)...)
				continue
			}
		}
		if !f.Exported() {
			continue
		}
		if name == "" {
			name = f.Name()
		}
		out = append(out, jsonField{name: name, index: idx, omitEmpty: strings.Contains(","+opts+",", ",omitempty,"),
			quoted: strings.Contains(","+opts+",", ",string,"), typ: f.Type()})
	}
	return out
}

// ---- Marshal -------------------------------------------------------------

type jsonErr struct{ msg string }

func (i *Interp) jsonMarshalTuple(fr *frame, v iface, noHTMLEscape bool) (res value) {
	defer func() {
		if r := recover(); r != nil {
			if je, ok := r.(jsonErr); ok {
				res = tuple{[]value(nil), i.mkError(je.msg)}
				return
			}
			panic(r)
		}
	}()
	var sb jsonBuf
	i.jsonEncode(fr, &sb, v.t, v.v, noHTMLEscape)
	return tuple{sb.bytes(), iface{}}
}

// jsonBuf accumulates output that may contain symbolic bytes.
type jsonBuf struct{ b []value }

func (sb *jsonBuf) str(s string) {
	for k := 0; k < len(s); k++ {
		sb.b = append(sb.b, s[k])
	}
}
func (sb *jsonBuf) vals(v []value) { sb.b = append(sb.b, v...) }
func (sb *jsonBuf) bytes() []value {
	if sb.b == nil {
		return []value{}
	}
	return sb.b
}

func isEmptyJSON(v value) bool {
	switch x := v.(type) {
	case bool:
		return !x
	case string:
		return len(x) == 0
	case sstring:
		return len(x) == 0
	case []value:
		return len(x) == 0
	case array:
		return len(x) == 0
	case *smap:
		return x == nil || x.len() == 0
	case *value:
		return x == nil
	case iface:
		return x.t == nil
	case float64:
		return x == 0
	case float32:
		return x == 0
	case *Term:
		return false
	}
	if u, ok := toU64(v); ok {
		return u == 0
	}
	return false
}

func (i *Interp) jsonString(fr *frame, sb *jsonBuf, s value, noHTMLEscape bool) {
	if cs, ok := s.(string); ok {
		var buf bytes.Buffer
		enc := json.NewEncoder(&buf)
		enc.SetEscapeHTML(!noHTMLEscape)
		enc.Encode(cs)
		sb.str(strings.TrimSuffix(buf.String(), "\n"))
		return
	}
	// symbolic bytes: escape byte-wise through decisions (ASCII only; a
	// symbolic byte ≥ 0x80 would need UTF-8 validation: unsupported)
	sb.str("\"")
	for _, b := range strBytes(s) {
		if c, ok := b.(uint8); ok {
			if c < utf8.RuneSelf && c >= 0x20 && c != '"' && c != '\\' && (noHTMLEscape || (c != '<' && c != '>' && c != '&')) {
				sb.b = append(sb.b, c)
				continue
			}
			var one bytes.Buffer
			enc := json.NewEncoder(&one)
			enc.SetEscapeHTML(!noHTMLEscape)
			if c >= utf8.RuneSelf {
				panic(unsupported{"json: symbolic string with non-ASCII bytes"})
			}
			enc.Encode(string(rune(c)))
			q := strings.TrimSuffix(one.String(), "\n")
			sb.str(q[1 : len(q)-1])
			continue
		}
		t := b.(*Term)
		ts := i.ts
		plain := ts.And(ts.Cmp(OpULE, ts.BV(0x20, 8), t), ts.Cmp(OpULT, t, ts.BV(0x80, 8)))
		plain = ts.And(plain, ts.Not(ts.Eq(t, ts.BV('"', 8))))
		plain = ts.And(plain, ts.Not(ts.Eq(t, ts.BV('\\', 8))))
		if !noHTMLEscape {
			for _, c := range []byte{'<', '>', '&'} {
				plain = ts.And(plain, ts.Not(ts.Eq(t, ts.BV(uint64(c), 8))))
			}
		}
		if i.decide(plain, fr, "json-escape") {
			sb.b = append(sb.b, t)
			continue
		}
		// needs escaping: fork over the remaining values
		k := i.concretize(t, 0, 255, fr)
		if k >= utf8.RuneSelf {
			panic(unsupported{"json: symbolic string with non-ASCII bytes"})
		}
		var one bytes.Buffer
		enc := json.NewEncoder(&one)
		enc.SetEscapeHTML(!noHTMLEscape)
		enc.Encode(string(rune(k)))
		q := strings.TrimSuffix(one.String(), "\n")
		sb.str(q[1 : len(q)-1])
	}
	sb.str("\"")
}

func (i *Interp) jsonEncode(fr *frame, sb *jsonBuf, t types.Type, v value, noHTML bool) {
	if t == nil {
		sb.str("null")
		return
	}
	// interface: encode the dynamic value
	if _, ok := t.Underlying().(*types.Interface); ok {
		it, _ := v.(iface)
		if it.t == nil {
			sb.str("null")
			return
		}
		i.jsonEncode(fr, sb, it.t, it.v, noHTML)
		return
	}
	// Marshaler / TextMarshaler (value method set; pointer receivers apply to
	// pointer values only, as in encoding/json for non-addressable values)
	if p, ok := v.(*value); ok && p == nil {
		if _, isPtr := t.Underlying().(*types.Pointer); isPtr {
			sb.str("null")
			return
		}
	}
	if m := i.methodOf(t, "MarshalJSON", 0); m != nil {
		res := i.callFn(fr, m, v).(tuple)
		if e := res[1].(iface); e.t != nil {
			panic(jsonErr{"json: error calling MarshalJSON for type " + t.String() + ": " + i.panicText(e)})
		}
		out, _ := res[0].([]value)
		if cb, ok := concreteBytes(out); ok {
			if !json.Valid(cb) {
				panic(jsonErr{"json: error calling MarshalJSON for type " + t.String() + ": invalid JSON"})
			}
			var c bytes.Buffer
			json.Compact(&c, cb)
			sb.str(c.String())
		} else {
			sb.vals(out)
		}
		return
	}
	if m := i.methodOf(t, "MarshalText", 0); m != nil {
		res := i.callFn(fr, m, v).(tuple)
		if e := res[1].(iface); e.t != nil {
			panic(jsonErr{"json: error calling MarshalText for type " + t.String() + ": " + i.panicText(e)})
		}
		out, _ := res[0].([]value)
		i.jsonString(fr, sb, mkString(out), noHTML)
		return
	}
	switch u := t.Underlying().(type) {
	case *types.Pointer:
		p := v.(*value)
		if p == nil {
			sb.str("null")
			return
		}
		i.jsonEncode(fr, sb, u.Elem(), load(p), noHTML)
	case *types.Basic:
		k, _ := basicKind(t)
		switch x := v.(type) {
		case bool:
			sb.str(strconv.FormatBool(x))
		case string, sstring:
			if types.Identical(t, i.jsonNumberT()) {
				if s, ok := x.(string); ok {
					if s == "" {
						s = "0"
					}
					sb.str(s)
					return
				}
			}
			i.jsonString(fr, sb, x, noHTML)
		case float64:
			b, err := json.Marshal(x)
			if err != nil {
				panic(jsonErr{"json: unsupported value: " + err.Error()})
			}
			sb.str(string(b))
		case float32:
			b, err := json.Marshal(x)
			if err != nil {
				panic(jsonErr{"json: unsupported value: " + err.Error()})
			}
			sb.str(string(b))
		case *Term:
			if x.w == 0 {
				if i.decide(x, fr, "json-bool") {
					sb.str("true")
				} else {
					sb.str("false")
				}
				return
			}
			_, signed := intInfo(t)
			var s value
			if signed {
				s = i.callFn(fr, i.pkgFunc("strconv", "FormatInt"), i.fromTerm(i.ts.SExt(x, 64), types.Typ[types.Int64]), 10)
			} else {
				s = i.callFn(fr, i.pkgFunc("strconv", "FormatUint"), i.fromTerm(i.ts.ZExt(x, 64), types.Typ[types.Uint64]), 10)
			}
			sb.vals(strBytes(s))
		default:
			u64, ok := toU64(v)
			if !ok {
				panic(jsonErr{"json: unsupported type: " + t.String()})
			}
			if _, signed := intInfo(t); signed {
				sb.str(strconv.FormatInt(int64(u64), 10))
			} else {
				sb.str(strconv.FormatUint(u64, 10))
			}
			_ = k
		}
	case *types.Slice:
		s := v.([]value)
		if s == nil {
			sb.str("null")
			return
		}
		if ek, _ := basicKind(u.Elem()); ek == types.Uint8 {
			if _, hasM := u.Elem().(*types.Named); !hasM {
				cb, ok := concreteBytes(s)
				if !ok {
					panic(unsupported{"json: base64 of symbolic bytes"})
				}
				b, _ := json.Marshal(cb)
				sb.str(string(b))
				return
			}
		}
		sb.str("[")
		for k := range s {
			if k > 0 {
				sb.str(",")
			}
			i.jsonEncode(fr, sb, u.Elem(), s[k], noHTML)
		}
		sb.str("]")
	case *types.Array:
		a := v.(array)
		sb.str("[")
		for k := range a {
			if k > 0 {
				sb.str(",")
			}
			i.jsonEncode(fr, sb, u.Elem(), a[k], noHTML)
		}
		sb.str("]")
	case *types.Map:
		m := v.(*smap)
		if m == nil {
			sb.str("null")
			return
		}
		type kv struct {
			k value // string, or sstring with symbolic bytes
			p int
		}
		var kvs []kv
		symbolicKeys := false
		for _, p := range m.order() {
			var ks value
			switch kk := m.keys[p].(type) {
			case string:
				ks = kk
			case sstring:
				// a key with symbolic bytes: its place among the sorted keys is decided
				// by the solver (one fork per comparison, below)
				ks = kk
				symbolicKeys = true
			default:
				if tm := i.methodOf(u.Key(), "MarshalText", 0); tm != nil {
					res := i.callFn(fr, tm, kk).(tuple)
					cb, _ := concreteBytes(res[0])
					ks = string(cb)
				} else if u64, ok := toU64(kk); ok {
					if _, signed := intInfo(u.Key()); signed {
						ks = strconv.FormatInt(int64(u64), 10)
					} else {
						ks = strconv.FormatUint(u64, 10)
					}
				} else {
					panic(jsonErr{"json: unsupported type: " + t.String()})
				}
			}
			kvs = append(kvs, kv{ks, p})
		}
		if !symbolicKeys {
			sort.SliceStable(kvs, func(a, b int) bool { return kvs[a].k.(string) < kvs[b].k.(string) })
		} else {
			for a := 1; a < len(kvs); a++ {
				for b := a; b > 0 && i.truth(i.strLess(kvs[b].k, kvs[b-1].k, false), fr, "json: order of map keys"); b-- {
					kvs[b], kvs[b-1] = kvs[b-1], kvs[b]
				}
			}
		}
		sb.str("{")
		for n, e := range kvs {
			if n > 0 {
				sb.str(",")
			}
			i.jsonString(fr, sb, e.k, noHTML)
			sb.str(":")
			i.jsonEncode(fr, sb, u.Elem(), m.vals[e.p], noHTML)
		}
		sb.str("}")
	case *types.Struct:
		st := v.(structure)
		sb.str("{")
		first := true
		for _, f := range jsonFields(u, nil) {
			// walk to the field value
			var fv value = st
			ft := types.Type(u)
			ok := true
			for _, ix := range f.index {
				if pt, isPtr := ft.Underlying().(*types.Pointer); isPtr {
					p := fv.(*value)
					if p == nil {
						ok = false
						break
					}
					fv = *p
					ft = pt.Elem()
				}
				fv = fv.(structure)[ix]
				ft = ft.Underlying().(*types.Struct).Field(ix).Type()
			}
			if !ok {
				continue
			}
			if f.omitEmpty && isEmptyJSON(fv) {
				continue
			}
			if !first {
				sb.str(",")
			}
			first = false
			i.jsonString(fr, sb, f.name, noHTML)
			sb.str(":")
			if f.quoted {
				var inner jsonBuf
				i.jsonEncode(fr, &inner, ft, fv, noHTML)
				i.jsonString(fr, sb, mkString(inner.bytes()), noHTML)
			} else {
				i.jsonEncode(fr, sb, ft, fv, noHTML)
			}
		}
		sb.str("}")
	default:
		panic(jsonErr{"json: unsupported type: " + t.String()})
	}
}
