package main

// fmt, errors and minimal reflection intrinsics.

import (
	"fmt"
	"go/types"
	"strconv"
	"strings"

	"golang.org/x/tools/go/ssa"
)

func init() {
	reg := func(name string, f intrinsic) { intrinsics[name] = f }
	reg("fmt.Sprintf", func(fr *frame, args []value) value {
		return fr.i.sprintf(fr, args[0], args[1].([]value))
	})
	reg("fmt.Sprint", func(fr *frame, args []value) value {
		return fr.i.sprint(fr, args[0].([]value), false)
	})
	reg("fmt.Sprintln", func(fr *frame, args []value) value {
		return fr.i.sprint(fr, args[0].([]value), true)
	})
	reg("fmt.Errorf", func(fr *frame, args []value) value {
		i := fr.i
		msg := i.sprintf(fr, args[0], args[1].([]value))
		// %w: wrap the first error operand
		var wrapped value
		if f, ok := args[0].(string); ok && strings.Contains(f, "%w") {
			for _, a := range args[1].([]value) {
				it := a.(iface)
				if it.t != nil && i.findMethod(it.t, "Error") != nil {
					wrapped = it
					break
				}
			}
		}
		fmtPkg := i.prog.ImportedPackage("fmt")
		if wrapped != nil {
			t := fmtPkg.Type("wrapError").Object().Type()
			cell := new(value)
			*cell = structure{msg, wrapped}
			return iface{t: types.NewPointer(t), v: cell}
		}
		t := i.prog.ImportedPackage("errors").Type("errorString").Object().Type()
		cell := new(value)
		*cell = structure{msg}
		return iface{t: types.NewPointer(t), v: cell}
	})
	for _, n := range []string{"fmt.Printf", "fmt.Println", "fmt.Print", "log.Printf", "log.Println", "log.Print"} {
		n := n
		reg(n, func(fr *frame, args []value) value {
			if strings.HasPrefix(n, "log.") {
				return nil
			}
			return tuple{0, iface{}}
		})
	}
	// Fprint*: console output is dropped; any other writer (a buffer, a
	// builder) really receives the formatted bytes through its Write method
	fprint := func(fr *frame, w value, text value) value {
		i := fr.i
		it, ok := w.(iface)
		if !ok || it.t == nil {
			panic(i.rtPanic("invalid memory address or nil pointer dereference"))
		}
		if strings.HasSuffix(it.t.String(), "os.File") {
			return tuple{0, iface{}}
		}
		m := i.findMethod(it.t, "Write")
		if m == nil {
			panic(unsupported{"fmt.Fprint to a writer without a Write method: " + it.t.String()})
		}
		return i.callFn(fr, m, it.v, strBytes(text))
	}
	reg("fmt.Fprintf", func(fr *frame, args []value) value {
		return fprint(fr, args[0], fr.i.sprintf(fr, args[1], args[2].([]value)))
	})
	reg("fmt.Fprint", func(fr *frame, args []value) value {
		return fprint(fr, args[0], fr.i.sprint(fr, args[1].([]value), false))
	})
	reg("fmt.Fprintln", func(fr *frame, args []value) value {
		return fprint(fr, args[0], fr.i.sprint(fr, args[1].([]value), true))
	})

	for _, n := range []string{"log/slog.Error", "log/slog.Warn", "log/slog.Info", "log/slog.Debug",
		"(*log/slog.Logger).Error", "(*log/slog.Logger).Warn", "(*log/slog.Logger).Info", "(*log/slog.Logger).Debug"} {
		reg(n, func(fr *frame, args []value) value { return nil })
	}

	// ---- errors -------------------------------------------------------
	reg("errors.Is", func(fr *frame, args []value) value {
		return fr.i.errorsIs(fr, args[0].(iface), args[1].(iface))
	})
	reg("errors.As", func(fr *frame, args []value) value {
		return fr.i.errorsAs(fr, args[0].(iface), args[1].(iface))
	})

	// ---- reflect (minimal) -------------------------------------------
	reg("reflect.TypeOf", func(fr *frame, args []value) value {
		it := args[0].(iface)
		if it.t == nil {
			return iface{}
		}
		return iface{t: rtypeIface, v: rtype{it.t}}
	})
	reg("internal/reflectlite.TypeOf", func(fr *frame, args []value) value {
		it := args[0].(iface)
		if it.t == nil {
			return iface{}
		}
		return iface{t: rtypeIface, v: rtype{it.t}}
	})
	reg("reflect.ValueOf", func(fr *frame, args []value) value {
		it := args[0].(iface)
		return structure{rvalue{it: it}, nil, uintptr(0)}
	})
	reg("(reflect.Value).IsNil", func(fr *frame, args []value) value {
		rv := args[0].(structure)[0].(rvalue)
		switch rv.it.t.Underlying().(type) {
		case *types.Interface:
			inner, _ := rv.it.v.(iface)
			return inner.t == nil
		case *types.Pointer, *types.Map, *types.Slice, *types.Signature, *types.Chan:
			return isNilValue(rv.it.v)
		case *types.Basic:
			if k, _ := basicKind(rv.it.t); k == types.UnsafePointer {
				return isNilValue(rv.it.v)
			}
		}
		panic(fr.i.rtPanic("reflect: call of reflect.Value.IsNil on " + rv.it.t.String() + " Value"))
	})
	reg("(reflect.Value).Kind", func(fr *frame, args []value) value {
		rv := args[0].(structure)[0].(rvalue)
		if rv.it.t == nil {
			return uint(0)
		}
		return uint(reflectKind(rv.it.t))
	})
	reg("(reflect.Value).IsValid", func(fr *frame, args []value) value {
		rv := args[0].(structure)[0].(rvalue)
		return rv.it.t != nil
	})
	reg("(reflect.Value).Len", func(fr *frame, args []value) value {
		rv := args[0].(structure)[0].(rvalue)
		switch v := rv.it.v.(type) {
		case []value:
			return len(v)
		case string:
			return len(v)
		case sstring:
			return len(v)
		case array:
			return len(v)
		case *smap:
			if v == nil {
				return 0
			}
			return v.len()
		}
		panic(unsupported{"reflect.Value.Len of " + rv.it.t.String()})
	})
}

// rvalue is the payload of a modelled reflect.Value.
type rvalue struct {
	it   iface
	addr *value // the cell, when the value is addressable
}

var rtypeIface = types.NewNamed(types.NewTypeName(0, nil, "gosym.rtype", nil), types.NewStruct(nil, nil), nil)

func reflectKind(t types.Type) int {
	switch u := t.Underlying().(type) {
	case *types.Basic:
		switch u.Kind() {
		case types.Bool:
			return 1
		case types.Int:
			return 2
		case types.Int8:
			return 3
		case types.Int16:
			return 4
		case types.Int32:
			return 5
		case types.Int64:
			return 6
		case types.Uint:
			return 7
		case types.Uint8:
			return 8
		case types.Uint16:
			return 9
		case types.Uint32:
			return 10
		case types.Uint64:
			return 11
		case types.Uintptr:
			return 12
		case types.Float32:
			return 13
		case types.Float64:
			return 14
		case types.Complex64:
			return 15
		case types.Complex128:
			return 16
		case types.String:
			return 24
		case types.UnsafePointer:
			return 26
		}
	case *types.Array:
		return 17
	case *types.Chan:
		return 18
	case *types.Signature:
		return 19
	case *types.Interface:
		return 20
	case *types.Map:
		return 21
	case *types.Pointer:
		return 22
	case *types.Slice:
		return 23
	case *types.Struct:
		return 25
	}
	return 0
}

func rtypeCall(i *Interp, name string, args []value) value {
	rt := args[0].(rtype)
	if v, ok := rtypeCallMore(i, name, rt, args); ok {
		return v
	}
	switch name {
	case "String":
		return types.TypeString(rt.t, func(p *types.Package) string { return p.Name() })
	case "Name":
		if n, ok := rt.t.(*types.Named); ok {
			return n.Obj().Name()
		}
		if b, ok := rt.t.(*types.Basic); ok {
			return b.Name()
		}
		return ""
	case "Kind":
		return uint(reflectKind(rt.t))
	case "Comparable":
		return types.Comparable(rt.t)
	case "PkgPath":
		if n, ok := rt.t.(*types.Named); ok && n.Obj().Pkg() != nil {
			return n.Obj().Pkg().Path()
		}
		return ""
	case "Elem":
		switch u := rt.t.Underlying().(type) {
		case *types.Pointer:
			return iface{t: rtypeIface, v: rtype{u.Elem()}}
		case *types.Slice:
			return iface{t: rtypeIface, v: rtype{u.Elem()}}
		case *types.Array:
			return iface{t: rtypeIface, v: rtype{u.Elem()}}
		case *types.Map:
			return iface{t: rtypeIface, v: rtype{u.Elem()}}
		}
	}
	panic(unsupported{"reflect.Type." + name})
}

// ---------------------------------------------------------------------

func (i *Interp) errorsIs(fr *frame, err, target iface) value {
	if err.t == nil || target.t == nil {
		return err.t == nil && target.t == nil
	}
	comparable := types.Comparable(target.t)
	var is func(err iface) bool
	is = func(err iface) bool {
		for {
			if comparable && types.Identical(err.t, target.t) {
				if i.truth(fr.equalsV(err.t, err.v, target.v), fr, "errors.Is") {
					return true
				}
			}
			if m := i.findMethod(err.t, "Is"); m != nil && m.Signature.Params().Len() == 1 {
				if i.truth(i.callFn(fr, m, err.v, target), fr, "errors.Is") {
					return true
				}
			}
			m := i.findMethod(err.t, "Unwrap")
			if m == nil {
				return false
			}
			res := i.callFn(fr, m, err.v)
			switch r := res.(type) {
			case iface:
				if r.t == nil {
					return false
				}
				err = r
			case []value:
				for _, e := range r {
					if e.(iface).t != nil && is(e.(iface)) {
						return true
					}
				}
				return false
			default:
				return false
			}
		}
	}
	return is(err)
}

func (i *Interp) errorsAs(fr *frame, err, target iface) value {
	if err.t == nil {
		return false
	}
	if target.t == nil {
		panic(i.rtPanic("errors: target cannot be nil"))
	}
	pt, ok := target.t.Underlying().(*types.Pointer)
	if !ok || isNilValue(target.v) {
		panic(i.rtPanic("errors: target must be a non-nil pointer"))
	}
	tt := pt.Elem()
	cell := target.v.(*value)
	var as func(err iface) bool
	as = func(err iface) bool {
		for {
			if it, ok := tt.Underlying().(*types.Interface); ok {
				if i.implements(err.t, it) {
					i.tr.store(cell, err)
					return true
				}
			} else if types.Identical(err.t, tt) {
				i.tr.store(cell, err.v)
				return true
			}
			if m := i.findMethod(err.t, "As"); m != nil && m.Signature.Params().Len() == 1 {
				if i.truth(i.callFn(fr, m, err.v, target), fr, "errors.As") {
					return true
				}
			}
			m := i.findMethod(err.t, "Unwrap")
			if m == nil {
				return false
			}
			res := i.callFn(fr, m, err.v)
			switch r := res.(type) {
			case iface:
				if r.t == nil {
					return false
				}
				err = r
			case []value:
				for _, e := range r {
					if e.(iface).t != nil && as(e.(iface)) {
						return true
					}
				}
				return false
			default:
				return false
			}
		}
	}
	return as(err)
}

// ---------------------------------------------------------------------
// formatting

// stringify renders an interface value the way %v does, returning a string
// value (possibly symbolic).
func (i *Interp) stringify(fr *frame, it iface) value {
	return i.format(fr, 'v', "", it)
}

func (i *Interp) callStr(fr *frame, m *ssa.Function, recv value) value {
	return i.callFn(fr, m, recv)
}

// format renders one operand under a verb with flags (flags without %).
func (i *Interp) format(fr *frame, verb rune, flags string, it iface) value {
	if it.t == nil {
		if verb == 'v' || verb == 's' {
			return "<nil>"
		}
		return "%!" + string(verb) + "(<nil>)"
	}
	spec := "%" + flags + string(verb)
	switch verb {
	case 'T':
		return types.TypeString(it.t, func(p *types.Package) string { return p.Name() })
	case 'v', 's', 'q':
		if !strings.Contains(flags, "#") {
			if _, isPtrNil := it.v.(*value); !(isPtrNil && it.v.(*value) == nil) {
				if m := i.findMethod(it.t, "Error"); m != nil && m.Signature.Params().Len() == 0 {
					return i.fmtString(fr, verb, flags, i.callStr(fr, m, it.v))
				}
				if m := i.findMethod(it.t, "String"); m != nil && m.Signature.Params().Len() == 0 && m.Signature.Results().Len() == 1 {
					return i.fmtString(fr, verb, flags, i.callStr(fr, m, it.v))
				}
			}
		}
	}
	switch v := it.v.(type) {
	case string:
		return fmt.Sprintf(spec, v)
	case sstring:
		return i.fmtString(fr, verb, flags, v)
	case bool, int, int8, int16, int32, int64, uint, uint8, uint16, uint32, uint64, uintptr, float32, float64, complex64, complex128:
		return fmt.Sprintf(spec, v)
	case *Term:
		if v.w == 0 {
			if i.decide(v, fr, "fmt") {
				return "true"
			}
			return "false"
		}
		if verb == 'd' || verb == 'v' {
			_, signed := intInfo(it.t)
			var digits value
			if signed {
				t64 := i.ts.SExt(v, 64)
				digits = i.callFn(fr, i.pkgFunc("strconv", "FormatInt"), i.fromTerm(t64, types.Typ[types.Int64]), 10)
			} else {
				t64 := i.ts.ZExt(v, 64)
				digits = i.callFn(fr, i.pkgFunc("strconv", "FormatUint"), i.fromTerm(t64, types.Typ[types.Uint64]), 10)
			}
			return i.padNumber(fr, digits, flags)
		}
		if verb == 'c' || verb == 'q' || verb == 'U' {
			r := i.intConv(v, it.t, types.Typ[types.Int32])
			s := i.runesToStr(fr, []value{r})
			if verb == 'c' {
				return s
			}
			if verb == 'q' {
				return i.callFn(fr, i.pkgFunc("strconv", "QuoteRune"), r)
			}
		}
		panic(unsupported{"fmt of symbolic integer with %" + string(verb)})
	case *value:
		if v == nil {
			return "<nil>"
		}
		if verb == 'v' || verb == 's' {
			if pt, ok := it.t.Underlying().(*types.Pointer); ok {
				if _, ok := pt.Elem().Underlying().(*types.Struct); ok {
					return strConcat("&", i.fmtAggregate(fr, flags, pt.Elem(), *v))
				}
			}
		}
		return "0xc000010000"
	case structure, array, []value, *smap:
		return i.fmtAggregate(fr, flags, it.t, it.v)
	case iface:
		return i.format(fr, verb, flags, v)
	case *ssa.Function, *closure:
		return "0x47b0c0"
	case rtype:
		return types.TypeString(v.t, func(p *types.Package) string { return p.Name() })
	}
	return fmt.Sprintf("%%!%c(%s)", verb, it.t)
}

// padNumber applies width / zero / left-align / sign flags to rendered digits
// (the string's length is concrete; its bytes may be symbolic).
func (i *Interp) padNumber(fr *frame, digits value, flags string) value {
	if flags == "" {
		return digits
	}
	zeroPad, left, plus, space := false, false, false, false
	p := 0
	for p < len(flags) && strings.IndexByte("+-# 0", flags[p]) >= 0 {
		switch flags[p] {
		case '0':
			zeroPad = true
		case '-':
			left = true
		case '+':
			plus = true
		case ' ':
			space = true
		}
		p++
	}
	width := 0
	if p < len(flags) {
		w, err := strconv.Atoi(flags[p:])
		if err != nil {
			panic(unsupported{"fmt flags " + flags + " on a symbolic integer"})
		}
		width = w
	}
	b := strBytes(digits)
	neg := false
	if len(b) > 0 {
		// the sign character is concrete or decided
		if i.truth(i.byteEq(b[0], uint8('-')), fr, "fmt-sign") {
			neg = true
			b = b[1:]
		}
	}
	sign := ""
	if neg {
		sign = "-"
	} else if plus {
		sign = "+"
	} else if space {
		sign = " "
	}
	pad := width - len(b) - len(sign)
	var out []value
	switch {
	case pad <= 0:
		out = append(strBytes(sign), b...)
	case left:
		out = append(append(strBytes(sign), b...), strBytes(strings.Repeat(" ", pad))...)
	case zeroPad:
		out = append(append(strBytes(sign), strBytes(strings.Repeat("0", pad))...), b...)
	default:
		out = append(append(strBytes(strings.Repeat(" ", pad)), strBytes(sign)...), b...)
	}
	return mkString(out)
}

func (i *Interp) fmtString(fr *frame, verb rune, flags string, s value) value {
	if cs, ok := s.(string); ok {
		if verb == 'v' || verb == 's' || verb == 'q' || verb == 'x' {
			return fmt.Sprintf("%"+flags+string(verb), cs)
		}
		return fmt.Sprintf("%%!%c(string=%s)", verb, cs)
	}
	switch verb {
	case 'v', 's':
		if flags != "" {
			panic(unsupported{"fmt flags on symbolic string"})
		}
		return s
	case 'q':
		return i.callFn(fr, i.pkgFunc("strconv", "Quote"), s)
	}
	panic(unsupported{"fmt of symbolic string with %" + string(verb)})
}

func (i *Interp) fmtAggregate(fr *frame, flags string, t types.Type, v value) value {
	plus := strings.Contains(flags, "+")
	var out value = ""
	add := func(s value) { out = strConcat(out, s) }
	switch u := t.Underlying().(type) {
	case *types.Struct:
		st := v.(structure)
		add("{")
		for k := range st {
			if k > 0 {
				add(" ")
			}
			if plus {
				add(u.Field(k).Name() + ":")
			}
			add(i.format(fr, 'v', flags, asIface(u.Field(k).Type(), st[k])))
		}
		add("}")
	case *types.Slice:
		sl := v.([]value)
		if k, _ := basicKind(u.Elem()); k == types.Uint8 && false {
			return mkString(sl)
		}
		add("[")
		for k := range sl {
			if k > 0 {
				add(" ")
			}
			add(i.format(fr, 'v', flags, asIface(u.Elem(), sl[k])))
		}
		add("]")
	case *types.Array:
		sl := v.(array)
		add("[")
		for k := range sl {
			if k > 0 {
				add(" ")
			}
			add(i.format(fr, 'v', flags, asIface(u.Elem(), sl[k])))
		}
		add("]")
	case *types.Map:
		m := v.(*smap)
		add("map[")
		if m != nil {
			// fmt sorts map keys
			type kv struct {
				k string
				p int
			}
			var kvs []kv
			for _, p := range m.order() {
				ks := i.format(fr, 'v', flags, asIface(u.Key(), m.keys[p]))
				kvs = append(kvs, kv{describeStr(ks), p})
			}
			sortKVs(kvs, func(a, b int) bool { return kvs[a].k < kvs[b].k }, func(a, b int) { kvs[a], kvs[b] = kvs[b], kvs[a] })
			for n, e := range kvs {
				if n > 0 {
					add(" ")
				}
				add(e.k + ":")
				add(i.format(fr, 'v', flags, asIface(u.Elem(), m.vals[e.p])))
			}
		}
		add("]")
	default:
		return fmt.Sprintf("<%s>", t)
	}
	return out
}

func sortKVs[T any](s []T, less func(a, b int) bool, swap func(a, b int)) {
	for a := 1; a < len(s); a++ {
		for b := a; b > 0 && less(b, b-1); b-- {
			swap(b, b-1)
		}
	}
}

func asIface(t types.Type, v value) iface {
	if _, ok := t.Underlying().(*types.Interface); ok {
		if it, ok := v.(iface); ok {
			return it
		}
	}
	return iface{t: t, v: v}
}

func (i *Interp) sprint(fr *frame, args []value, ln bool) value {
	var out value = ""
	prevString := true
	for k, a := range args {
		it := a.(iface)
		_, isStr := it.v.(string)
		if _, ok := it.v.(sstring); ok {
			isStr = true
		}
		if k > 0 && (ln || (!isStr && !prevString)) {
			out = strConcat(out, " ")
		}
		out = strConcat(out, i.format(fr, 'v', "", it))
		prevString = isStr
	}
	if ln {
		out = strConcat(out, "\n")
	}
	return out
}

func (i *Interp) sprintf(fr *frame, formatV value, args []value) value {
	format, ok := formatV.(string)
	if !ok {
		ss, isS := formatV.(sstring)
		if !isS {
			panic(unsupported{"symbolic format string"})
		}
		return i.sprintfSymbolic(fr, ss, args)
	}
	var out value = ""
	argn := 0
	for p := 0; p < len(format); {
		q := strings.IndexByte(format[p:], '%')
		if q < 0 {
			out = strConcat(out, format[p:])
			break
		}
		out = strConcat(out, format[p:p+q])
		p += q + 1
		if p >= len(format) {
			out = strConcat(out, "%!(NOVERB)")
			break
		}
		// flags, width, precision
		start := p
		for p < len(format) && strings.IndexByte("+-# 0", format[p]) >= 0 {
			p++
		}
		for p < len(format) && (format[p] >= '0' && format[p] <= '9' || format[p] == '*' || format[p] == '.' || format[p] == '[' || format[p] == ']') {
			p++
		}
		if p >= len(format) {
			out = strConcat(out, "%!(NOVERB)")
			break
		}
		flags := format[start:p]
		verb := rune(format[p])
		p++
		if verb == '%' {
			out = strConcat(out, "%")
			continue
		}
		// explicit argument index %[n]verb
		if lb := strings.IndexByte(flags, '['); lb >= 0 {
			rb := strings.IndexByte(flags, ']')
			if rb < lb {
				panic(unsupported{"fmt: malformed [n] in format " + strconv.Quote(format)})
			}
			n, err := strconv.Atoi(flags[lb+1 : rb])
			if err != nil || n < 1 {
				panic(unsupported{"fmt: malformed [n] in format " + strconv.Quote(format)})
			}
			argn = n - 1
			flags = flags[:lb] + flags[rb+1:]
		}
		if strings.ContainsAny(flags, "*[") {
			panic(unsupported{"fmt: * in format " + strconv.Quote(format)})
		}
		if argn >= len(args) {
			out = strConcat(out, "%!"+string(verb)+"(MISSING)")
			continue
		}
		it := args[argn].(iface)
		argn++
		if verb == 'w' {
			verb = 'v'
		}
		out = strConcat(out, i.format(fr, verb, flags, it))
	}
	if argn < len(args) {
		out = strConcat(out, "%!(EXTRA ")
		for k := argn; k < len(args); k++ {
			if k > argn {
				out = strConcat(out, ", ")
			}
			it := args[k].(iface)
			if it.t == nil {
				out = strConcat(out, "<nil>")
				continue
			}
			out = strConcat(out, types.TypeString(it.t, func(p *types.Package) string { return p.Name() })+"=")
			out = strConcat(out, i.format(fr, 'v', "", it))
		}
		out = strConcat(out, ")")
	}
	return out
}

// sprintfSymbolic handles a format string with symbolic bytes: every symbolic
// byte is decided to be '%' or not (forking); runs without a '%' are copied —
// staying symbolic —, and the directive after a '%' is made concrete (forking
// over its feasible characters) and formatted on its own by sprintf, with the
// arguments not yet consumed.
func (i *Interp) sprintfSymbolic(fr *frame, format sstring, args []value) value {
	var out value = ""
	argn := 0
	for p := 0; p < len(format); {
		b := format[p]
		isPct := false
		switch c := b.(type) {
		case uint8:
			isPct = c == '%'
		case *Term:
			isPct = i.decide(i.ts.Eq(c, i.ts.BV('%', 8)), fr, "fmt: '%' in format")
		}
		if !isPct {
			out = strConcat(out, sstring{b})
			p++
			continue
		}
		// the directive: '%' flags width precision verb — concrete from here on
		dir := []byte{'%'}
		p++
		for p < len(format) {
			var c byte
			switch x := format[p].(type) {
			case uint8:
				c = x
			case *Term:
				c = byte(i.concretize(x, 0, 255, fr))
			}
			dir = append(dir, c)
			p++
			if strings.IndexByte("+-# 0123456789.*[]", c) < 0 {
				break
			}
		}
		rest := args
		if argn < len(args) {
			rest = args[argn:]
		} else {
			rest = nil
		}
		// how many arguments the directive consumes: none for %% and for a dangling '%'
		consumed := 0
		last := dir[len(dir)-1]
		if len(dir) > 1 && last != '%' && strings.IndexByte("+-# 0123456789.*[]", last) < 0 && len(rest) > 0 {
			consumed = 1
		}
		piece := i.sprintf(fr, string(dir), rest[:consumed])
		out = strConcat(out, piece)
		argn += consumed
	}
	if argn < len(args) {
		out = strConcat(out, i.sprintf(fr, "", args[argn:]))
	}
	return out
}
