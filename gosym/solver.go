package main

// Solver: one long-lived SMT solver process per worker, driven through
// SMT-LIB2 text on stdin/stdout with push/pop.  Every path of the explorer is
// one (push)…(pop) scope; every feasibility query is a nested scope.

import (
	"bufio"
	"fmt"
	"io"
	"os"
	"os/exec"
	"strconv"
	"strings"
	"time"
)

type Verdict int

const (
	Unsat Verdict = iota
	Sat
	Unknown
)

func (v Verdict) String() string { return [...]string{"unsat", "sat", "unknown"}[v] }

type SolverStats struct {
	Sat, Unsat, Unknown int
	Errors              int
	Time                time.Duration
	Fallbacks           int
	Restarts            int
	Slow                int
}

type Solver struct {
	cmd     *exec.Cmd
	in      io.WriteCloser
	out     *bufio.Reader
	epoch   int
	script  []string // everything sent in the current path scope (for fallback solvers)
	stats   SolverStats
	timeout int // ms per query
	logf    *os.File
	dead    bool
	npaths  int
}

var solverArgs = map[string][]string{
	"z3":     {"z3", "-in"},
	"z3-new": {"z3-new", "-in"},
	"cvc5":   {"cvc5", "--incremental", "--produce-models", "--lang=smt2"},
}

func NewSolver(timeoutMs int) *Solver {
	s := &Solver{timeout: timeoutMs}
	s.start()
	return s
}

func (s *Solver) start() {
	args := solverArgs[envOr("GOSYM_SOLVER", "z3-new")]
	s.cmd = exec.Command(args[0], args[1:]...)
	in, _ := s.cmd.StdinPipe()
	out, _ := s.cmd.StdoutPipe()
	s.cmd.Stderr = os.Stderr
	if err := s.cmd.Start(); err != nil {
		panic(fmt.Sprintf("cannot start z3: %v", err))
	}
	s.in = in
	s.out = bufio.NewReaderSize(out, 1<<16)
	s.dead = false
	s.raw(fmt.Sprintf("(set-option :timeout %d)", s.timeout))
	s.raw("(set-option :produce-models true)")
	if p := os.Getenv("GOSYM_SMTLOG"); p != "" && s.logf == nil {
		s.logf, _ = os.Create(fmt.Sprintf("%s.%d", p, s.cmd.Process.Pid))
	}
}

func (s *Solver) Close() {
	if s.in != nil {
		s.in.Close()
	}
	if s.cmd != nil {
		s.cmd.Process.Kill()
		s.cmd.Wait()
	}
}

func (s *Solver) raw(line string) {
	if s.logf != nil {
		fmt.Fprintln(s.logf, line)
	}
	if _, err := io.WriteString(s.in, line+"\n"); err != nil {
		s.dead = true
	}
}

func (s *Solver) send(line string) {
	s.script = append(s.script, line)
	s.raw(line)
}

// BeginPath opens a fresh scope.
func (s *Solver) BeginPath() {
	// a long-lived z3 process does not give back the memory of popped scopes
	// (observed: 9 GB after some 100k paths): recycle it regularly
	s.npaths++
	if s.dead || s.npaths%300 == 0 {
		s.Close()
		s.start()
	}
	s.epoch++
	s.script = s.script[:0]
	s.raw("(push 1)")
}

func (s *Solver) EndPath() {
	s.raw("(pop 1)")
}

// define makes sure t and everything below it is defined in the current scope.
func (s *Solver) define(t *Term) {
	if t == nil || t.emitted == s.epoch || t.op == OpConst {
		return
	}
	// iterative post-order to avoid deep recursion
	type fr struct {
		t *Term
		k int
	}
	stack := []fr{{t, 0}}
	for len(stack) > 0 {
		top := &stack[len(stack)-1]
		n := top.t
		if n.emitted == s.epoch || n.op == OpConst {
			stack = stack[:len(stack)-1]
			continue
		}
		var ch *Term
		switch top.k {
		case 0:
			ch = n.a
		case 1:
			ch = n.b
		case 2:
			ch = n.c
		}
		if top.k < 3 {
			top.k++
			if ch != nil && ch.emitted != s.epoch && ch.op != OpConst {
				stack = append(stack, fr{ch, 0})
			}
			continue
		}
		n.emitted = s.epoch
		if n.op == OpVar {
			s.send(fmt.Sprintf("(declare-const %s %s)", n.name, sortStr(n.w)))
		} else {
			s.send(fmt.Sprintf("(define-fun t%d () %s %s)", n.id, sortStr(n.w), n.body()))
		}
		stack = stack[:len(stack)-1]
	}
}

func (s *Solver) Assert(t *Term) {
	if t.IsTrue() {
		return
	}
	s.define(t)
	s.send("(assert " + t.ref() + ")")
}

func (s *Solver) readLine() (string, error) {
	line, err := s.out.ReadString('\n')
	return strings.TrimSpace(line), err
}

// Check decides pc ∧ extra (extra may be nil).  With wantModel, on sat the
// values of vars are returned.
func (s *Solver) Check(extra *Term, vars []*Term) (Verdict, map[string]uint64) {
	if extra != nil && extra.IsFalse() {
		return Unsat, nil
	}
	t0 := time.Now()
	defer func() {
		d := time.Since(t0)
		s.stats.Time += d
		if d > 2*time.Second {
			s.stats.Slow++
			if os.Getenv("GOSYM_SLOWQ") != "" && extra != nil {
				fmt.Fprintf(os.Stderr, "slow query %.1fs: %s\n", d.Seconds(), extra.String())
			}
		}
	}()
	if extra != nil {
		s.define(extra)
	}
	for _, v := range vars {
		s.define(v)
	}
	s.raw("(push 1)")
	if extra != nil && !extra.IsTrue() {
		s.raw("(assert " + extra.ref() + ")")
	}
	s.raw("(check-sat)")
	v := s.readVerdict()
	var model map[string]uint64
	if v == Sat && len(vars) > 0 {
		model = s.getValues(vars)
		if model == nil {
			v = Unknown
		}
	}
	if v == Unknown {
		// second and third opinions, from the recorded script
		if fv, fm := s.fallback(extra, vars); fv != Unknown {
			v, model = fv, fm
			s.stats.Fallbacks++
		}
		// a timeout or error can leave the solver's assertion stack in an
		// undefined state ("push canceled"): start a fresh process and replay
		// this path's script into it
		s.restartAndReplay()
	} else {
		s.raw("(pop 1)")
	}
	switch v {
	case Sat:
		s.stats.Sat++
	case Unsat:
		s.stats.Unsat++
	default:
		s.stats.Unknown++
	}
	return v, model
}

func (s *Solver) restartAndReplay() {
	s.Close()
	s.start()
	s.raw("(push 1)")
	for _, l := range s.script {
		s.raw(l)
	}
	s.stats.Restarts++
}

func (s *Solver) readVerdict() Verdict {
	for {
		line, err := s.readLine()
		if err != nil {
			s.dead = true
			s.stats.Errors++
			return Unknown
		}
		switch {
		case line == "sat":
			return Sat
		case line == "unsat":
			return Unsat
		case line == "unknown" || line == "timeout":
			return Unknown
		case strings.HasPrefix(line, "(error"):
			s.stats.Errors++
			fmt.Fprintf(os.Stderr, "solver error: %s\n", line)
			// the check-sat answer still follows; treat as inconclusive
			for {
				l2, err := s.readLine()
				if err != nil {
					s.dead = true
					return Unknown
				}
				if l2 == "sat" || l2 == "unsat" || l2 == "unknown" {
					return Unknown
				}
			}
		case line == "":
			continue
		}
	}
}

func (s *Solver) getValues(vars []*Term) map[string]uint64 {
	var sb strings.Builder
	sb.WriteString("(get-value (")
	for _, v := range vars {
		sb.WriteString(v.ref())
		sb.WriteByte(' ')
	}
	sb.WriteString("))")
	s.raw(sb.String())
	// read balanced s-expression
	depth := 0
	var text strings.Builder
	for {
		line, err := s.out.ReadString('\n')
		if err != nil {
			s.dead = true
			return nil
		}
		text.WriteString(line)
		for _, c := range line {
			if c == '(' {
				depth++
			} else if c == ')' {
				depth--
			}
		}
		if depth <= 0 && strings.TrimSpace(text.String()) != "" {
			break
		}
	}
	return parseValues(text.String())
}

func parseValues(txt string) map[string]uint64 {
	if strings.Contains(txt, "(error") {
		return nil
	}
	m := map[string]uint64{}
	// tokens: ( ( name value ) ( name value ) )
	txt = strings.ReplaceAll(txt, "(", " ( ")
	txt = strings.ReplaceAll(txt, ")", " ) ")
	f := strings.Fields(txt)
	for i := 0; i+2 < len(f); i++ {
		if f[i] == "(" && f[i+1] != "(" && f[i+1] != ")" {
			name := f[i+1]
			val := f[i+2]
			switch {
			case val == "true":
				m[name] = 1
			case val == "false":
				m[name] = 0
			case strings.HasPrefix(val, "#x"):
				u, _ := strconv.ParseUint(val[2:], 16, 64)
				m[name] = u
			case strings.HasPrefix(val, "#b"):
				u, _ := strconv.ParseUint(val[2:], 2, 64)
				m[name] = u
			case val == "(" && i+4 < len(f) && f[i+3] == "_" && strings.HasPrefix(f[i+4], "bv"):
				u, _ := strconv.ParseUint(f[i+4][2:], 10, 64)
				m[name] = u
			}
		}
	}
	return m
}

// fallback re-decides the current query on z3-new and cvc5 from the recorded
// script of this path (one-shot processes; only used after an unknown).
func (s *Solver) fallback(extra *Term, vars []*Term) (Verdict, map[string]uint64) {
	var sb strings.Builder
	sb.WriteString("(set-option :produce-models true)\n")
	for _, l := range s.script {
		sb.WriteString(l)
		sb.WriteByte('\n')
	}
	if extra != nil && !extra.IsTrue() {
		sb.WriteString("(assert " + extra.ref() + ")\n")
	}
	sb.WriteString("(check-sat)\n")
	if len(vars) > 0 {
		sb.WriteString("(get-value (")
		for _, v := range vars {
			sb.WriteString(v.ref() + " ")
		}
		sb.WriteString("))\n")
	}
	for _, name := range []string{"z3", "cvc5"} {
		args := solverArgs[name]
		var cmd *exec.Cmd
		if name == "cvc5" {
			cmd = exec.Command(args[0], append(args[1:], fmt.Sprintf("--tlimit=%d", s.timeout))...)
		} else {
			cmd = exec.Command(args[0], append(args[1:], fmt.Sprintf("-t:%d", s.timeout))...)
		}
		text := sb.String()
		if name == "cvc5" {
			text = "(set-logic QF_BV)\n" + text
		}
		cmd.Stdin = strings.NewReader(text)
		out, _ := cmd.Output()
		o := string(out)
		if strings.Contains(o, "(error") {
			continue
		}
		first := strings.TrimSpace(strings.SplitN(o, "\n", 2)[0])
		switch first {
		case "unsat":
			return Unsat, nil
		case "sat":
			if len(vars) == 0 {
				return Sat, nil
			}
			rest := strings.SplitN(o, "\n", 2)
			if len(rest) == 2 {
				if m := parseValues(rest[1]); m != nil {
					return Sat, m
				}
			}
		}
	}
	return Unknown, nil
}

// termScript returns declarations/definitions for everything below the roots,
// independent of any solver's scope bookkeeping.
func termScript(roots ...*Term) []string {
	var out []string
	seen := map[*Term]bool{}
	var visit func(t *Term)
	visit = func(t *Term) {
		if t == nil || seen[t] || t.op == OpConst {
			return
		}
		seen[t] = true
		visit(t.a)
		visit(t.b)
		visit(t.c)
		if t.op == OpVar {
			out = append(out, fmt.Sprintf("(declare-const %s %s)", t.name, sortStr(t.w)))
		} else {
			out = append(out, fmt.Sprintf("(define-fun t%d () %s %s)", t.id, sortStr(t.w), t.body()))
		}
	}
	for _, r := range roots {
		visit(r)
	}
	return out
}

// CheckStandalone decides the conjunction of the given terms in a scope of its
// own (nothing of the current path is visible).
func (s *Solver) CheckStandalone(terms ...*Term) Verdict {
	if s.dead {
		s.Close()
		s.start()
	}
	t0 := time.Now()
	defer func() { s.stats.Time += time.Since(t0) }()
	s.raw("(push 1)")
	for _, l := range termScript(terms...) {
		s.raw(l)
	}
	for _, t := range terms {
		s.raw("(assert " + t.ref() + ")")
	}
	s.raw("(check-sat)")
	v := s.readVerdict()
	if v == Unknown {
		s.Close()
		s.start()
	} else {
		s.raw("(pop 1)")
	}
	switch v {
	case Sat:
		s.stats.Sat++
	case Unsat:
		s.stats.Unsat++
	default:
		s.stats.Unknown++
	}
	return v
}
