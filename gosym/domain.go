package main

// Domain propagation: an exact local decision procedure for constraints that
// mention a single enumerable input (a byte, a bool, an int with a range of at
// most 256 values).  Every such term is evaluated for all candidate values at
// once; a condition that is true (false) for every value still in the input's
// domain is forced without a solver query, and when no multi-variable
// constraint mentions the input the domain is exact, so a mixed outcome means
// both branches are feasible.  Everything else goes to the SMT solver, and
// every asserted condition is still sent to it (models, multi-variable
// queries).  GOSYM_NODOMAIN=1 disables this pass (used by the self-check).

import "os"

type varInfo struct {
	vals      []uint64 // candidate values
	dom       [4]uint64
	entangled bool
}

type vec [256]uint64

var noDomain = os.Getenv("GOSYM_NODOMAIN") != ""

func (ex *pathExec) registerVar(v *Term, vals []uint64) {
	if noDomain {
		return
	}
	if ex.vinfo == nil {
		ex.vinfo = map[*Term]*varInfo{}
		ex.vecs = map[*Term]*vec{}
	}
	vi := &varInfo{vals: vals}
	for k := range vals {
		vi.dom[k>>6] |= 1 << (uint(k) & 63)
	}
	ex.vinfo[v] = vi
}

// vecEval evaluates a term with at most one variable for every candidate value.
func (i *Interp) vecEval(t *Term, vi *varInfo) *vec {
	ex := i.ex
	if r, ok := ex.vecs[t]; ok {
		return r
	}
	n := len(vi.vals)
	r := new(vec)
	switch t.op {
	case OpConst:
		// (every slot: the vector of a constant is shared by variables with domains of different sizes)
		for k := range r {
			r[k] = t.val
		}
	case OpVar:
		m := mask(t.w)
		if t.w == 0 {
			m = 1
		}
		for k := 0; k < n; k++ {
			r[k] = vi.vals[k] & m
		}
	default:
		var a, b, c *vec
		a = i.vecEval(t.a, vi)
		if t.b != nil {
			b = i.vecEval(t.b, vi)
		}
		if t.c != nil {
			c = i.vecEval(t.c, vi)
		}
		ts := i.ts
		for k := 0; k < n; k++ {
			switch t.op {
			case OpNot:
				r[k] = a[k] ^ 1
			case OpAnd:
				r[k] = a[k] & b[k]
			case OpOr:
				r[k] = a[k] | b[k]
			case OpIte:
				if a[k] == 1 {
					r[k] = b[k]
				} else {
					r[k] = c[k]
				}
			case OpEq:
				if a[k] == b[k] {
					r[k] = 1
				}
			case OpULT:
				if a[k] < b[k] {
					r[k] = 1
				}
			case OpULE:
				if a[k] <= b[k] {
					r[k] = 1
				}
			case OpSLT:
				if sext(a[k], t.a.w) < sext(b[k], t.a.w) {
					r[k] = 1
				}
			case OpSLE:
				if sext(a[k], t.a.w) <= sext(b[k], t.a.w) {
					r[k] = 1
				}
			case OpNeg:
				r[k] = (-a[k]) & mask(t.w)
			case OpBNot:
				r[k] = (^a[k]) & mask(t.w)
			case OpZExt:
				r[k] = a[k]
			case OpSExt:
				r[k] = uint64(sext(a[k], t.a.w)) & mask(t.w)
			case OpExtract:
				lo := uint8(t.val & 0xff)
				r[k] = (a[k] >> lo) & mask(t.w)
			case OpConcat:
				r[k] = a[k]<<t.b.w | b[k]
			default:
				v, ok := ts.binConst(t.op, t.w, a[k], b[k])
				if !ok {
					// division by zero: value irrelevant (guarded by a prior branch)
					v = 0
				}
				r[k] = v
			}
		}
	}
	ex.vecs[t] = r
	return r
}

// domCheck classifies condition c over the domain of its single variable:
// returns (nTrue, nFalse, exact, ok).
func (i *Interp) domCheck(c *Term) (int, int, bool, bool) {
	ex := i.ex
	if noDomain || ex.vinfo == nil || c.multi || c.sv == nil {
		return 0, 0, false, false
	}
	vi := ex.vinfo[c.sv]
	if vi == nil {
		return 0, 0, false, false
	}
	r := i.vecEval(c, vi)
	nt, nf := 0, 0
	for k := range vi.vals {
		if vi.dom[k>>6]&(1<<(uint(k)&63)) != 0 {
			if r[k] == 1 {
				nt++
			} else {
				nf++
			}
		}
	}
	return nt, nf, !vi.entangled, true
}

// addConstraint records a condition taken on this path: it is sent to the
// solver, and the domains are refined (or the variables marked entangled).
func (i *Interp) addConstraint(c *Term) {
	ex := i.ex
	i.worker.solver.Assert(c)
	ex.pc = append(ex.pc, c)
	if noDomain || ex.vinfo == nil {
		return
	}
	if !c.multi && c.sv != nil {
		if vi := ex.vinfo[c.sv]; vi != nil {
			r := i.vecEval(c, vi)
			for k := range vi.vals {
				if r[k] != 1 {
					vi.dom[k>>6] &^= 1 << (uint(k) & 63)
				}
			}
			return
		}
	}
	if c.multi {
		seen := map[*Term]bool{}
		vars := map[string]*Term{}
		c.vars(seen, vars)
		for _, v := range vars {
			if vi := ex.vinfo[v]; vi != nil {
				vi.entangled = true
			}
		}
	}
}

// domValues returns the distinct feasible values of a single-variable term,
// when the domain is exact.
func (i *Interp) domValues(t *Term) ([]int, bool) {
	ex := i.ex
	if noDomain || ex.vinfo == nil || t.multi || t.sv == nil {
		return nil, false
	}
	vi := ex.vinfo[t.sv]
	if vi == nil || vi.entangled {
		return nil, false
	}
	r := i.vecEval(t, vi)
	seen := map[int]bool{}
	var out []int
	for k := range vi.vals {
		if vi.dom[k>>6]&(1<<(uint(k)&63)) != 0 {
			v := int(sext(r[k], t.w))
			if !seen[v] {
				seen[v] = true
				out = append(out, v)
			}
		}
	}
	return out, true
}
