package main

// gosym — bounded symbolic execution of Go SSA with an SMT solver.
//
//   gosym check <property> <quick|thorough>   run every harness of a property
//   gosym run <harness-id> [tier]             run one harness (debugging)
//   gosym replay <file>                       replay a counterexample natively
//
// The program under analysis is /repo's current working tree (override with
// $GOSYM_REPO), loaded with go/packages and an overlay that injects the
// harnesses kept under /verif/harness.

import (
	"encoding/json"
	"fmt"
	"go/ast"
	"go/token"
	"go/types"
	"os"
	"path/filepath"
	"regexp"
	"runtime"
	"runtime/debug"
	"runtime/pprof"
	"sort"
	"strconv"
	"strings"
	"sync"
	"time"

	"golang.org/x/tools/go/packages"
	"golang.org/x/tools/go/ssa"
	"golang.org/x/tools/go/ssa/ssautil"
)

var (
	repoDir   = envOr("GOSYM_REPO", "/repo")
	verifDir  = envOr("GOSYM_VERIF", "/verif")
	modPath   = "github.com/nyaruka/goflow"
	tier      = "quick"
	nworkers  = runtime.NumCPU()
	startTime = time.Now()
)

func envOr(k, d string) string {
	if v := os.Getenv(k); v != "" {
		return v
	}
	return d
}

type harnessFile struct {
	pkgRel  string // e.g. "excellent"
	real    string
	virtual string
}

// findHarnessFiles lists /verif/harness/**.go and their virtual locations.
func findHarnessFiles() []harnessFile {
	var out []harnessFile
	root := filepath.Join(verifDir, "harness")
	filepath.Walk(root, func(p string, info os.FileInfo, err error) error {
		if err != nil || info.IsDir() || !strings.HasSuffix(p, ".go") {
			return nil
		}
		rel, _ := filepath.Rel(root, p)
		dir := filepath.Dir(rel)
		base := filepath.Base(rel)
		v := filepath.Join(repoDir, dir, "zz_verif_"+base)
		if dir == "zzverif" {
			v = filepath.Join(repoDir, dir, base)
		}
		out = append(out, harnessFile{pkgRel: dir, real: p, virtual: v})
		return nil
	})
	return out
}

type loaded struct {
	prog     *ssa.Program
	pkgs     []*ssa.Package
	harness  map[string]*ssa.Function // "VerifC12_Lossless" -> fn
	hpkg     map[string]string        // harness name -> package rel dir
	files    []harnessFile
	loadS    float64
	buildS   float64
	rootPkgs []*ssa.Package
	embeds   map[*ssa.Global][]byte
}

func loadProgram(prop string) *loaded { return loadProgramWith(prop, nil) }

// loadProgramFor loads the given harness packages (for the differential self-test).
func loadProgramFor(pkgs []string) *loaded { return loadProgramWith("", pkgs) }

func loadProgramWith(prop string, only []string) *loaded {
	t0 := time.Now()
	files := findHarnessFiles()
	overlay := map[string][]byte{}
	pkgSet := map[string]bool{"zzverif": true}
	for _, p := range only {
		pkgSet[p] = true
	}
	for _, f := range files {
		if only != nil {
			break
		}
		src, err := os.ReadFile(f.real)
		if err != nil {
			fatal("read %s: %v", f.real, err)
		}
		if f.pkgRel != "zzverif" {
			// only load packages that have harnesses for this property
			if prop != "" && !strings.Contains(string(src), "func Verif"+prop+"_") {
				// still overlay helper files of packages we load anyway (decided below)
				continue
			}
			pkgSet[f.pkgRel] = true
		}
	}
	for _, f := range files {
		if pkgSet[f.pkgRel] || strings.HasPrefix(filepath.Base(f.real), "helper") {
			src, _ := os.ReadFile(f.real)
			overlay[f.virtual] = src
		}
	}
	var patterns []string
	for p := range pkgSet {
		patterns = append(patterns, "./"+p)
	}
	sort.Strings(patterns)
	cfg := &packages.Config{
		Mode:    packages.LoadAllSyntax | packages.NeedEmbedFiles | packages.NeedEmbedPatterns,
		Dir:     repoDir,
		Overlay: overlay,
		Env:     append(os.Environ(), "GOFLAGS=-mod=mod", "GOPROXY=off", "GOSUMDB=off", "GOTOOLCHAIN=local"),
	}
	initial, err := packages.Load(cfg, patterns...)
	if err != nil {
		fatal("packages.Load: %v", err)
	}
	nerr := 0
	packages.Visit(initial, nil, func(p *packages.Package) {
		for _, e := range p.Errors {
			if nerr < 20 {
				fmt.Fprintf(os.Stderr, "load error: %s: %v\n", p.PkgPath, e)
			}
			nerr++
		}
	})
	if nerr > 0 {
		fatal("BUILD-FAILED: %d package errors (the working tree or a harness does not compile)", nerr)
	}
	t1 := time.Now()
	prog, _ := ssautil.AllPackages(initial, ssa.InstantiateGenerics|ssa.SanityCheckFunctions&0)
	prog.Build()
	t2 := time.Now()
	ld := &loaded{prog: prog, harness: map[string]*ssa.Function{}, hpkg: map[string]string{}, files: files, embeds: map[*ssa.Global][]byte{},
		loadS: t1.Sub(t0).Seconds(), buildS: t2.Sub(t1).Seconds()}
	// go:embed variables of type []byte / string
	packages.Visit(initial, nil, func(p *packages.Package) {
		if len(p.EmbedFiles) == 0 {
			return
		}
		sp := prog.Package(p.Types)
		if sp == nil {
			return
		}
		for _, file := range p.Syntax {
			for _, d := range file.Decls {
				gd, ok := d.(*ast.GenDecl)
				if !ok || gd.Tok != token.VAR {
					continue
				}
				for _, spec := range gd.Specs {
					vs := spec.(*ast.ValueSpec)
					doc := vs.Doc
					if doc == nil {
						doc = gd.Doc
					}
					if doc == nil || len(vs.Names) != 1 {
						continue
					}
					for _, c := range doc.List {
						if !strings.HasPrefix(c.Text, "//go:embed ") {
							continue
						}
						pat := strings.TrimSpace(strings.TrimPrefix(c.Text, "//go:embed "))
						dir := filepath.Dir(p.Fset.Position(file.Pos()).Filename)
						data, err := os.ReadFile(filepath.Join(dir, pat))
						if err != nil {
							continue
						}
						if g, ok := sp.Members[vs.Names[0].Name].(*ssa.Global); ok {
							ld.embeds[g] = data
						}
					}
				}
			}
		}
	})
	for _, ip := range initial {
		sp := prog.Package(ip.Types)
		if sp == nil {
			continue
		}
		ld.rootPkgs = append(ld.rootPkgs, sp)
		rel := strings.TrimPrefix(strings.TrimPrefix(ip.PkgPath, modPath), "/")
		for name, m := range sp.Members {
			if fn, ok := m.(*ssa.Function); ok && isHarnessName(name) {
				ld.harness[name] = fn
				ld.hpkg[name] = rel
			}
		}
	}
	return ld
}

func fatal(f string, a ...interface{}) {
	fmt.Fprintf(os.Stderr, f+"\n", a...)
	os.Exit(3)
}

// newWorker builds an interpreter with its own heap image and solver.
func newWorker(id int, sh *Shared, ld *loaded, e *Explorer) *Worker {
	in := &Interp{sh: sh, prog: ld.prog, globals: map[*ssa.Global]*value{}, initWarn: map[string]int{},
		funcsRun: map[*ssa.Function]struct{}{}, mapRange: map[string]int{}, infoCache: map[*ssa.Function]*fnInfo{}, methCache: map[methKey]*ssa.Function{}}
	w := &Worker{id: id, in: in, ex: e}
	in.worker = w
	for _, pkg := range ld.prog.AllPackages() {
		for _, m := range pkg.Members {
			if g, ok := m.(*ssa.Global); ok {
				cell := new(value)
				*cell = zero(deref(g.Type()))
				in.globals[g] = cell
			}
		}
	}
	for g, data := range ld.embeds {
		cell := in.globals[g]
		if _, isStr := deref(g.Type()).Underlying().(*types.Basic); isStr {
			*cell = string(data)
		} else if _, isSlice := deref(g.Type()).Underlying().(*types.Slice); isSlice {
			*cell = bytesValue(data)
		}
	}
	in.ts = NewTermStore()
	in.initMode = true
	in.budget = 1 << 62
	for _, p := range ld.rootPkgs {
		if f := p.Func("init"); f != nil {
			func() {
				defer func() {
					if r := recover(); r != nil {
						in.initWarn[fmt.Sprintf("init of %s aborted: %v", p.Pkg.Path(), short(r))]++
					}
				}()
				in.callSSA(nil, 0, f, nil, nil)
			}()
		}
	}
	for _, path := range forceInit {
		if p := ld.prog.ImportedPackage(path); p != nil {
			if f := p.Func("init"); f != nil {
				func() {
					defer func() {
						if r := recover(); r != nil {
							in.initWarn[fmt.Sprintf("init of %s aborted: %v", path, short(r))]++
						}
					}()
					in.callSSA(nil, 0, f, nil, nil)
				}()
			}
		}
	}
	in.initMode = false
	in.funcsRun = map[*ssa.Function]struct{}{}
	in.infoCache = map[*ssa.Function]*fnInfo{}
	return w
}

func short(r interface{}) string {
	s := fmt.Sprint(r)
	if tp, ok := r.(targetPanic); ok {
		s = "panic: " + describe(tp.v) + " at " + tp.where
	}
	if len(s) > 300 {
		s = s[:300]
	}
	return s
}

type tierCfg struct {
	timeout  time.Duration
	maxPaths int
	budget   int64
	queryMs  int
}

func cfgFor(t string) tierCfg {
	if d := os.Getenv("GOSYM_TIMEOUT_S"); d != "" {
		n, _ := strconv.Atoi(d)
		return tierCfg{timeout: time.Duration(n) * time.Second, maxPaths: 600000, budget: 100000000, queryMs: 20000}
	}
	if t == "thorough" {
		return tierCfg{timeout: 25 * time.Minute, maxPaths: 4000000, budget: 400000000, queryMs: 60000}
	}
	return tierCfg{timeout: 4 * time.Minute, maxPaths: 600000, budget: 50000000, queryMs: 8000}
}

func main() {
	if len(os.Args) < 2 {
		fatal("usage: gosym check <prop> <tier> | run <harness> [tier] | selftest")
	}
	if n := os.Getenv("GOSYM_WORKERS"); n != "" {
		nworkers, _ = strconv.Atoi(n)
	}
	debug.SetGCPercent(400)
	debug.SetMemoryLimit(28 << 30)
	if pf := os.Getenv("GOSYM_PROF"); pf != "" {
		f, _ := os.Create(pf)
		pprof.StartCPUProfile(f)
		defer pprof.StopCPUProfile()
	}
	switch os.Args[1] {
	case "check":
		if len(os.Args) < 3 {
			fatal("usage: gosym check <prop> [tier]")
		}
		if len(os.Args) > 3 {
			tier = os.Args[3]
		}
		if t := os.Getenv("VERIF_TIER"); t != "" && len(os.Args) <= 3 {
			tier = t
		}
		rc := checkProperty(os.Args[2], "")
		pprof.StopCPUProfile()
		cleanupWork()
		os.Exit(rc)
	case "run":
		if len(os.Args) > 3 {
			tier = os.Args[3]
		}
		name := os.Args[2]
		prop := strings.TrimPrefix(strings.SplitN(name, "_", 2)[0], "Verif")
		rc := checkProperty(prop, name)
		pprof.StopCPUProfile()
		cleanupWork()
		os.Exit(rc)
	case "selftest":
		rc := selftest()
		cleanupWork()
		os.Exit(rc)
	case "replay":
		rp := os.Args[2]
		out, detail := nativeReplayFile(rp)
		fmt.Printf("replay %s: %s %s\n", rp, out, detail)
		cleanupWork()
		if out == "fail" || out == "panic" || out == "hang" {
			os.Exit(1)
		}
	default:
		fatal("unknown command %s", os.Args[1])
	}
}

type knownFinding struct {
	ID       string `json:"id"`
	Property string `json:"property"`
	Status   string `json:"status"` // "known" or "fixed"
	What     string `json:"what"`
	Commit   string `json:"commit,omitempty"`
}

func loadKnown() map[string]knownFinding {
	out := map[string]knownFinding{}
	b, err := os.ReadFile(filepath.Join(verifDir, "known_findings.json"))
	if err != nil {
		return out
	}
	var doc struct {
		Findings []knownFinding `json:"findings"`
	}
	if err := json.Unmarshal(b, &doc); err != nil {
		fatal("known_findings.json: %v", err)
	}
	for _, f := range doc.Findings {
		out[f.ID] = f
	}
	return out
}

func checkProperty(prop, only string) int {
	cfg := cfgFor(tier)
	ld := loadProgram(prop)
	var names []string
	for n := range ld.harness {
		if strings.HasPrefix(n, "Verif"+prop+"_") && (only == "" || n == only) {
			names = append(names, n)
		}
	}
	sort.Strings(names)
	if len(names) == 0 {
		fatal("no harness for property %s", prop)
	}
	sh := NewShared(ld.prog)
	e := &Explorer{sh: sh, pathTimeout: 60 * time.Second}
	if tier == "thorough" {
		e.pathTimeout = 300 * time.Second
	}
	e.cond = sync.NewCond(&e.mu)
	t0 := time.Now()
	ws := make([]*Worker, nworkers)
	var wg sync.WaitGroup
	for k := range ws {
		wg.Add(1)
		go func(k int) {
			defer wg.Done()
			ws[k] = newWorker(k, sh, ld, e)
			ws[k].solver = NewSolver(cfg.queryMs)
			ws[k].xsolver = NewSolver(4000)
			ws[k].crossEvery = 97
			if tier == "thorough" {
				ws[k].crossEvery = 13
			}
		}(k)
	}
	wg.Wait()
	e.workers = ws
	initS := time.Since(t0).Seconds()
	defer func() {
		for _, w := range ws {
			w.solver.Close()
			w.xsolver.Close()
		}
	}()
	if os.Getenv("GOSYM_VERBOSE") != "" {
		for w, n := range ws[0].in.initWarn {
			fmt.Fprintf(os.Stderr, "init warning: %s (x%d)\n", w, n)
		}
	}
	fmt.Fprintf(os.Stderr, "gosym: loaded %d packages in %.1fs, SSA %.1fs, init %.1fs, %d workers, tier %s\n",
		len(ld.prog.AllPackages()), ld.loadS, ld.buildS, initS, nworkers, tier)

	known := loadKnown()
	var results []*HarnessResult
	perH := cfg.timeout / time.Duration(len(names))
	if perH < 120*time.Second && os.Getenv("GOSYM_TIMEOUT_S") == "" {
		perH = 120 * time.Second
	}
	for _, n := range names {
		h := &Harness{ID: n, Prop: prop, Fn: ld.harness[n], Unwind: 64, MaxPaths: cfg.maxPaths, Budget: cfg.budget, HangIsViolation: harnessComment(ld, n, "// hang: violation")}
		r := e.Explore(h, perH)
		results = append(results, r)
		fmt.Fprintf(os.Stderr, "gosym: %s: paths %v covers %v wall %.1fs\n", n, r.Paths, r.Covers, r.WallS)
		for _, inc := range r.Incomplete {
			fmt.Fprintf(os.Stderr, "gosym:   incomplete: %s\n", inc)
		}
	}
	return report(prop, ld, ws, results, known, time.Since(startTime).Seconds())
}

// expectedCovers reads "// cover: a, b, c" lines from harness sources.
func expectedCovers(ld *loaded, harness string) []string {
	var out []string
	for _, f := range ld.files {
		src, err := os.ReadFile(f.real)
		if err != nil {
			continue
		}
		s := string(src)
		idx := strings.Index(s, "func "+harness+"(")
		if idx < 0 {
			continue
		}
		// comment block immediately above the function
		head := s[:idx]
		lines := strings.Split(strings.TrimRight(head, "\n"), "\n")
		for k := len(lines) - 1; k >= 0; k-- {
			l := strings.TrimSpace(lines[k])
			if !strings.HasPrefix(l, "//") {
				break
			}
			if strings.HasPrefix(l, "// cover-thorough:") && tier == "thorough" {
				l = "// cover:" + strings.TrimPrefix(l, "// cover-thorough:")
			}
			if strings.HasPrefix(l, "// cover:") {
				for _, c := range strings.Split(strings.TrimPrefix(l, "// cover:"), ",") {
					if c = strings.TrimSpace(c); c != "" {
						out = append(out, c)
					}
				}
			}
		}
	}
	return out
}

// harnessComment reports whether the comment block above the harness contains the line.
func harnessComment(ld *loaded, harness, line string) bool {
	for _, f := range ld.files {
		src, err := os.ReadFile(f.real)
		if err != nil {
			continue
		}
		s := string(src)
		idx := strings.Index(s, "func "+harness+"(")
		if idx < 0 {
			continue
		}
		lines := strings.Split(strings.TrimRight(s[:idx], "\n"), "\n")
		for k := len(lines) - 1; k >= 0; k-- {
			l := strings.TrimSpace(lines[k])
			if !strings.HasPrefix(l, "//") {
				break
			}
			if l == line {
				return true
			}
		}
	}
	return false
}

func report(prop string, ld *loaded, ws []*Worker, results []*HarnessResult, known map[string]knownFinding, wall float64) int {
	exit := 0
	var violations []*Failure
	knownHit := map[string]*Failure{}
	confirmedPer := map[string]int{}
	hangsTried := map[string]int{}
	unconfirmed := 0
	replayed := 0
	incomplete := false
	vacuous := []string{}
	unreached := []string{}
	defer func() { lastUnreached = nil }()
	totalPaths := map[string]int{}
	nontrivial := 0
	var samples []interface{}
	var stats SolverStats
	for _, w := range ws {
		st := w.solver.stats
		stats.Sat += st.Sat
		stats.Unsat += st.Unsat
		stats.Unknown += st.Unknown
		stats.Errors += st.Errors
		stats.Time += st.Time
		stats.Fallbacks += st.Fallbacks
	}
	os.MkdirAll(filepath.Join(verifDir, "replays", prop), 0o755)
	for _, r := range results {
		for k, v := range r.Paths {
			totalPaths[k] += v
		}
		nontrivial += r.NontrivPath
		if r.Truncated || r.Paths["unwind"]+r.Paths["unsupported"]+r.Paths["undecided"] > 0 {
			incomplete = true
		}
		for _, c := range expectedCovers(ld, r.Harness) {
			if r.Covers[c] == 0 {
				if r.Truncated {
					// the exploration hit its budget: the situation may lie in the unexplored part
					unreached = append(unreached, r.Harness+":"+c)
				} else {
					vacuous = append(vacuous, r.Harness+":"+c)
				}
			}
		}
		for _, s := range r.Samples {
			if len(samples) < 8 {
				samples = append(samples, map[string]interface{}{"harness": r.Harness, "case": s})
			}
		}
		for _, n := range r.Notes {
			if len(samples) < 14 {
				samples = append(samples, map[string]interface{}{"harness": r.Harness, "note": n})
			}
		}
		for n, f := range r.Failures {
			if kf, ok := known[f.Known]; ok && kf.Status == "known" && kf.Property == prop {
				if knownHit[f.Known] == nil {
					knownHit[f.Known] = f
				}
				continue
			}
			// a new violation: confirm natively (at most 3 per harness; one candidate hang, which costs 120 s)
			if confirmedPer[r.Harness] >= 3 || (f.Kind == "hang" && hangsTried[r.Harness] >= 1) {
				continue
			}
			if f.Kind == "hang" {
				hangsTried[r.Harness]++
			}
			rp := filepath.Join(verifDir, "replays", prop, fmt.Sprintf("%s-%d.json", r.Harness, n))
			writeReplay(rp, f)
			f.Replay = rp
			out, detail := nativeReplay(ld, f, rp)
			replayed++
			f.Repro = out + " " + detail
			if confirms(f, out, detail) {
				violations = append(violations, f)
				confirmedPer[r.Harness]++
			} else if f.Kind == "hang" && (out == "pass" || out == "assume") {
				// the native run finished: the executor's budget was too small for this path, not a hang
				incomplete = true
				fmt.Fprintf(os.Stderr, "gosym: candidate hang of %s finishes natively (%s): budget exhaustion, counted as incomplete\n", r.Harness, f.Msg)
			} else {
				unconfirmed++
				fmt.Fprintf(os.Stderr, "gosym: UNCONFIRMED counterexample for %s (%s) at %s [%s]: native outcome %s %s — encoder or stub defect\n", r.Harness, f.Msg, f.Where, f.Stack, out, detail)
			}
		}
	}
	// confirm each known finding natively too (once), so that the line is only
	// printed for findings that really still manifest
	var knownLines []string
	ids := make([]string, 0, len(knownHit))
	for id := range knownHit {
		ids = append(ids, id)
	}
	sort.Strings(ids)
	for _, id := range ids {
		f := knownHit[id]
		rp := filepath.Join(verifDir, "replays", prop, "known-"+id+".json")
		writeReplay(rp, f)
		out, detail := nativeReplay(ld, f, rp)
		replayed++
		if confirms(f, out, detail) {
			knownLines = append(knownLines, fmt.Sprintf("KNOWN-FINDING: property=%s %s: %s [%s; e.g. %s]", prop, id, known[id].What, f.Msg, strings.Join(renderInputs(f.Inputs), " ")))
		} else {
			unconfirmed++
			fmt.Fprintf(os.Stderr, "gosym: known finding %s did not reproduce natively (%s %s)\n", id, out, detail)
		}
	}
	for _, l := range knownLines {
		fmt.Println(l)
	}
	for _, f := range violations {
		fmt.Printf("VIOLATION property=%s replay=%s\n", prop, f.Replay)
		fmt.Printf("  harness=%s kind=%s msg=%q where=%s inputs=%s native=%s\n", f.Harness, f.Kind, f.Msg, f.Where, strings.Join(renderInputs(f.Inputs), " "), f.Repro)
		if f.Kind == "panic" && f.Stack != "" {
			fmt.Printf("  stack=%s\n", f.Stack)
		}
		exit = 1
	}
	if len(vacuous) > 0 {
		fmt.Printf("VACUOUS property=%s missing reachability witnesses: %s\n", prop, strings.Join(vacuous, ", "))
		if exit == 0 {
			exit = 2
		}
	}
	if unconfirmed > 0 && exit == 0 {
		fmt.Printf("INCONSISTENT property=%s %d counterexample(s) did not reproduce natively (encoder/stub defect; not a verdict)\n", prop, unconfirmed)
		exit = 2
	}
	if os.Getenv("GOSYM_NOSAMPLES") == "" {
		nchecked, bad := nativeSamples(prop, ld, results)
		replayed += nchecked
		fmt.Fprintf(os.Stderr, "gosym: %d symbolically passing sample path(s) replayed natively, %d disagree\n", nchecked, len(bad))
		for _, b := range bad {
			fmt.Fprintf(os.Stderr, "gosym: %s\n", b)
		}
		if len(bad) > 0 && exit == 0 {
			fmt.Printf("INCONSISTENT property=%s %d of %d symbolically passing sample path(s) do not pass natively (encoder, stub or harness defect; not a verdict)\n", prop, len(bad), nchecked)
			exit = 2
		}
	}
	if incomplete {
		fmt.Printf("INCOMPLETE property=%s unwind=%d unsupported=%d undecided=%d truncated=%v\n", prop, totalPaths["unwind"], totalPaths["unsupported"], totalPaths["undecided"], anyTruncated(results))
		if len(unreached) > 0 {
			fmt.Printf("INCOMPLETE property=%s situations not reached before the budget ran out: %s\n", prop, strings.Join(unreached, ", "))
		}
	}
	lastUnreached = unreached
	writeEvidence(prop, ld, ws, results, stats, totalPaths, nontrivial, samples, violations, knownLines, incomplete, vacuous, replayed, wall)
	if exit == 0 {
		fmt.Printf("OK property=%s tier=%s harnesses=%d paths=%d queries=%d (sat %d, unsat %d, unknown %d) solver=%.1fs wall=%.1fs\n",
			prop, tier, len(results), sumPaths(totalPaths), stats.Sat+stats.Unsat+stats.Unknown, stats.Sat, stats.Unsat, stats.Unknown, stats.Time.Seconds(), time.Since(startTime).Seconds())
	}
	return exit
}

func anyTruncated(rs []*HarnessResult) bool {
	for _, r := range rs {
		if r.Truncated {
			return true
		}
	}
	return false
}

func sumPaths(m map[string]int) int {
	n := 0
	for k, v := range m {
		if k != "pass_with_unknown_branch" {
			n += v
		}
	}
	return n
}

// confirms reports whether the native outcome reproduces the failure found
// symbolically: the same assertion message for an assertion (the race
// detector's report for a lock discipline finding), a panic for a panic.
func confirms(f *Failure, out, detail string) bool {
	switch out {
	case "hang":
		return f.Kind == "hang"
	case "panic":
		return f.Kind == "panic"
	case "fail":
		if strings.HasPrefix(detail, "data race") {
			return strings.HasPrefix(f.Harness, "VerifC09_")
		}
		return f.Kind != "panic" && strings.TrimSpace(detail) == strings.TrimSpace(f.Msg)
	}
	return false
}

// nativeSamples replays one symbolically passing path per harness natively
// (one test run per package) and returns the harnesses whose path does not
// pass there: the native build and the encoding disagree, or the harness does
// not work natively (and could then not confirm a counterexample either).
func nativeSamples(prop string, ld *loaded, results []*HarnessResult) (checked int, bad []string) {
	byPkg := map[string][]*HarnessResult{}
	for _, r := range results {
		if len(r.rawSamples) > 0 {
			byPkg[ld.hpkg[r.Harness]] = append(byPkg[ld.hpkg[r.Harness]], r)
		}
	}
	pkgs := make([]string, 0, len(byPkg))
	for p := range byPkg {
		pkgs = append(pkgs, p)
	}
	sort.Strings(pkgs)
	for _, pkgRel := range pkgs {
		var names []string
		for n, p := range ld.hpkg {
			if p == pkgRel {
				names = append(names, n)
			}
		}
		var paths, owners []string
		for _, r := range byPkg[pkgRel] {
			for k, smp := range r.rawSamples {
				rp := filepath.Join(verifDir, "replays", prop, fmt.Sprintf("sample-%s-%d.json", r.Harness, k))
				writeReplay(rp, &Failure{Harness: r.Harness, Inputs: smp, Kind: "sample"})
				paths = append(paths, rp)
				owners = append(owners, r.Harness)
			}
		}
		outs := runNativeMany(ld.files, pkgRel, names, paths)
		for k, o := range outs {
			checked++
			if o != "pass" && !strings.HasPrefix(o, "pass ") {
				bad = append(bad, fmt.Sprintf("%s: a path that passes symbolically gives natively: %s (replay %s)", owners[k], o, paths[k]))
			}
		}
	}
	return
}

var lastUnreached []string

func writeReplay(path string, f *Failure) {
	doc := map[string]interface{}{"harness": f.Harness, "inputs": f.Inputs, "msg": f.Msg, "where": f.Where, "kind": f.Kind, "thorough": tier == "thorough"}
	b, _ := json.MarshalIndent(doc, "", " ")
	os.WriteFile(path, b, 0o644)
}

func writeEvidence(prop string, ld *loaded, ws []*Worker, results []*HarnessResult, stats SolverStats, paths map[string]int, nontrivial int,
	samples []interface{}, violations []*Failure, knownLines []string, incomplete bool, vacuous []string, replayed int, wall float64) {
	if os.Getenv("GOSYM_NOEVIDENCE") != "" {
		return // (runs against a seeded scratch tree must not overwrite the evidence of the real tree)
	}
	funcs := map[string]int{}
	intr := map[string]bool{}
	nfuncs := 0
	seen := map[*ssa.Function]bool{}
	mapRanges := map[string]int{}
	for _, w := range ws {
		for f := range w.in.funcsRun {
			if seen[f] {
				continue
			}
			seen[f] = true
			nfuncs++
			pk := "(synthetic)"
			if f.Pkg != nil {
				pk = f.Pkg.Pkg.Path()
			} else if f.Origin() != nil && f.Origin().Pkg != nil {
				pk = f.Origin().Pkg.Pkg.Path()
			}
			funcs[pk]++
			if _, ok := intrinsics[f.String()]; ok {
				intr[f.String()] = true
			}
		}
		for k, v := range w.in.mapRange {
			mapRanges[k] += v
		}
	}
	var goflowFuncs []string
	for f := range seen {
		pk := ""
		if f.Pkg != nil {
			pk = f.Pkg.Pkg.Path()
		}
		if strings.HasPrefix(pk, modPath) && !strings.HasSuffix(pk, "zzverif") && !strings.HasPrefix(f.Name(), "Verif") {
			goflowFuncs = append(goflowFuncs, f.String())
		}
	}
	sort.Strings(goflowFuncs)
	if len(goflowFuncs) > 400 {
		goflowFuncs = append(goflowFuncs[:400], fmt.Sprintf("… %d more", len(goflowFuncs)-400))
	}
	var intrList []string
	for k := range intr {
		intrList = append(intrList, k)
	}
	sort.Strings(intrList)
	if len(samples) == 0 {
		samples = append(samples, "no symbolic inputs on completed paths")
	}
	hres := []interface{}{}
	for _, r := range results {
		hres = append(hres, r)
	}
	queries := stats.Sat + stats.Unsat + stats.Unknown
	domDec, crossChecked, crossMismatch, decisions := 0, 0, 0, 0
	for _, w := range ws {
		domDec += w.domDecisions
		crossChecked += w.crossChecked
		crossMismatch += w.crossMismatch
		decisions += w.decisions
	}
	cov := map[string]interface{}{
		"evaluations":                          queries + domDec + sumPaths(paths),
		"distinct_nontrivial":                  nontrivial,
		"rule":                                 "evaluations = paths executed symbolically (states) + decisions discharged about symbolic conditions along them (branch feasibility, run-time panic obligations, assertions): by the SMT solver (decided_by_smt_solver) or, for conditions over a single byte-sized input, by exhaustive evaluation over its 256-value domain (decided_by_byte_domain_pass; a sample is re-decided by the solver); transitions = decisions taken along all paths (incl. forks over harness choices); distinct_nontrivial = completed (pass/fail) paths that depend on at least one harness input — each is a distinct sequence of decisions, i.e. a distinct equivalence class of inputs (a distinct program shape / operand region), decided for all its members at once; infeasible and aborted paths are not counted",
		"states":                               sumPaths(paths),
		"transitions":                          decisions + 1,
		"decided_by_smt_solver":                queries,
		"decided_by_byte_domain_pass":          domDec,
		"domain_verdicts_rechecked_by_solver":  crossChecked,
		"domain_solver_disagreements":          crossMismatch,
		"traces_validated_against_impl":        replayed,
		"samples":                              samples,
		"exhaustive":                           !incomplete && len(vacuous) == 0,
		"paths":                                paths,
		"queries":                              map[string]int{"sat": stats.Sat, "unsat": stats.Unsat, "unknown": stats.Unknown, "solver_errors": stats.Errors, "fallback_decided": stats.Fallbacks},
		"solver_s":                             stats.Time.Seconds(),
		"solver":                               "z3 5.1.0 (z3-new -in, push/pop), unknowns retried on z3 4.8.12 and cvc5 1.0",
		"functions_encoded":                    nfuncs,
		"functions_by_package":                 funcs,
		"goflow_functions":                     goflowFuncs,
		"intrinsics_hit":                       intrList,
		"harnesses":                            hres,
		"known_findings":                       knownLines,
		"vacuous":                              vacuous,
		"situations_not_reached_within_budget": lastUnreached,
		"map_ranges":                           mapRanges,
		"load_s":                               ld.loadS,
		"ssa_build_s":                          ld.buildS,
	}
	seed, _ := strconv.Atoi(os.Getenv("VERIF_SEED"))
	ev := map[string]interface{}{
		"property_id": prop,
		"tier":        tier,
		"seed":        seed,
		"level":       "model_checking",
		"coverage":    cov,
		"assumptions": assumptionsFor(prop, intrList),
		"wall_s":      wall,
		"violations":  len(violations),
	}
	b, _ := json.MarshalIndent(ev, "", " ")
	os.MkdirAll(filepath.Join(verifDir, "evidence"), 0o755)
	if err := os.WriteFile(filepath.Join(verifDir, "evidence", prop+".json"), b, 0o644); err != nil {
		fmt.Fprintf(os.Stderr, "cannot write evidence: %v\n", err)
	}
}

func assumptionsFor(prop string, intr []string) []string {
	out := []string{
		"bounded: only the input sizes, unwinding bounds and value ranges stated in the harness sources (/verif/harness) are covered; see DESIGN.md section 5 for this property",
		"the Go semantics implemented by gosym (SSA interpreter with bit-vector integers, concrete pointers/lengths/dynamic types) is trusted; validated by the concrete differential self-test and native replay of every counterexample",
		"functions without SSA bodies and cut library entry points run as host intrinsics (listed under coverage.intrinsics_hit)",
	}
	b, err := os.ReadFile(filepath.Join(verifDir, "harness", "ASSUMPTIONS.json"))
	if err == nil {
		var m map[string][]string
		if json.Unmarshal(b, &m) == nil {
			out = append(out, m[prop]...)
		}
	}
	return out
}

var _ = types.Typ

var harnessNameRe = regexp.MustCompile(`^Verif(C[0-9]+|Selftest|Diff)_`)

func isHarnessName(n string) bool { return harnessNameRe.MatchString(n) }
