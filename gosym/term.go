package main

// Terms: a hash-consed DAG of SMT expressions over Bool and fixed-width
// bit-vectors, with local simplification.  One store per worker (no locks).

import (
	"fmt"
	"strings"
)

type Op uint8

const (
	OpConst Op = iota
	OpVar
	OpNot
	OpAnd
	OpOr
	OpIte
	OpEq
	OpAdd
	OpSub
	OpMul
	OpUDiv
	OpURem
	OpSDiv
	OpSRem
	OpBAnd
	OpBOr
	OpBXor
	OpShl
	OpLShr
	OpAShr
	OpNeg
	OpBNot
	OpULT
	OpULE
	OpSLT
	OpSLE
	OpZExt    // val = extra bits
	OpSExt    // val = extra bits
	OpExtract // val = hi<<8|lo
	OpConcat
)

var opNames = [...]string{"const", "var", "not", "and", "or", "ite", "=", "bvadd", "bvsub", "bvmul", "bvudiv", "bvurem", "bvsdiv", "bvsrem",
	"bvand", "bvor", "bvxor", "bvshl", "bvlshr", "bvashr", "bvneg", "bvnot", "bvult", "bvule", "bvslt", "bvsle", "zero_extend", "sign_extend", "extract", "concat"}

// Term is an SMT term.  w==0 means Bool, else a bit-vector of width w.
type Term struct {
	op      Op
	w       uint8
	a, b, c *Term
	val     uint64
	name    string
	id      int
	emitted int   // solver epoch in which this node was defined
	sv      *Term // the only variable below this node (nil: none or several)
	multi   bool  // several variables below this node
}

type termKey struct {
	op      Op
	w       uint8
	a, b, c *Term
	val     uint64
	name    string
}

type TermStore struct {
	tab    map[termKey]*Term
	nextID int
	tt, ff *Term
}

func NewTermStore() *TermStore {
	s := &TermStore{tab: make(map[termKey]*Term)}
	s.tt = s.mk(termKey{op: OpConst, w: 0, val: 1})
	s.ff = s.mk(termKey{op: OpConst, w: 0, val: 0})
	return s
}

func (s *TermStore) mk(k termKey) *Term {
	if t, ok := s.tab[k]; ok {
		return t
	}
	s.nextID++
	t := &Term{op: k.op, w: k.w, a: k.a, b: k.b, c: k.c, val: k.val, name: k.name, id: s.nextID}
	if k.op == OpVar {
		t.sv = t
	} else {
		for _, ch := range [3]*Term{k.a, k.b, k.c} {
			if ch == nil {
				continue
			}
			if ch.multi {
				t.multi = true
			} else if ch.sv != nil {
				if t.sv == nil {
					t.sv = ch.sv
				} else if t.sv != ch.sv {
					t.multi = true
				}
			}
		}
		if t.multi {
			t.sv = nil
		}
	}
	s.tab[k] = t
	return t
}

func mask(w uint8) uint64 {
	if w >= 64 {
		return ^uint64(0)
	}
	return (uint64(1) << w) - 1
}

func sext(v uint64, w uint8) int64 {
	if w >= 64 {
		return int64(v)
	}
	sh := 64 - uint(w)
	return int64(v<<sh) >> sh
}

func (t *Term) IsConst() bool { return t.op == OpConst }
func (t *Term) IsTrue() bool  { return t.op == OpConst && t.w == 0 && t.val == 1 }
func (t *Term) IsFalse() bool { return t.op == OpConst && t.w == 0 && t.val == 0 }

func (s *TermStore) Bool(b bool) *Term {
	if b {
		return s.tt
	}
	return s.ff
}

func (s *TermStore) BV(v uint64, w uint8) *Term {
	return s.mk(termKey{op: OpConst, w: w, val: v & mask(w)})
}

func (s *TermStore) Var(name string, w uint8) *Term {
	return s.mk(termKey{op: OpVar, w: w, name: name})
}

func (s *TermStore) Not(a *Term) *Term {
	if a.IsConst() {
		return s.Bool(a.val == 0)
	}
	if a.op == OpNot {
		return a.a
	}
	return s.mk(termKey{op: OpNot, a: a})
}

func (s *TermStore) And(a, b *Term) *Term {
	if a.IsConst() {
		if a.val == 0 {
			return s.ff
		}
		return b
	}
	if b.IsConst() {
		if b.val == 0 {
			return s.ff
		}
		return a
	}
	if a == b {
		return a
	}
	if (a.op == OpNot && a.a == b) || (b.op == OpNot && b.a == a) {
		return s.ff
	}
	if a.id > b.id {
		a, b = b, a
	}
	return s.mk(termKey{op: OpAnd, a: a, b: b})
}

func (s *TermStore) Or(a, b *Term) *Term {
	if a.IsConst() {
		if a.val == 1 {
			return s.tt
		}
		return b
	}
	if b.IsConst() {
		if b.val == 1 {
			return s.tt
		}
		return a
	}
	if a == b {
		return a
	}
	if (a.op == OpNot && a.a == b) || (b.op == OpNot && b.a == a) {
		return s.tt
	}
	if a.id > b.id {
		a, b = b, a
	}
	return s.mk(termKey{op: OpOr, a: a, b: b})
}

func (s *TermStore) Ite(c, a, b *Term) *Term {
	if c.IsConst() {
		if c.val == 1 {
			return a
		}
		return b
	}
	if a == b {
		return a
	}
	if a.w == 0 {
		if a.IsConst() && b.IsConst() {
			if a.val == 1 {
				return c
			}
			return s.Not(c)
		}
		if a.IsTrue() {
			return s.Or(c, b)
		}
		if a.IsFalse() {
			return s.And(s.Not(c), b)
		}
		if b.IsTrue() {
			return s.Or(s.Not(c), a)
		}
		if b.IsFalse() {
			return s.And(c, a)
		}
	}
	if c.op == OpNot {
		return s.Ite(c.a, b, a)
	}
	return s.mk(termKey{op: OpIte, w: a.w, a: c, b: a, c: b})
}

func (s *TermStore) Eq(a, b *Term) *Term {
	if a == b {
		return s.tt
	}
	if a.w != b.w {
		panic(fmt.Sprintf("Eq: width mismatch %d vs %d", a.w, b.w))
	}
	if a.IsConst() && b.IsConst() {
		return s.Bool(a.val == b.val)
	}
	if a.w == 0 {
		if a.IsConst() {
			if a.val == 1 {
				return b
			}
			return s.Not(b)
		}
		if b.IsConst() {
			if b.val == 1 {
				return a
			}
			return s.Not(a)
		}
	}
	// (zext x) == const  -> x == const' when it fits
	if b.IsConst() && a.op == OpZExt {
		if b.val&^mask(a.a.w) != 0 {
			return s.ff
		}
		return s.Eq(a.a, s.BV(b.val, a.a.w))
	}
	if a.IsConst() && b.op == OpZExt {
		return s.Eq(b, a)
	}
	// ite(c, k1, k2) == k  with constants
	if b.IsConst() && a.op == OpIte && a.b.IsConst() && a.c.IsConst() {
		return s.Ite(a.a, s.Bool(a.b.val == b.val), s.Bool(a.c.val == b.val))
	}
	if a.IsConst() && b.op == OpIte && b.b.IsConst() && b.c.IsConst() {
		return s.Eq(b, a)
	}
	if a.id > b.id {
		a, b = b, a
	}
	return s.mk(termKey{op: OpEq, a: a, b: b})
}

func (s *TermStore) cmpConst(op Op, a, b *Term) bool {
	w := a.w
	switch op {
	case OpULT:
		return a.val < b.val
	case OpULE:
		return a.val <= b.val
	case OpSLT:
		return sext(a.val, w) < sext(b.val, w)
	case OpSLE:
		return sext(a.val, w) <= sext(b.val, w)
	}
	panic("cmpConst")
}

func (s *TermStore) Cmp(op Op, a, b *Term) *Term {
	if a.w != b.w {
		panic(fmt.Sprintf("Cmp: width mismatch %d vs %d", a.w, b.w))
	}
	if a.IsConst() && b.IsConst() {
		return s.Bool(s.cmpConst(op, a, b))
	}
	if a == b {
		return s.Bool(op == OpULE || op == OpSLE)
	}
	// comparisons of zero-extended small values against constants: narrow
	if a.op == OpZExt && b.IsConst() {
		sw := a.a.w
		bv := b.val
		neg := (op == OpSLT || op == OpSLE) && sext(bv, b.w) < 0
		if neg {
			return s.ff // zext value is non-negative
		}
		if bv > mask(sw) {
			return s.tt
		}
		uop := op
		if op == OpSLT {
			uop = OpULT
		} else if op == OpSLE {
			uop = OpULE
		}
		return s.Cmp(uop, a.a, s.BV(bv, sw))
	}
	if b.op == OpZExt && a.IsConst() {
		sw := b.a.w
		av := a.val
		neg := (op == OpSLT || op == OpSLE) && sext(av, a.w) < 0
		if neg {
			return s.tt
		}
		if av > mask(sw) {
			return s.ff
		}
		uop := op
		if op == OpSLT {
			uop = OpULT
		} else if op == OpSLE {
			uop = OpULE
		}
		return s.Cmp(uop, s.BV(av, sw), b.a)
	}
	if a.op == OpZExt && b.op == OpZExt && a.a.w == b.a.w {
		uop := op
		if op == OpSLT {
			uop = OpULT
		} else if op == OpSLE {
			uop = OpULE
		}
		return s.Cmp(uop, a.a, b.a)
	}
	if op == OpULT && b.IsConst() && b.val == 0 {
		return s.ff
	}
	if op == OpULE && a.IsConst() && a.val == 0 {
		return s.tt
	}
	return s.mk(termKey{op: op, a: a, b: b})
}

func (s *TermStore) binConst(op Op, w uint8, x, y uint64) (uint64, bool) {
	m := mask(w)
	switch op {
	case OpAdd:
		return (x + y) & m, true
	case OpSub:
		return (x - y) & m, true
	case OpMul:
		return (x * y) & m, true
	case OpUDiv:
		if y == 0 {
			return m, true
		}
		return (x / y) & m, true
	case OpURem:
		if y == 0 {
			return x, true
		}
		return (x % y) & m, true
	case OpSDiv:
		if y == 0 {
			return 0, false
		}
		sx, sy := sext(x, w), sext(y, w)
		if sy == -1 {
			return uint64(-sx) & m, true
		}
		return uint64(sx/sy) & m, true
	case OpSRem:
		if y == 0 {
			return 0, false
		}
		sx, sy := sext(x, w), sext(y, w)
		if sy == -1 {
			return 0, true
		}
		return uint64(sx%sy) & m, true
	case OpBAnd:
		return x & y, true
	case OpBOr:
		return x | y, true
	case OpBXor:
		return x ^ y, true
	case OpShl:
		if y >= uint64(w) {
			return 0, true
		}
		return (x << y) & m, true
	case OpLShr:
		if y >= uint64(w) {
			return 0, true
		}
		return (x >> y) & m, true
	case OpAShr:
		sx := sext(x, w)
		if y >= uint64(w) {
			y = uint64(w) - 1
		}
		return uint64(sx>>y) & m, true
	}
	return 0, false
}

func (s *TermStore) Bin(op Op, a, b *Term) *Term {
	if a.w != b.w {
		panic(fmt.Sprintf("Bin %s: width mismatch %d vs %d", opNames[op], a.w, b.w))
	}
	w := a.w
	if a.IsConst() && b.IsConst() {
		if v, ok := s.binConst(op, w, a.val, b.val); ok {
			return s.BV(v, w)
		}
	}
	switch op {
	case OpAdd:
		if a.IsConst() && a.val == 0 {
			return b
		}
		if b.IsConst() && b.val == 0 {
			return a
		}
		// (x + c1) + c2
		if b.IsConst() && a.op == OpAdd && a.b.IsConst() {
			return s.Bin(OpAdd, a.a, s.BV(a.b.val+b.val, w))
		}
		if a.IsConst() {
			a, b = b, a
		}
	case OpSub:
		if b.IsConst() && b.val == 0 {
			return a
		}
		if a == b {
			return s.BV(0, w)
		}
		if b.IsConst() {
			return s.Bin(OpAdd, a, s.BV(-b.val, w))
		}
	case OpMul:
		if a.IsConst() {
			a, b = b, a
		}
		if b.IsConst() {
			if b.val == 0 {
				return s.BV(0, w)
			}
			if b.val == 1 {
				return a
			}
		}
	case OpBAnd:
		if a.IsConst() {
			a, b = b, a
		}
		if b.IsConst() {
			if b.val == 0 {
				return s.BV(0, w)
			}
			if b.val == mask(w) {
				return a
			}
			// (zext x) & c where c covers x's bits
			if a.op == OpZExt && b.val&mask(a.a.w) == mask(a.a.w) {
				return a
			}
		}
		if a == b {
			return a
		}
	case OpBOr:
		if a.IsConst() {
			a, b = b, a
		}
		if b.IsConst() {
			if b.val == 0 {
				return a
			}
			if b.val == mask(w) {
				return b
			}
		}
		if a == b {
			return a
		}
	case OpBXor:
		if a.IsConst() {
			a, b = b, a
		}
		if b.IsConst() && b.val == 0 {
			return a
		}
		if a == b {
			return s.BV(0, w)
		}
	case OpShl, OpLShr, OpAShr:
		if b.IsConst() && b.val == 0 {
			return a
		}
		if a.IsConst() && a.val == 0 {
			return a
		}
		if b.IsConst() && b.val >= uint64(w) && op != OpAShr {
			return s.BV(0, w)
		}
	}
	return s.mk(termKey{op: op, w: w, a: a, b: b})
}

func (s *TermStore) Neg(a *Term) *Term {
	if a.IsConst() {
		return s.BV(-a.val, a.w)
	}
	return s.mk(termKey{op: OpNeg, w: a.w, a: a})
}

func (s *TermStore) BNot(a *Term) *Term {
	if a.IsConst() {
		return s.BV(^a.val, a.w)
	}
	if a.op == OpBNot {
		return a.a
	}
	return s.mk(termKey{op: OpBNot, w: a.w, a: a})
}

func (s *TermStore) ZExt(a *Term, to uint8) *Term {
	if to == a.w {
		return a
	}
	if to < a.w {
		return s.Extract(a, to-1, 0)
	}
	if a.IsConst() {
		return s.BV(a.val, to)
	}
	if a.op == OpZExt {
		return s.ZExt(a.a, to)
	}
	if a.op == OpIte && a.b.IsConst() && a.c.IsConst() {
		return s.Ite(a.a, s.BV(a.b.val, to), s.BV(a.c.val, to))
	}
	return s.mk(termKey{op: OpZExt, w: to, a: a, val: uint64(to - a.w)})
}

func (s *TermStore) SExt(a *Term, to uint8) *Term {
	if to == a.w {
		return a
	}
	if to < a.w {
		return s.Extract(a, to-1, 0)
	}
	if a.IsConst() {
		return s.BV(uint64(sext(a.val, a.w)), to)
	}
	if a.op == OpZExt {
		return s.ZExt(a.a, to)
	}
	if a.op == OpIte && a.b.IsConst() && a.c.IsConst() {
		return s.Ite(a.a, s.BV(uint64(sext(a.b.val, a.w)), to), s.BV(uint64(sext(a.c.val, a.w)), to))
	}
	return s.mk(termKey{op: OpSExt, w: to, a: a, val: uint64(to - a.w)})
}

func (s *TermStore) Extract(a *Term, hi, lo uint8) *Term {
	w := hi - lo + 1
	if lo == 0 && w == a.w {
		return a
	}
	if a.IsConst() {
		return s.BV(a.val>>lo, w)
	}
	if (a.op == OpZExt || a.op == OpSExt) && lo == 0 {
		if w <= a.a.w {
			return s.Extract(a.a, hi, 0)
		}
		if a.op == OpZExt {
			return s.ZExt(a.a, w)
		}
		return s.SExt(a.a, w)
	}
	if a.op == OpZExt && lo >= a.a.w {
		return s.BV(0, w)
	}
	if a.op == OpExtract {
		ilo := uint8(a.val & 0xff)
		return s.Extract(a.a, hi+ilo, lo+ilo)
	}
	if a.op == OpIte && a.b.IsConst() && a.c.IsConst() {
		return s.Ite(a.a, s.BV(a.b.val>>lo, w), s.BV(a.c.val>>lo, w))
	}
	return s.mk(termKey{op: OpExtract, w: w, a: a, val: uint64(hi)<<8 | uint64(lo)})
}

func (s *TermStore) Concat(a, b *Term) *Term {
	if a.IsConst() && b.IsConst() {
		return s.BV(a.val<<b.w|b.val, a.w+b.w)
	}
	if a.IsConst() && a.val == 0 {
		return s.ZExt(b, a.w+b.w)
	}
	return s.mk(termKey{op: OpConcat, w: a.w + b.w, a: a, b: b})
}

// ---------------------------------------------------------------------
// SMT-LIB printing

func sortStr(w uint8) string {
	if w == 0 {
		return "Bool"
	}
	return fmt.Sprintf("(_ BitVec %d)", w)
}

func (t *Term) ref() string {
	switch t.op {
	case OpConst:
		if t.w == 0 {
			if t.val == 1 {
				return "true"
			}
			return "false"
		}
		if t.w%4 == 0 {
			return fmt.Sprintf("#x%0*x", int(t.w/4), t.val)
		}
		return fmt.Sprintf("#b%0*b", int(t.w), t.val)
	case OpVar:
		return t.name
	}
	return fmt.Sprintf("t%d", t.id)
}

// body prints the defining expression of a non-leaf term in terms of its
// children's references.
func (t *Term) body() string {
	switch t.op {
	case OpNot, OpNeg, OpBNot:
		return fmt.Sprintf("(%s %s)", opNames[t.op], t.a.ref())
	case OpIte:
		return fmt.Sprintf("(ite %s %s %s)", t.a.ref(), t.b.ref(), t.c.ref())
	case OpZExt, OpSExt:
		return fmt.Sprintf("((_ %s %d) %s)", opNames[t.op], t.val, t.a.ref())
	case OpExtract:
		return fmt.Sprintf("((_ extract %d %d) %s)", t.val>>8, t.val&0xff, t.a.ref())
	default:
		return fmt.Sprintf("(%s %s %s)", opNames[t.op], t.a.ref(), t.b.ref())
	}
}

// String prints a term fully inlined (for samples/debugging); large terms are
// abbreviated.
func (t *Term) String() string {
	var sb strings.Builder
	t.write(&sb, 0)
	return sb.String()
}

func (t *Term) write(sb *strings.Builder, depth int) {
	if t.op == OpConst || t.op == OpVar {
		sb.WriteString(t.ref())
		return
	}
	if depth > 12 || sb.Len() > 600 {
		sb.WriteString("…")
		return
	}
	switch t.op {
	case OpZExt, OpSExt:
		fmt.Fprintf(sb, "((_ %s %d) ", opNames[t.op], t.val)
	case OpExtract:
		fmt.Fprintf(sb, "((_ extract %d %d) ", t.val>>8, t.val&0xff)
	default:
		fmt.Fprintf(sb, "(%s ", opNames[t.op])
	}
	t.a.write(sb, depth+1)
	if t.b != nil {
		sb.WriteByte(' ')
		t.b.write(sb, depth+1)
	}
	if t.c != nil {
		sb.WriteByte(' ')
		t.c.write(sb, depth+1)
	}
	sb.WriteByte(')')
}

// vars collects the variables a term mentions.
func (t *Term) vars(seen map[*Term]bool, out map[string]*Term) {
	if t == nil || seen[t] {
		return
	}
	seen[t] = true
	if t.op == OpVar {
		out[t.name] = t
		return
	}
	t.a.vars(seen, out)
	t.b.vars(seen, out)
	t.c.vars(seen, out)
}
