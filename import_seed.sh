#!/bin/bash
# usage: import_seed.sh <property> <letter>   (copies /tmp/sw_<property>/_seed into seeded/<property>-<letter>, removes the worktree)
set -eu
p=$1; l=$2; src=/tmp/sw_$p/_seed; dst=/verif/seeded/$p-$l
mkdir -p $dst
cp $src/patch.diff $src/demo_test.go $src/meta.json $dst/
git -C /repo worktree remove --force /tmp/sw_$p
echo imported $dst
