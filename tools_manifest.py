#!/usr/bin/env python3
"""Regenerates MANIFEST.json from the table below (kept in one place so that
claimed checks, not_applicable and notes stay consistent)."""
import json, os, sys
here = os.path.dirname(os.path.abspath(__file__))
claims = json.load(open(os.path.join(here, "claims.json")))
props = [json.loads(l) for l in open(os.path.join(here, "properties.jsonl"))]
checks, na = [], []
for p in props:
    c = claims.get(p["id"])
    if c and c.get("claimed"):
        checks.append({
            "property_id": p["id"],
            "quick_cmd": f"./check {p['id']} quick",
            "thorough_cmd": f"./check {p['id']} thorough",
            "evidence_file": f"evidence/{p['id']}.json",
            "replay_cmd_template": "./check --replay {path}",
            "engine": "gosym",
            "level_claimed": {"category": "model_checking", "text": c["level_text"], "design_ref": c.get("design_ref", "DESIGN.md section 5, " + p["id"])},
            "level_note": c["level_note"],
            "technique": c.get("technique", "bounded symbolic execution of the go/ssa form of the real code; every branch, run-time panic condition and assertion decided by an SMT solver (z3) over bit-vector inputs; counterexamples replayed natively"),
        })
    else:
        na.append({"property_id": p["id"], "reason": (c or {}).get("reason", "check not built yet in this session (planned, see DESIGN.md section 5)")})
m = {
    "version": 1,
    "setup_cmd": "./setup.sh",
    "hooks": {
        "guard": "verif (unused: harnesses are injected with go/packages and `go test -overlay` overlays; nothing is committed to /repo for instrumentation)",
        "enable": "none needed: ./check loads /repo's working tree with the overlay files under /verif/harness",
        "baseline_off_cmd": "cd /repo && go test -vet=off -count=1 -timeout 25m ./...",
        "source_commits": claims.get("_fix_commits", []),
        "add_only": True,
    },
    "engines": [{"name": "gosym", "path": "gosym/", "serves_properties": [c["property_id"] for c in checks],
                 "kind_free_text": "symbolic executor for Go written for this task: go/ssa front end (x/tools v0.29.0), bit-vector terms, one z3 process per worker (push/pop), DFS over decision prefixes with re-execution, native replay through go test -overlay"}],
    "checks": checks,
    "not_applicable": na,
    "notes": claims.get("_notes", ""),
}
json.dump(m, open(os.path.join(here, "MANIFEST.json"), "w"), indent=1)
print("MANIFEST.json:", len(checks), "claimed,", len(na), "not applicable")
