#!/bin/bash
# usage: seeds_all.sh  — evaluates every seeded change with seed_eval.sh and
# writes seeded/RESULTS.md (seed, check exit code, first catching harness).
cd "$(dirname "$0")"
out=seeded/RESULTS.md
echo "| seed | check exit | caught by |" > $out; echo "|---|---|---|" >> $out
for d in seeded/*/; do
  s=$(basename $d); [ -f $d/patch.diff ] || continue
  log=$(./seed_eval.sh $s 2>&1)
  rc=$(echo "$log" | sed -n 's/^check exit=//p')
  h=$(echo "$log" | sed -n 's/^  harness=\([A-Za-z0-9_]*\).*/\1/p' | sort -u | tr '\n' ' ')
  echo "| $s | $rc | $h |" >> $out
  echo "$s exit=$rc $h"
done
