#!/bin/bash
# usage: seed_eval.sh <seed-dir-under-/verif/seeded> [property]
# Confirms a seeded change in a scratch worktree (builds, suite passes, demo
# fails with / passes without), then applies it to /repo, runs the property's
# quick check and undoes it.
set -u
export GOFLAGS=-mod=mod GOPROXY=off GOSUMDB=off GOTOOLCHAIN=local
export GOSYM_NOEVIDENCE=1
seed="$1"; dir=/verif/seeded/$seed
prop="${2:-$(python3 -c "import json;print(json.load(open('$dir/meta.json'))['property'])")}"
pkgdir=$(python3 -c "import json;print(json.load(open('$dir/meta.json'))['demo_package_dir'])")
wt=/tmp/seedwt_$seed
git -C /repo worktree remove --force $wt >/dev/null 2>&1
git -C /repo worktree add --detach $wt HEAD -q || exit 3
cd $wt
cp $dir/demo_test.go $pkgdir/zz_seed_demo_test.go
demo_clean=$(go test -vet=off -count=1 -run 'Seed|C[0-9][0-9]' ./$pkgdir 2>&1 | tail -1)
git apply $dir/patch.diff || { echo "PATCH DOES NOT APPLY"; exit 3; }
build=$(go build ./... 2>&1 | tail -1)
demo_patched=$(go test -vet=off -count=1 -run 'Seed|C[0-9][0-9]' ./$pkgdir 2>&1 | tail -1)
rm $pkgdir/zz_seed_demo_test.go
suite=$(go test -vet=off -count=1 ./... 2>&1 | grep -v "^ok\|no test files\|docgen" | grep "FAIL" | head -3)
echo "seed=$seed prop=$prop build=[${build}] demo_clean=[${demo_clean}] demo_patched=[${demo_patched}] suite_failures=[${suite}]"
# run the property's check against the patched tree: /repo itself when
# SEED_IN_REPO=1 (apply, check, undo), else the scratch worktree (GOSYM_REPO)
if [ "${SEED_IN_REPO:-0}" = "1" ]; then
  cd /; git -C /repo worktree remove --force $wt
  git -C /repo apply $dir/patch.diff || { echo "cannot apply to /repo"; exit 3; }
  cd /verif && ./check $prop quick > /tmp/seed_check_$seed.log 2>&1; rc=$?
  git -C /repo checkout -- .
else
  cd /verif && GOSYM_REPO=$wt ./check $prop quick > /tmp/seed_check_$seed.log 2>&1; rc=$?
  cd /; git -C /repo worktree remove --force $wt
fi
echo "check exit=$rc"; grep "^VIOLATION\|^  harness\|VACUOUS\|INCONS\|INCOMPL\|^OK" /tmp/seed_check_$seed.log | cut -c1-330 | head -6
