package contactql

// Model of the generated ContactQL lexer + parser for ASCII input (like the
// Excellent ones): a longest-match tokenizer written from the lexer rules of
// antlr/ContactQL.g4 (ties go to the earlier rule) and precedence climbing
// with the generated parser's precedence numbers (AND 6, implicit AND 5,
// OR 4), building the generated context objects for the real visitor.  gosym
// redirects ParseQuery to verifParseQuery, which is ParseQuery with this model
// in place of the generated parser; natively the real parser runs and the
// native self-test compares both.

import (
	"errors"
	"fmt"
	"strings"

	"github.com/antlr4-go/antlr/v4"
	gen "github.com/nyaruka/goflow/antlr/gen/contactql"
	"github.com/nyaruka/goflow/envs"
	"github.com/nyaruka/goflow/utils"
)

type verifQTok struct {
	typ  int
	text string
}

var errVerifNonASCII = errors.New("verif: non-ASCII query is outside the parser model")

func verifQLetter(c byte) bool { return (c >= 'a' && c <= 'z') || (c >= 'A' && c <= 'Z') }
func verifQDigit(c byte) bool  { return c >= '0' && c <= '9' }
func verifQKey(c byte) bool    { return verifQLetter(c) || verifQDigit(c) || c == '_' }
func verifQText(c byte) bool {
	return verifQKey(c) || c == '.' || c == '-' || c == '+' || c == '/' || c == '\'' || c == '@' || c == ':'
}

func verifQWord(s string, lower string) bool {
	if len(s) < len(lower) {
		return false
	}
	for i := 0; i < len(lower); i++ {
		c := s[i]
		if c >= 'A' && c <= 'Z' {
			c += 'a' - 'A'
		}
		if c != lower[i] {
			return false
		}
	}
	return true
}

// verifQNext returns the token at the start of s (longest match, earlier rule on ties).
func verifQNext(s string) (typ int, n int) {
	best, bestN := gen.ContactQLParserERROR, 1
	try := func(t, k int) {
		if k > bestN || (k == bestN && t < best) {
			best, bestN = t, k
		}
	}
	c := s[0]
	switch c {
	case '(':
		try(gen.ContactQLParserLPAREN, 1)
	case ')':
		try(gen.ContactQLParserRPAREN, 1)
	case ' ', '\t', '\n', '\r':
		k := 0
		for k < len(s) && (s[k] == ' ' || s[k] == '\t' || s[k] == '\n' || s[k] == '\r') {
			k++
		}
		try(gen.ContactQLParserWS, k)
	case '=', '~':
		try(gen.ContactQLParserCOMPARATOR, 1)
	case '!':
		if len(s) > 1 && s[1] == '=' {
			try(gen.ContactQLParserCOMPARATOR, 2)
		}
	case '>', '<':
		if len(s) > 1 && s[1] == '=' {
			try(gen.ContactQLParserCOMPARATOR, 2)
		} else {
			try(gen.ContactQLParserCOMPARATOR, 1)
		}
	case '"':
		if k := verifLexSTRING(s); k > 0 {
			try(gen.ContactQLParserSTRING, k)
		}
	}
	if verifQWord(s, "and") {
		try(gen.ContactQLParserAND, 3)
	}
	if verifQWord(s, "or") {
		try(gen.ContactQLParserOR, 2)
	}
	if verifQWord(s, "has") {
		try(gen.ContactQLParserCOMPARATOR, 3)
	}
	if verifQWord(s, "is") {
		try(gen.ContactQLParserCOMPARATOR, 2)
	}
	// PROPERTY: (PROPTYPE '.')? PROPKEY
	if verifQKey(c) {
		k := 0
		for k < len(s) && verifQKey(s[k]) {
			k++
		}
		try(gen.ContactQLParserPROPERTY, k)
		l := 0
		for l < len(s) && verifQLetter(s[l]) {
			l++
		}
		if l > 0 && l+1 < len(s) && s[l] == '.' && verifQKey(s[l+1]) {
			m := l + 1
			for m < len(s) && verifQKey(s[m]) {
				m++
			}
			try(gen.ContactQLParserPROPERTY, m)
		}
	}
	if verifQText(c) {
		k := 0
		for k < len(s) && verifQText(s[k]) {
			k++
		}
		try(gen.ContactQLParserTEXT, k)
	}
	return best, bestN
}

func verifQTokenize(s string) ([]verifQTok, error) {
	var toks []verifQTok
	for i := 0; i < len(s); {
		if s[i] >= 0x80 {
			return nil, errVerifNonASCII
		}
		typ, n := verifQNext(s[i:])
		// (non-ASCII characters are modelled inside quoted literals only: STRING admits any character but the quote,
		// and no byte of a multi-byte UTF-8 sequence is a quote or a backslash)
		for k := i; k < i+n && typ != gen.ContactQLParserSTRING; k++ {
			if s[k] >= 0x80 {
				return nil, errVerifNonASCII
			}
		}
		// a token that stops right before a non-ASCII letter might have gone on
		if i+n < len(s) && s[i+n] >= 0x80 && typ != gen.ContactQLParserWS && typ != gen.ContactQLParserLPAREN && typ != gen.ContactQLParserRPAREN && typ != gen.ContactQLParserSTRING {
			return nil, errVerifNonASCII
		}
		if typ != gen.ContactQLParserWS {
			toks = append(toks, verifQTok{typ, s[i : i+n]})
		}
		i += n
	}
	return toks, nil
}

type verifQParser struct {
	toks []verifQTok
	pos  int
	err  error
}

func (p *verifQParser) peek() int {
	if p.pos < len(p.toks) {
		return p.toks[p.pos].typ
	}
	return -1
}

func (p *verifQParser) next() antlr.Token {
	t := p.toks[p.pos]
	p.pos++
	return verifToken(t.typ, t.text)
}

func (p *verifQParser) fail() antlr.ParserRuleContext {
	if p.err == nil {
		p.err = NewQueryError(ErrSyntax, "syntax error")
	}
	return gen.NewExpressionContext(nil, nil, 0)
}

func verifQStartsExpression(t int) bool {
	return t == gen.ContactQLParserLPAREN || t == gen.ContactQLParserPROPERTY || t == gen.ContactQLParserTEXT || t == gen.ContactQLParserSTRING
}

func (p *verifQParser) literal() antlr.ParserRuleContext {
	switch p.peek() {
	case gen.ContactQLParserPROPERTY, gen.ContactQLParserTEXT:
		t := p.toks[p.pos]
		p.pos++
		return verifTextLiteral(t.typ, t.text)
	case gen.ContactQLParserSTRING:
		t := p.toks[p.pos]
		p.pos++
		return verifStringLiteral(t.text)
	}
	p.fail()
	return verifTextLiteral(gen.ContactQLParserTEXT, "")
}

func (p *verifQParser) expression(prec int) antlr.ParserRuleContext {
	if p.err != nil {
		return p.fail()
	}
	var left antlr.ParserRuleContext
	switch t := p.peek(); {
	case t == gen.ContactQLParserLPAREN:
		c := gen.NewExpressionGroupingContext(nil, gen.NewExpressionContext(nil, nil, 0))
		c.AddTokenNode(p.next())
		c.AddChild(p.expression(0))
		if p.peek() != gen.ContactQLParserRPAREN {
			return p.fail()
		}
		c.AddTokenNode(p.next())
		left = c
	case t == gen.ContactQLParserPROPERTY && p.pos+1 < len(p.toks) && p.toks[p.pos+1].typ == gen.ContactQLParserCOMPARATOR:
		prop, cmp := p.toks[p.pos], p.toks[p.pos+1]
		p.pos += 2
		left = verifConditionCtx(prop.text, cmp.text, p.literal())
	case t == gen.ContactQLParserPROPERTY || t == gen.ContactQLParserTEXT || t == gen.ContactQLParserSTRING:
		left = verifImplicitCtx(p.literal())
	default:
		return p.fail()
	}
	for p.err == nil {
		t := p.peek()
		switch {
		case t == gen.ContactQLParserAND && prec <= 6:
			c := gen.NewCombinationAndContext(nil, gen.NewExpressionContext(nil, nil, 0))
			c.AddChild(left)
			c.AddTokenNode(p.next())
			c.AddChild(p.expression(7))
			left = c
		case verifQStartsExpression(t) && prec <= 5:
			c := gen.NewCombinationImpicitAndContext(nil, gen.NewExpressionContext(nil, nil, 0))
			c.AddChild(left)
			c.AddChild(p.expression(6))
			left = c
		case t == gen.ContactQLParserOR && prec <= 4:
			c := gen.NewCombinationOrContext(nil, gen.NewExpressionContext(nil, nil, 0))
			c.AddChild(left)
			c.AddTokenNode(p.next())
			c.AddChild(p.expression(5))
			left = c
		default:
			return left
		}
	}
	return left
}

// verifParseTree parses text with the model.
func verifParseTree(text string) (antlr.ParserRuleContext, error) {
	toks, err := verifQTokenize(text)
	if err != nil {
		return nil, err
	}
	p := &verifQParser{toks: toks}
	tree := p.expression(0)
	if p.err == nil && p.peek() != -1 {
		p.fail()
	}
	if p.err != nil {
		return nil, p.err
	}
	return tree, nil
}

// verifModelParseTree is what replaces the generated parser under gosym.
func verifModelParseTree(text string) (*gen.ParseContext, error) {
	tree, err := verifParseTree(text)
	if err != nil {
		return nil, err
	}
	root := gen.NewParseContext(nil, nil, 0)
	root.AddChild(tree)
	return root, nil
}

// verifParseQuery is ParseQuery with the parser model in place of the
// generated parser; everything before and after parsing is the real code.
func verifParseQuery(env envs.Environment, text string, resolver Resolver) (*ContactQuery, error) {
	text = strings.TrimSpace(text)

	if env.RedactionPolicy() != envs.RedactionPolicyURNs {
		if number := utils.ParsePhoneNumber(text, env.DefaultCountry()); number != "" {
			text = fmt.Sprintf(`tel = %s`, number)
		}
	}

	tree, err := verifParseTree(text)
	if err != nil {
		return nil, err
	}

	visitor := newVisitor(env)
	rootNode := visitor.Visit(tree).(QueryNode)

	if len(visitor.errors) > 0 {
		return nil, visitor.errors[0]
	}

	if err := rootNode.validate(env, resolver); err != nil {
		return nil, err
	}

	rootNode = rootNode.Simplify()

	return &ContactQuery{root: rootNode, resolver: resolver}, nil
}
