package contactql

import (
	"github.com/nyaruka/goflow/envs"
	"github.com/nyaruka/goflow/zzverif"
)

// VerifC08_QueryFormatting: "query formatting return[s] identical output on
// every call … never depend[s] on … incidental process state".  A query of
// n = 2..6 conditions joined by one operator is parsed by the real ParseQuery
// (parser model, real visitor and simplification), and — as a host does to
// build "active contacts matching X" and "blocked contacts matching X" from
// one user query — combined with one further condition twice
// (NewBoolCombination(op, parsed.Root(), extra).Simplify()).  The text the
// parsed query and the first derived query format to is the same before and
// after the second one is built, the second formats to its own conditions,
// and both equal what the same steps give from a freshly parsed query.  The
// values of the two extra conditions are arbitrary distinct bytes.
// cover: and, or, two, three, five, six
func VerifC08_QueryFormatting() {
	env, res := envs.NewBuilder().Build(), verifResolver()
	conds := []string{`name = "bob"`, `age > 10`, `nick = "bo"`, `language = "eng"`, `state = "Kigali"`, `age < 90`}
	n := 2 + zzverif.Choice("conditions", 5)
	op, opText := BoolOperatorAnd, " AND "
	if zzverif.Choice("operator", 2) == 1 {
		op, opText = BoolOperatorOr, " OR "
		zzverif.Cover("or")
	} else {
		zzverif.Cover("and")
	}
	switch n {
	case 2:
		zzverif.Cover("two")
	case 3:
		zzverif.Cover("three")
	case 5:
		zzverif.Cover("five")
	case 6:
		zzverif.Cover("six")
	}
	text := conds[0]
	for k := 1; k < n; k++ {
		text += opText + conds[k]
	}
	a, b := zzverif.Byte("first-extra"), zzverif.Byte("second-extra")
	zzverif.Assume(a >= 'a' && a <= 'z' && b >= 'a' && b <= 'z' && a != b)
	derive := func(q *ContactQuery, v byte) QueryNode {
		return NewBoolCombination(op, q.Root(), NewCondition(PropertyTypeAttribute, AttributeStatus, OpEqual, string([]byte{v}))).Simplify()
	}
	parsed, err := ParseQuery(env, text, res)
	zzverif.Assert(err == nil, "a well-formed query does not parse")
	parsedBefore := parsed.String()
	first := derive(parsed, a)
	firstBefore := Stringify(first)
	second := derive(parsed, b)
	zzverif.Assert(Stringify(first) == firstBefore, "a query formats to different text after another query was built from the same parsed query")
	zzverif.Assert(parsed.String() == parsedBefore, "a parsed query formats to different text after queries were built from it")
	fresh, err := ParseQuery(env, text, res)
	zzverif.Assert(err == nil, "a well-formed query does not parse the second time")
	zzverif.Assert(Stringify(derive(fresh, a)) == firstBefore, "the same steps from a freshly parsed query give different text")
	zzverif.Assert(Stringify(derive(fresh, b)) == Stringify(second), "the second derived query formats differently from the same query built from scratch")
}
