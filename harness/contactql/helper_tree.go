package contactql

import (
	"github.com/antlr4-go/antlr/v4"
	gen "github.com/nyaruka/goflow/antlr/gen/contactql"
)

func verifToken(typ int, text string) antlr.Token {
	t := antlr.NewCommonToken(&antlr.TokenSourceCharStreamPair{}, typ, antlr.TokenDefaultChannel, -1, -1)
	t.SetText(text)
	return t
}

func verifStringLiteral(lit string) *gen.StringLiteralContext {
	c := gen.NewStringLiteralContext(nil, gen.NewLiteralContext(nil, nil, 0))
	c.AddTokenNode(verifToken(gen.ContactQLParserSTRING, lit))
	return c
}

func verifTextLiteral(typ int, lit string) *gen.TextLiteralContext {
	c := gen.NewTextLiteralContext(nil, gen.NewLiteralContext(nil, nil, 0))
	c.AddTokenNode(verifToken(typ, lit))
	return c
}

// verifCondition builds the parse tree of `PROPERTY COMPARATOR literal`.
func verifConditionCtx(prop, cmp string, lit antlr.ParserRuleContext) *gen.ConditionContext {
	c := gen.NewConditionContext(nil, gen.NewExpressionContext(nil, nil, 0))
	c.AddTokenNode(verifToken(gen.ContactQLParserPROPERTY, prop))
	c.AddTokenNode(verifToken(gen.ContactQLParserCOMPARATOR, cmp))
	c.AddChild(lit)
	return c
}

func verifImplicitCtx(lit antlr.ParserRuleContext) *gen.ImplicitConditionContext {
	c := gen.NewImplicitConditionContext(nil, gen.NewExpressionContext(nil, nil, 0))
	c.AddChild(lit)
	return c
}

// verifLexSTRING is the STRING lexer rule of antlr/ContactQL.g4,
//
//	STRING: '"' (~["] | '\\"')* '"';
//
// as a longest-match recogniser (length of the longest matching prefix or -1).
// Validated against the generated lexer by the native self-test.
func verifLexSTRING(s string) int {
	if len(s) == 0 || s[0] != '"' {
		return -1
	}
	best := -1
	reach := make([]bool, len(s)+2)
	reach[1] = true
	for i := 1; i < len(s); i++ {
		if !reach[i] {
			continue
		}
		if s[i] == '"' {
			best = i + 1
		} else {
			reach[i+1] = true
			if s[i] == '\\' && i+1 < len(s) && s[i+1] == '"' {
				reach[i+2] = true
			}
		}
	}
	return best
}
