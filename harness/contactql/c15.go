package contactql

import (
	"time"

	"github.com/nyaruka/goflow/envs"
	"github.com/nyaruka/goflow/zzverif"
	"github.com/shopspring/decimal"
)

// verifEval evaluates through the public entry point, as group membership does.
func verifEval(env envs.Environment, node QueryNode, q Queryable) bool {
	return EvaluateQuery(env, &ContactQuery{root: node, resolver: verifResolver()}, q)
}

var verifCmpOps = []Operator{OpLessThan, OpEqual, OpGreaterThan, OpLessThanOrEqual, OpGreaterThanOrEqual, OpNotEqual}

// verifCheckComparisons: for one present value exactly one of <, =, > holds,
// <= and >= are the corresponding unions and != is the negation of =.
func verifCheckComparisons(env envs.Environment, propType PropertyType, key, value string, q Queryable) {
	var r [6]bool
	for i, op := range verifCmpOps {
		c := NewCondition(propType, key, op, value)
		zzverif.Assert(c.validate(env, verifResolver()) == nil, "comparison condition rejected by the validator")
		r[i] = verifEval(env, c, q)
	}
	lt, eq, gt, le, ge, ne := r[0], r[1], r[2], r[3], r[4], r[5]
	n := 0
	for _, b := range []bool{lt, eq, gt} {
		if b {
			n++
		}
	}
	zzverif.Assert(n == 1, "not exactly one of <, =, > holds for a present value")
	zzverif.Assert(le == (lt || eq), "<= is not the union of < and =")
	zzverif.Assert(ge == (gt || eq), ">= is not the union of > and =")
	zzverif.Assert(ne == !eq, "!= is not the negation of =")
	if lt {
		zzverif.Cover("less")
	}
	if eq {
		zzverif.Cover("equal")
	}
	if gt {
		zzverif.Cover("greater")
	}
}

// VerifC15_Number: number field and the tickets attribute: an arbitrary
// 64-bit integer value (through the real decimal/big code) against integer
// and fractional query values.
// cover: less, equal, greater
func VerifC15_Number() {
	env := envs.NewBuilder().Build()
	v := zzverif.Int("value", -1<<62, 1<<62)
	queries := []string{"10", "-3", "0", "2.5", "4611686018427387904"}
	qv := queries[zzverif.Choice("query-value", len(queries))]
	q := &verifQueryable{vals: map[string][]any{"field:age": {decimal.New(int64(v), 0)}}}
	verifCheckComparisons(env, PropertyTypeField, "age", qv, q)
}

// VerifC15_Date: datetime field and attributes: an arbitrary instant (any
// second within ±60 years of the query day, any zone offset is irrelevant to
// an instant) against a query day in UTC and in fixed zones: comparison by
// calendar day in the environment's timezone.
// cover: less, equal, greater, day-start, day-end
func VerifC15_Date() {
	zones := []*time.Location{time.UTC, time.FixedZone("E5", 5*3600), time.FixedZone("W9", -9*3600-1800)}
	tz := zones[zzverif.Choice("timezone", len(zones))]
	env := envs.NewBuilder().WithTimezone(tz).Build()
	day := time.Date(2024, 3, 10, 0, 0, 0, 0, tz)
	off := zzverif.Int("seconds-from-day-start", -60*366*86400, 60*366*86400)
	t := time.Unix(day.Unix()+int64(off), 0).UTC()
	if off == 0 {
		zzverif.Cover("day-start")
	}
	if off == 86400 {
		zzverif.Cover("day-end")
	}
	q := &verifQueryable{vals: map[string][]any{"field:dob": {t}, "attr:created_on": {t}, "attr:last_seen_on": {t}}}
	switch zzverif.Choice("property", 3) {
	case 0:
		verifCheckComparisons(env, PropertyTypeField, "dob", "2024-03-10", q)
		// reference: the value's calendar day in the environment's timezone
		c := NewCondition(PropertyTypeField, "dob", OpEqual, "2024-03-10")
		zzverif.Assert(verifEval(env, c, q) == (off >= 0 && off < 86400), "= does not compare by calendar day in the environment's timezone")
	case 1:
		verifCheckComparisons(env, PropertyTypeAttribute, AttributeCreatedOn, "2024-03-10", q)
	default:
		verifCheckComparisons(env, PropertyTypeAttribute, AttributeLastSeenOn, "2024-03-10", q)
	}
}

func verifText(name string, n int) string {
	s := zzverif.String(name, n)
	for i := 0; i < len(s); i++ {
		zzverif.Assume(s[i] != 0 && s[i] < 0x80)
	}
	return s
}

// VerifC15_Presence: an empty-valued = / != tests absence / presence of the
// property, for every property type and 0..2 values.
// cover: absent, present, multi-valued
func VerifC15_Presence() {
	env := envs.NewBuilder().Build()
	n := zzverif.Choice("nvalues", 3)
	var vals []any
	for i := 0; i < n; i++ {
		vals = append(vals, verifText("value", 2))
	}
	props := []struct {
		t PropertyType
		k string
	}{{PropertyTypeAttribute, AttributeName}, {PropertyTypeAttribute, AttributeLanguage}, {PropertyTypeURN, "tel"}, {PropertyTypeField, "nick"}, {PropertyTypeAttribute, AttributeURN}, {PropertyTypeAttribute, AttributeLastSeenOn}}
	p := props[zzverif.Choice("property", len(props))]
	q := &verifQueryable{vals: map[string][]any{string(p.t) + ":" + p.k: vals}}
	eq := NewCondition(p.t, p.k, OpEqual, "")
	ne := NewCondition(p.t, p.k, OpNotEqual, "")
	zzverif.Assert(eq.validate(env, verifResolver()) == nil && ne.validate(env, verifResolver()) == nil, "presence check rejected by the validator")
	zzverif.Assert(verifEval(env, eq, q) == (n == 0), "empty-valued = does not test absence")
	zzverif.Assert(verifEval(env, ne, q) == (n > 0), "empty-valued != does not test presence")
	switch n {
	case 0:
		zzverif.Cover("absent")
	case 1:
		zzverif.Cover("present")
	default:
		zzverif.Cover("multi-valued")
	}
}

// verifLeaf builds one of a few leaf conditions over text properties whose
// contact values are arbitrary.
func verifLeaf(i int) *Condition {
	switch zzverif.Choice("leaf", 7) {
	case 4: // an attribute, a field and a URN scheme may share a key
		return NewCondition(PropertyTypeAttribute, AttributeLanguage, OpEqual, "eng")
	case 5:
		return NewCondition(PropertyTypeField, "language", OpEqual, "fra")
	case 6:
		return NewCondition(PropertyTypeField, "tel", OpNotEqual, "")
	case 0:
		return NewCondition(PropertyTypeField, "nick", OpEqual, "ab")
	case 1:
		return NewCondition(PropertyTypeField, "nick", OpNotEqual, "b")
	case 2:
		return NewCondition(PropertyTypeURN, "tel", OpContains, "abc")
	}
	return NewCondition(PropertyTypeField, "nick", OpNotEqual, "")
}

func verifRefEval(env envs.Environment, n QueryNode, q Queryable) bool {
	switch t := n.(type) {
	case *Condition:
		return verifEval(env, t, q)
	case *BoolCombination:
		if t.op == BoolOperatorAnd {
			r := true
			for _, c := range t.children {
				if !verifRefEval(env, c, q) {
					r = false
				}
			}
			return r
		}
		r := false
		for _, c := range t.children {
			if verifRefEval(env, c, q) {
				r = true
			}
		}
		return r
	}
	return false
}

func verifTree(depth int) QueryNode {
	if depth == 0 || zzverif.Choice("is-leaf", 2) == 1 {
		return verifLeaf(0)
	}
	op := BoolOperatorAnd
	if zzverif.Choice("bool-op", 2) == 1 {
		op = BoolOperatorOr
	}
	n := 2
	if zzverif.Thorough() {
		n = 2 + zzverif.Choice("extra-child", 2)
	}
	var ch []QueryNode
	for i := 0; i < n; i++ {
		if i == 0 || zzverif.Thorough() {
			ch = append(ch, verifTree(depth-1))
		} else {
			ch = append(ch, verifLeaf(0))
		}
	}
	return NewBoolCombination(op, ch...)
}

// VerifC15_Compositional: AND and OR combine their operands' results as
// conjunction and disjunction and Simplify never changes the result, for
// every tree of depth ≤ 2 over leaf conditions evaluated against arbitrary
// contact values; no panic.
// cover: and, or, nested, simplified-differs, same-key-different-types
func VerifC15_Compositional() {
	env := envs.NewBuilder().Build()
	q := &verifQueryable{vals: map[string][]any{}}
	if zzverif.Choice("has-nick", 2) == 1 {
		q.vals["field:nick"] = []any{verifText("nick", 2)}
	}
	if zzverif.Choice("has-tel", 2) == 1 {
		q.vals["urn:tel"] = []any{[]string{"xabcx", "abx"}[zzverif.Choice("tel", 2)]}
	}
	// same-keyed properties of different types with different values
	switch zzverif.Choice("languages", 3) {
	case 1:
		q.vals["attr:language"] = []any{"eng"}
	case 2:
		q.vals["attr:language"] = []any{"eng"}
		q.vals["field:language"] = []any{"fra"}
		zzverif.Cover("same-key-different-types")
	}
	tree := verifTree(2)
	zzverif.Assert(tree.validate(env, verifResolver()) == nil, "tree rejected by the validator")
	got := verifEval(env, tree, q)
	zzverif.Assert(got == verifRefEval(env, tree, q), "AND/OR do not combine their operands as conjunction/disjunction")
	simp := tree.Simplify()
	zzverif.Assert(simp != nil && verifEval(env, simp, q) == got, "simplification changed the result of the query")
	if bc, ok := tree.(*BoolCombination); ok {
		if bc.op == BoolOperatorAnd {
			zzverif.Cover("and")
		} else {
			zzverif.Cover("or")
		}
		for _, c := range bc.children {
			if _, ok := c.(*BoolCombination); ok {
				zzverif.Cover("nested")
			}
		}
		if sb, ok := simp.(*BoolCombination); ok && len(sb.children) != len(bc.children) {
			zzverif.Cover("simplified-differs")
		}
	}
}

// VerifC15_Total: every operator on every property type that the validator
// admits evaluates without panic against 0..2 values of the matching kind.
// cover: admitted, rejected
func VerifC15_Total() {
	env := envs.NewBuilder().Build()
	ops := []Operator{OpEqual, OpNotEqual, OpContains, OpGreaterThan, OpLessThan, OpGreaterThanOrEqual, OpLessThanOrEqual}
	props := []struct {
		t    PropertyType
		k    string
		kind int // 0 text, 1 number, 2 datetime
	}{{PropertyTypeAttribute, AttributeName, 0}, {PropertyTypeAttribute, AttributeLanguage, 0}, {PropertyTypeAttribute, AttributeURN, 0},
		{PropertyTypeAttribute, AttributeTickets, 1}, {PropertyTypeAttribute, AttributeCreatedOn, 2}, {PropertyTypeAttribute, AttributeLastSeenOn, 2},
		{PropertyTypeURN, "tel", 0}, {PropertyTypeField, "nick", 0}, {PropertyTypeField, "age", 1}, {PropertyTypeField, "dob", 2}, {PropertyTypeField, "state", 0},
		{PropertyTypeAttribute, AttributeUUID, 0}, {PropertyTypeAttribute, AttributeStatus, 0}}
	p := props[zzverif.Choice("property", len(props))]
	op := ops[zzverif.Choice("operator", len(ops))]
	values := [][]string{{"", "abc", "eng", "active"}, {"", "10", "x"}, {"", "2024-03-10", "x"}}[p.kind]
	value := values[zzverif.Choice("query-value", len(values))]
	c := NewCondition(p.t, p.k, op, value)
	if c.validate(env, verifResolver()) != nil {
		zzverif.Cover("rejected")
		return
	}
	zzverif.Cover("admitted")
	n := zzverif.Choice("nvalues", 3)
	var vals []any
	for i := 0; i < n; i++ {
		switch p.kind {
		case 0:
			vals = append(vals, verifText("value", 1))
		case 1:
			vals = append(vals, decimal.New(int64(zzverif.Int("number", -100, 100)), 0))
		default:
			vals = append(vals, time.Unix(1710028800+int64(zzverif.Int("seconds", -200000, 200000)), 0).UTC())
		}
	}
	q := &verifQueryable{vals: map[string][]any{string(p.t) + ":" + p.k: vals}}
	verifEval(env, c, q)
}
