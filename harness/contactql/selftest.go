package contactql

import (
	"fmt"

	"github.com/antlr4-go/antlr/v4"
	gen "github.com/nyaruka/goflow/antlr/gen/contactql"
)

type verifErrCounter struct {
	*antlr.DefaultErrorListener
	n int
}

func (l *verifErrCounter) SyntaxError(recognizer antlr.Recognizer, offendingSymbol any, line, column int, msg string, e antlr.RecognitionException) {
	l.n++
}

func verifRealLexSTRING(s string) int {
	lx := gen.NewContactQLLexer(antlr.NewInputStream(s))
	lx.RemoveErrorListeners()
	ec := &verifErrCounter{}
	lx.AddErrorListener(ec)
	tok := lx.NextToken()
	if ec.n > 0 || tok.GetTokenType() != gen.ContactQLLexerSTRING || tok.GetStart() != 0 {
		return -1
	}
	return len(tok.GetText())
}

// VerifSelftest_LexSTRING: the STRING recogniser against the generated lexer
// on every string of ≤ 6 symbols over {" \ a space = é} (native only).
func VerifSelftest_LexSTRING() string {
	alphabet := []byte{'"', '\\', 'a', ' ', '=', 'é'}
	n := 0
	var rec func(prefix []byte, depth int) string
	rec = func(prefix []byte, depth int) string {
		s := "\"" + string(prefix)
		want, got := verifLexSTRING(s), verifRealLexSTRING(s)
		n++
		if want != got {
			return fmt.Sprintf("STRING recogniser disagrees with generated lexer on %q: model %d, lexer %d", s, want, got)
		}
		if depth == 0 {
			return ""
		}
		for _, c := range alphabet {
			var next []byte
			if c == 'é' {
				next = append(append([]byte{}, prefix...), 0xc3, 0xa9)
			} else {
				next = append(append([]byte{}, prefix...), c)
			}
			if e := rec(next, depth-1); e != "" {
				return e
			}
		}
		return ""
	}
	if e := rec(nil, 6); e != "" {
		return e
	}
	fmt.Printf("VERIF-SELFTEST LexSTRING: %d strings agree\n", n)
	return ""
}
