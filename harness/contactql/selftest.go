package contactql

import (
	"fmt"

	"github.com/antlr4-go/antlr/v4"
	gen "github.com/nyaruka/goflow/antlr/gen/contactql"
	"github.com/nyaruka/goflow/envs"
)

type verifErrCounter struct {
	*antlr.DefaultErrorListener
	n int
}

func (l *verifErrCounter) SyntaxError(recognizer antlr.Recognizer, offendingSymbol any, line, column int, msg string, e antlr.RecognitionException) {
	l.n++
}

func verifRealLexSTRING(s string) int {
	lx := gen.NewContactQLLexer(antlr.NewInputStream(s))
	lx.RemoveErrorListeners()
	ec := &verifErrCounter{}
	lx.AddErrorListener(ec)
	tok := lx.NextToken()
	if ec.n > 0 || tok.GetTokenType() != gen.ContactQLLexerSTRING || tok.GetStart() != 0 {
		return -1
	}
	return len(tok.GetText())
}

// VerifSelftest_LexSTRING: the STRING recogniser against the generated lexer
// on every string of ≤ 6 symbols over {" \ a space = é} (native only).
func VerifSelftest_LexSTRING() string {
	alphabet := []byte{'"', '\\', 'a', ' ', '=', 'é'}
	n := 0
	var rec func(prefix []byte, depth int) string
	rec = func(prefix []byte, depth int) string {
		s := "\"" + string(prefix)
		want, got := verifLexSTRING(s), verifRealLexSTRING(s)
		n++
		if want != got {
			return fmt.Sprintf("STRING recogniser disagrees with generated lexer on %q: model %d, lexer %d", s, want, got)
		}
		if depth == 0 {
			return ""
		}
		for _, c := range alphabet {
			var next []byte
			if c == 'é' {
				next = append(append([]byte{}, prefix...), 0xc3, 0xa9)
			} else {
				next = append(append([]byte{}, prefix...), c)
			}
			if e := rec(next, depth-1); e != "" {
				return e
			}
		}
		return ""
	}
	if e := rec(nil, 6); e != "" {
		return e
	}
	fmt.Printf("VERIF-SELFTEST LexSTRING: %d strings agree\n", n)
	return ""
}

// VerifSelftest_QueryParser compares the ContactQL parser model with the
// generated parser natively: every sequence of ≤ 4 tokens over a vocabulary
// covering every lexer rule and their overlaps (keywords as prefixes of
// names, dotted and hyphenated text, unterminated strings, an ERROR
// character), plus spellings without spaces: same accept/reject and, when
// accepted, the same query (String()).
func VerifSelftest_QueryParser() string {
	env := envs.NewBuilder().Build()
	res := verifResolver()
	vocab := []string{"name", "age", "fields.age", "twitter", "=", "!=", "~", ">=", "<", "has", "is", "and", "AND", "or", "(", ")",
		`"bob"`, `"a\"b"`, "bob", "12", "+12", "a.b.c", "x-y", "$", "android", "hash", "orange", `"`, "\"é “x” ü\""}
	n, accepted := 0, 0
	check := func(q string) string {
		n++
		real, rerr := ParseQuery(env, q, res)
		model, merr := verifParseQuery(env, q, res)
		if (rerr == nil) != (merr == nil) {
			return fmt.Sprintf("query parser model and generated parser disagree on accepting %q: real err=%v model err=%v", q, rerr, merr)
		}
		if rerr == nil {
			accepted++
			if real.String() != model.String() {
				return fmt.Sprintf("query parser model and generated parser read %q differently: real %q model %q", q, real.String(), model.String())
			}
		}
		return ""
	}
	var rec func(prefix string, depth int) string
	rec = func(prefix string, depth int) string {
		if prefix != "" {
			if e := check(prefix); e != "" {
				return e
			}
		}
		if depth == 0 {
			return ""
		}
		for _, t := range vocab {
			next := t
			if prefix != "" {
				next = prefix + " " + t
			}
			if e := rec(next, depth-1); e != "" {
				return e
			}
		}
		return ""
	}
	if e := rec("", 4); e != "" {
		return e
	}
	for _, q := range []string{"name=bob", `name="x"or age<3`, "(name=bob)", "name=bob(age=3)", "age>=12and name~x", "name = bob and (age > 3 or age < 1) twitter = x",
		"bob jim or name ~ x", "name has bob", "NAME IS x", "a or b and c d", `name = "a\\" OR language = "eng"`, "fields.age>1 AND urns.twitter=bob", "name=bob)", "(name=bob", "= bob", "name = ", "and", ""} {
		if e := check(q); e != "" {
			return e
		}
	}
	fmt.Printf("VERIF-SELFTEST QueryParser: %d queries agree (%d accepted)\n", n, accepted)
	return ""
}
