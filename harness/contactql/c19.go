package contactql

import (
	"github.com/nyaruka/goflow/envs"
	"github.com/nyaruka/goflow/zzverif"
)

// VerifC19_QueryRejected: under the URN redaction policy the visitor rejects
// every condition on URNs — the urn attribute, a bare scheme, and the
// explicit urns.<scheme> form — with an arbitrary non-empty value; without
// the policy it accepts them; conditions on other properties are unaffected.
// cover: rejected, accepted-without-policy, explicit-prefix, other-property
func VerifC19_QueryRejected() {
	props := []string{"urn", "tel", "twitter", "urns.tel", "URNS.Telegram", "name", "fields.nick"}
	k := zzverif.Choice("property", len(props))
	prop := props[k]
	value := zzverif.String("value", 2)
	for i := 0; i < len(value); i++ {
		zzverif.Assume(value[i] >= '0' && value[i] <= 'z' && value[i] != '\\')
	}
	zzverif.Assume(len(value) > 0)
	redact := zzverif.Choice("policy", 2) == 0
	policy := envs.RedactionPolicyNone
	if redact {
		policy = envs.RedactionPolicyURNs
	}
	env := envs.NewBuilder().WithRedactionPolicy(policy).Build()
	v := newVisitor(env)
	lit := "\"" + value + "\""
	node := v.Visit(verifConditionCtx(prop, "=", verifStringLiteral(lit)))
	c, ok := node.(*Condition)
	zzverif.Assert(ok && c.Value() == value, "visitor did not build the condition")
	isURN := k < 5
	if k == 3 || k == 4 {
		zzverif.Cover("explicit-prefix")
	}
	if !isURN {
		zzverif.Cover("other-property")
		zzverif.Assert(len(v.errors) == 0, "a condition on a non-URN property was rejected")
		return
	}
	if redact {
		zzverif.Assert(len(v.errors) > 0, "a contact query on URNs was not rejected under the URN redaction policy")
		zzverif.Cover("rejected")
	} else {
		zzverif.Assert(len(v.errors) == 0, "a contact query on URNs was rejected without the redaction policy")
		zzverif.Cover("accepted-without-policy")
	}
}
