package contactql

import (
	"strings"

	"github.com/nyaruka/goflow/zzverif"
)

func verifValue(name string, n int, ascii bool) string {
	s := zzverif.String(name, n)
	for i := 0; i < len(s); i++ {
		zzverif.Assume(s[i] != 0)
		if ascii {
			zzverif.Assume(s[i] < 0x80)
		}
	}
	return s
}

func verifIsBareNumber(v string) bool {
	// reference for isNumberRegex = ^\d+(\.\d+)?$
	if len(v) == 0 {
		return false
	}
	i := 0
	for i < len(v) && v[i] >= '0' && v[i] <= '9' {
		i++
	}
	if i == 0 {
		return false
	}
	if i == len(v) {
		return true
	}
	if v[i] != '.' {
		return false
	}
	i++
	j := i
	for j < len(v) && v[j] >= '0' && v[j] <= '9' {
		j++
	}
	return j > i && j == len(v)
}

// VerifC14_ConditionLiteral: a condition built programmatically with an
// arbitrary value v prints as `prop op lit` where, at any position in a
// multi-condition query, the lexer's STRING token that starts at lit ends
// exactly at the end of lit and the visitor reads v back from it; values
// printed bare are exactly decimal numbers, which lex as a single word.
// cover: quoted, bare, has-quote, trailing-backslash, first, middle, last
func VerifC14_ConditionLiteral() {
	n := 3
	if zzverif.Thorough() {
		n = 4
	}
	v := verifValue("v", n, true)
	kind := zzverif.Choice("prop", 3)
	var c *Condition
	var prefix string
	switch kind {
	case 0:
		c, prefix = NewCondition(PropertyTypeAttribute, AttributeName, OpEqual, v), "name = "
	case 1:
		c, prefix = NewCondition(PropertyTypeField, "age", OpNotEqual, v), "fields.age != "
	default:
		c, prefix = NewCondition(PropertyTypeURN, "tel", OpContains, v), "urns.tel ~ "
	}
	printed := c.String()
	zzverif.Assert(strings.HasPrefix(printed, prefix), "condition does not print as property, operator, literal")
	lit := printed[len(prefix):]

	other1 := NewCondition(PropertyTypeAttribute, AttributeLanguage, OpEqual, "eng")
	other2 := NewCondition(PropertyTypeField, "nick", OpEqual, "a\"b")
	pos := zzverif.Choice("pos", 3)
	var q QueryNode
	switch pos {
	case 0:
		zzverif.Cover("first")
		q = NewBoolCombination(BoolOperatorOr, c, other1, other2)
	case 1:
		zzverif.Cover("middle")
		q = NewBoolCombination(BoolOperatorAnd, other1, c, other2)
	default:
		zzverif.Cover("last")
		q = NewBoolCombination(BoolOperatorOr, other1, other2, c)
	}
	text := Stringify(q)
	at := strings.Index(text, printed)
	zzverif.Assert(at >= 0, "printed condition is not part of the printed query")
	rest := text[at+len(prefix):]

	if verifIsBareNumber(v) {
		zzverif.Cover("bare")
		zzverif.Assert(lit == v, "a decimal value is not printed bare")
		return
	}
	zzverif.Cover("quoted")
	zzverif.Assert(len(lit) >= 2 && lit[0] == '"', "a non-decimal value is not printed as a quoted literal")
	if strings.IndexByte(v, '"') >= 0 {
		zzverif.Cover("has-quote")
	}
	got := newVisitor(nil).VisitStringLiteral(verifStringLiteral(lit)).(string)
	zzverif.Assert(got == v, "quoted literal does not read back as the value")
	if zzverif.Known("C14-lexer-trailing-backslash", strings.HasSuffix(v, "\\") && pos != 2) {
		zzverif.Cover("trailing-backslash")
	}
	zzverif.Assert(verifLexSTRING(rest) == len(lit), "STRING token starting at the literal does not end where the literal ends")
}
