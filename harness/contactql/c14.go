package contactql

import (
	"strconv"
	"strings"

	"github.com/nyaruka/goflow/envs"

	"github.com/nyaruka/goflow/zzverif"
)

func verifValue(name string, n int, ascii bool) string {
	s := zzverif.String(name, n)
	for i := 0; i < len(s); i++ {
		zzverif.Assume(s[i] != 0)
		if ascii {
			zzverif.Assume(s[i] < 0x80)
		}
	}
	return s
}

func verifIsBareNumber(v string) bool {
	// reference for isNumberRegex = ^\d+(\.\d+)?$
	if len(v) == 0 {
		return false
	}
	i := 0
	for i < len(v) && v[i] >= '0' && v[i] <= '9' {
		i++
	}
	if i == 0 {
		return false
	}
	if i == len(v) {
		return true
	}
	if v[i] != '.' {
		return false
	}
	i++
	j := i
	for j < len(v) && v[j] >= '0' && v[j] <= '9' {
		j++
	}
	return j > i && j == len(v)
}

// VerifC14_ConditionLiteral: a condition built programmatically with an
// arbitrary value v prints as `prop op lit` where, at any position in a
// multi-condition query, the lexer's STRING token that starts at lit ends
// exactly at the end of lit and the visitor reads v back from it; values
// printed bare are exactly decimal numbers, which lex as a single word.
// cover: quoted, bare, has-quote, trailing-backslash, first, middle, last
func VerifC14_ConditionLiteral() {
	n := 3
	if zzverif.Thorough() {
		n = 4
	}
	v := verifValue("v", n, true)
	kind := zzverif.Choice("prop", 3)
	var c *Condition
	var prefix string
	switch kind {
	case 0:
		c, prefix = NewCondition(PropertyTypeAttribute, AttributeName, OpEqual, v), "name = "
	case 1:
		c, prefix = NewCondition(PropertyTypeField, "age", OpNotEqual, v), "fields.age != "
	default:
		c, prefix = NewCondition(PropertyTypeURN, "tel", OpContains, v), "urns.tel ~ "
	}
	printed := c.String()
	zzverif.Assert(strings.HasPrefix(printed, prefix), "condition does not print as property, operator, literal")
	lit := printed[len(prefix):]

	other1 := NewCondition(PropertyTypeAttribute, AttributeLanguage, OpEqual, "eng")
	other2 := NewCondition(PropertyTypeField, "nick", OpEqual, "a\"b")
	pos := zzverif.Choice("pos", 3)
	var q QueryNode
	switch pos {
	case 0:
		zzverif.Cover("first")
		q = NewBoolCombination(BoolOperatorOr, c, other1, other2)
	case 1:
		zzverif.Cover("middle")
		q = NewBoolCombination(BoolOperatorAnd, other1, c, other2)
	default:
		zzverif.Cover("last")
		q = NewBoolCombination(BoolOperatorOr, other1, other2, c)
	}
	text := Stringify(q)
	at := strings.Index(text, printed)
	zzverif.Assert(at >= 0, "printed condition is not part of the printed query")
	rest := text[at+len(prefix):]

	if verifIsBareNumber(v) {
		zzverif.Cover("bare")
		zzverif.Assert(lit == v, "a decimal value is not printed bare")
		return
	}
	zzverif.Cover("quoted")
	zzverif.Assert(len(lit) >= 2 && lit[0] == '"', "a non-decimal value is not printed as a quoted literal")
	if strings.IndexByte(v, '"') >= 0 {
		zzverif.Cover("has-quote")
	}
	got := newVisitor(nil).VisitStringLiteral(verifStringLiteral(lit)).(string)
	zzverif.Assert(got == v, "quoted literal does not read back as the value")
	if zzverif.Known("C14-lexer-trailing-backslash", strings.HasSuffix(v, "\\") && pos != 2) {
		zzverif.Cover("trailing-backslash")
	}
	zzverif.Assert(verifLexSTRING(rest) == len(lit), "STRING token starting at the literal does not end where the literal ends")
}

// verifDumpQuery renders the structure of a query: boolean structure,
// property types and keys, operators and values (values quoted by Go, so that
// nothing in a value can imitate structure).
func verifDumpQuery(n QueryNode) string {
	switch t := n.(type) {
	case *Condition:
		return "(" + string(t.propType) + " " + t.propKey + " " + string(t.operator) + " " + strconvQuote(t.value) + ")"
	case *BoolCombination:
		parts := make([]string, len(t.children))
		for i, c := range t.children {
			parts[i] = verifDumpQuery(c)
		}
		return "[" + string(t.op) + " " + strings.Join(parts, " ") + "]"
	}
	return "?"
}

func strconvQuote(s string) string {
	const hex = "0123456789abcdef"
	out := []byte{'<'}
	for i := 0; i < len(s); i++ {
		out = append(out, hex[s[i]>>4], hex[s[i]&15])
	}
	return string(append(out, '>'))
}

func verifEnv() envs.Environment {
	if zzverif.Choice("redaction", 2) == 1 {
		return envs.NewBuilder().WithRedactionPolicy(envs.RedactionPolicyURNs).Build()
	}
	return envs.NewBuilder().Build()
}

// VerifC14_Reparse: a valid query built programmatically — a condition with
// an arbitrary ASCII value (≤ 2 bytes quick / 3 thorough: quotes,
// backslashes, operators, parentheses, keyword letters) first, in the middle
// or last among two fixed conditions, under AND, OR or a nested combination —
// formats to text that ParseQuery (parser model + the real visitor,
// validation and simplification) reads back to a structurally identical
// query, under both redaction policies.
// cover: quoted, bare, has-quote, has-backslash, trailing-backslash, nested
func VerifC14_Reparse() {
	n := 2
	if zzverif.Thorough() {
		n = 3
	}
	v := verifValue("v", n, true)
	zzverif.Assume(len(v) > 0)
	env := verifEnv()
	c := NewCondition(PropertyTypeAttribute, AttributeName, OpEqual, v)
	if zzverif.Choice("prop", 2) == 1 {
		c = NewCondition(PropertyTypeField, "nick", OpNotEqual, v)
	}
	other1 := NewCondition(PropertyTypeAttribute, AttributeLanguage, OpEqual, "eng")
	other2 := NewCondition(PropertyTypeField, "nick", OpEqual, "a\"b")
	pos := zzverif.Choice("pos", 3)
	var q QueryNode
	switch zzverif.Choice("shape", 3) {
	case 0:
		q = NewBoolCombination(BoolOperatorOr, [][]QueryNode{{c, other1, other2}, {other1, c, other2}, {other1, other2, c}}[pos]...)
	case 1:
		q = NewBoolCombination(BoolOperatorAnd, [][]QueryNode{{c, other1, other2}, {other1, c, other2}, {other1, other2, c}}[pos]...)
	default:
		zzverif.Cover("nested")
		inner := NewBoolCombination(BoolOperatorOr, [][]QueryNode{{c, other1}, {other1, c}, {other1, c}}[pos]...)
		q = NewBoolCombination(BoolOperatorAnd, [][]QueryNode{{inner, other2}, {inner, other2}, {other2, inner}}[pos]...)
	}
	res := verifResolver()
	zzverif.Assert(q.validate(env, res) == nil, "setup: query not valid")
	switch {
	case verifIsBareNumber(v):
		zzverif.Cover("bare")
	case strings.IndexByte(v, '"') >= 0:
		zzverif.Cover("has-quote")
	case strings.IndexByte(v, '\\') >= 0:
		zzverif.Cover("has-backslash")
	default:
		zzverif.Cover("quoted")
	}
	text := Stringify(q)
	lastInText := strings.HasSuffix(text, c.String()) || strings.HasSuffix(text, c.String()+")")
	if zzverif.Known("C14-lexer-trailing-backslash", strings.HasSuffix(v, "\\") && !lastInText) {
		zzverif.Cover("trailing-backslash")
	}
	back, err := ParseQuery(env, text, res)
	zzverif.Assert(err == nil, "the text of a valid query does not parse")
	zzverif.Assert(verifDumpQuery(back.Root()) == verifDumpQuery(q.Simplify()), "the text of a query parses back to a different query")
}

// VerifC14_Injection: a value substituted into a query template with the
// engine's escaping (flows.ContactQueryEscaping = strconv.Quote) becomes
// exactly one literal: `name = <escaped v> OR language = "eng"` parses to the
// disjunction of name = v and language = eng for every ASCII value v of
// ≤ 3 / 4 bytes, under both redaction policies.
// cover: has-quote, has-backslash, keyword-or-operator, trailing-backslash, non-ascii
func VerifC14_Injection() {
	n := 3
	if zzverif.Thorough() {
		n = 4
	}
	v := verifValue("v", n, true)
	zzverif.Assume(len(v) > 0)
	// … or a value with characters outside ASCII, typographic quotes among them
	if k := zzverif.Choice("non-ascii-value", 4); k > 0 {
		v = []string{"bob\u201d OR name != \u201c", "\u201c", "é \u201ex\u201d ü"}[k-1]
		zzverif.Cover("non-ascii")
	}
	env := verifEnv()
	switch {
	case strings.IndexByte(v, '"') >= 0:
		zzverif.Cover("has-quote")
	case strings.IndexByte(v, '\\') >= 0:
		zzverif.Cover("has-backslash")
	case strings.ContainsAny(v, "=()~<>") || strings.EqualFold(v, "or"):
		zzverif.Cover("keyword-or-operator")
	}
	if zzverif.Known("C14-lexer-trailing-backslash", strings.HasSuffix(v, "\\")) {
		zzverif.Cover("trailing-backslash")
	}
	text := "name = " + strconv.Quote(v) + " OR language = \"eng\""
	q, err := ParseQuery(env, text, verifResolver())
	zzverif.Assert(err == nil, "a template with an escaped value does not parse")
	want := NewBoolCombination(BoolOperatorOr, NewCondition(PropertyTypeAttribute, AttributeName, OpEqual, v), NewCondition(PropertyTypeAttribute, AttributeLanguage, OpEqual, "eng"))
	zzverif.Assert(verifDumpQuery(q.Root()) == verifDumpQuery(want), "an escaped value added, dropped or altered conditions")
}

var verifQueryTokens = []string{"name", "nick", "age", "=", "!=", "~", ">", "has", "and", "OR", "(", ")", `"x y"`, `"a\"b"`, "bob", "12", "1.50", "fields.nick", "language"}

// VerifC14_TextRoundTrip: for every query text of ≤ 4 tokens (5 thorough)
// over a vocabulary of properties, comparators and aliases, AND/OR,
// parentheses, quoted and bare literals that the parser accepts: formatting
// the parsed query and parsing that text again gives a structurally
// identical query, and formatting is then a fixed point.
// cover: accepted, rejected, implicit-condition, implicit-and, grouping
func VerifC14_TextRoundTrip() {
	n := 4
	if zzverif.Thorough() {
		n = 5
	}
	env := envs.NewBuilder().Build()
	k := 1 + zzverif.Choice("tokens", n)
	text := ""
	for i := 0; i < k; i++ {
		if i > 0 {
			text += " "
		}
		text += verifQueryTokens[zzverif.Choice("token", len(verifQueryTokens))]
	}
	// (texts made of digits, spaces, dots, dashes and parentheses only are first tried as a phone number through the phonenumbers library, which is not encoded)
	zzverif.Assume(strings.ContainsAny(text, "abcdefghijklmnopqrstuvwxyzOR=!~>\""))
	res := verifResolver()
	q1, err := ParseQuery(env, text, res)
	if err != nil {
		zzverif.Cover("rejected")
		return
	}
	zzverif.Cover("accepted")
	if strings.Contains(text, "(") {
		zzverif.Cover("grouping")
	}
	printed := q1.String()
	q2, err := ParseQuery(env, printed, res)
	zzverif.Assert(err == nil, "the formatted text of an accepted query does not parse")
	zzverif.Assert(verifDumpQuery(q2.Root()) == verifDumpQuery(q1.Root()), "formatting and re-parsing an accepted query gives a different query")
	zzverif.Assert(q2.String() == printed, "formatting a re-parsed query gives a different text")
	if bc, ok := q1.Root().(*BoolCombination); ok && !strings.Contains(strings.ToLower(text), "and") && !strings.Contains(text, "OR") {
		_ = bc
		zzverif.Cover("implicit-and")
	}
	if c, ok := q1.Root().(*Condition); ok && c.propKey == AttributeName && !strings.Contains(text, "name") {
		zzverif.Cover("implicit-condition")
	}
}

// verifShape builds a query tree of the given depth whose shape the executor
// chooses: a condition (taken in order from a pool of distinct ones), or an
// AND / OR of two or three sub-trees.
var verifShapeLeaf int

func verifShape(depth int) QueryNode {
	pool := []QueryNode{
		NewCondition(PropertyTypeAttribute, AttributeName, OpEqual, "bob"), NewCondition(PropertyTypeField, "age", OpLessThan, "18"),
		NewCondition(PropertyTypeField, "age", OpGreaterThan, "65"), NewCondition(PropertyTypeField, "nick", OpNotEqual, ""),
		NewCondition(PropertyTypeAttribute, AttributeLanguage, OpEqual, "eng"), NewCondition(PropertyTypeField, "nick", OpEqual, "bobby"),
		NewCondition(PropertyTypeAttribute, AttributeName, OpNotEqual, "jim"), NewCondition(PropertyTypeField, "age", OpEqual, "40"),
	}
	kind := 0
	if depth > 1 {
		kind = zzverif.Choice("node", 3) // condition, AND, OR
	}
	leaf := func() QueryNode {
		verifShapeLeaf++
		return pool[(verifShapeLeaf-1)%len(pool)]
	}
	if kind == 0 {
		return leaf()
	}
	// one child may itself be a combination (first or last), the others are
	// conditions; two or three children
	var children []QueryNode
	if zzverif.Choice("nested-child-last", 2) == 1 {
		children = []QueryNode{leaf(), verifShape(depth - 1)}
	} else {
		children = []QueryNode{verifShape(depth - 1), leaf()}
	}
	if zzverif.Choice("third-child", 2) == 1 {
		children = append(children, leaf())
	}
	op := BoolOperatorAnd
	if kind == 2 {
		op = BoolOperatorOr
	}
	return NewBoolCombination(op, children...)
}

func verifDepthOps(n QueryNode) (int, string) {
	bc, ok := n.(*BoolCombination)
	if !ok {
		return 1, ""
	}
	best, path := 0, ""
	for _, c := range bc.Children() {
		if d, p := verifDepthOps(c); d > best {
			best, path = d, p
		}
	}
	return best + 1, strings.ToUpper(string(bc.Operator())) + ">" + path
}

// VerifC14_Structure: "formatting the parsed query and parsing that text
// again gives a structurally identical query (same conditions, operators,
// values and boolean structure)", for the boolean structure: every tree of
// AND / OR combinations of two or three children (one of which may itself
// be a combination, first or last) up to three levels deep (four in the
// thorough tier) over distinct conditions — built
// programmatically, and the query the parser makes of its text — formats to
// text that parses back to the same simplified tree, and formatting is stable
// after one round.
// cover: flat, two-levels, three-levels, or-and-or, and-or-and
func VerifC14_Structure() {
	depth := 4
	if zzverif.Thorough() {
		depth = 5
	}
	verifShapeLeaf = 0
	q := verifShape(depth)
	if _, isCombination := q.(*BoolCombination); !isCombination {
		return
	}
	env, res := envs.NewBuilder().Build(), verifResolver()
	zzverif.Assert(q.validate(env, res) == nil, "setup: query not valid")
	want := q.Simplify()
	d, ops := verifDepthOps(want)
	switch d {
	case 2:
		zzverif.Cover("flat")
	case 3:
		zzverif.Cover("two-levels")
	default:
		zzverif.Cover("three-levels")
	}
	if strings.HasPrefix(ops, "OR>AND>OR") {
		zzverif.Cover("or-and-or")
	}
	if strings.HasPrefix(ops, "AND>OR>AND") {
		zzverif.Cover("and-or-and")
	}
	text := Stringify(want)
	back, err := ParseQuery(env, text, res)
	zzverif.Assert(err == nil, "the text of a valid query does not parse")
	zzverif.Assert(verifDumpQuery(back.Root()) == verifDumpQuery(want), "the text of a query parses back to a query of another boolean structure")
	zzverif.Assert(back.String() == text, "formatting is not stable after one round")
}
