package contactql

import (
	"github.com/nyaruka/goflow/assets"
	"github.com/nyaruka/goflow/envs"
)

// VerifNewQuery wraps a programmatically built (and validated) root node into
// a ContactQuery, as ParseQuery does after parsing — the generated parser is
// not encoded, so harnesses build query trees directly.
func VerifNewQuery(env envs.Environment, root QueryNode, resolver Resolver) (*ContactQuery, error) {
	if err := root.validate(env, resolver); err != nil {
		return nil, err
	}
	return &ContactQuery{root: root.Simplify(), resolver: resolver}, nil
}

// verifQueryable is a stub Queryable: values per "type:key".
type verifQueryable struct {
	vals map[string][]any
}

func (q *verifQueryable) QueryProperty(env envs.Environment, key string, propType PropertyType) []any {
	return q.vals[string(propType)+":"+key]
}

type verifField struct {
	key string
	typ assets.FieldType
}

func (f *verifField) UUID() assets.FieldUUID { return assets.FieldUUID("uuid-" + f.key) }
func (f *verifField) Key() string            { return f.key }
func (f *verifField) Name() string           { return f.key }
func (f *verifField) Type() assets.FieldType { return f.typ }

func verifResolver() Resolver {
	return NewMockResolver([]assets.Field{
		&verifField{"age", assets.FieldTypeNumber},
		&verifField{"nick", assets.FieldTypeText},
		&verifField{"dob", assets.FieldTypeDatetime},
		&verifField{"state", assets.FieldTypeState},
		&verifField{"language", assets.FieldTypeText}, // (keys shared with an attribute and a URN scheme)
		&verifField{"tel", assets.FieldTypeText},
	}, nil, nil)
}
