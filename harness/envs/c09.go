package envs

import (
	"github.com/nyaruka/goflow/zzverif"
)

const verifC09Locations = `{"name":"Rwanda","children":[
	{"name":"Kigali City","children":[{"name":"Gasabo","children":[{"name":"Remera"},{"name":"Gisozi"}]},{"name":"Nyarugenge","children":[{"name":"Gitega"}]}]},
	{"name":"Eastern Province","children":[{"name":"Gatsibo","children":[{"name":"Remera"}]},{"name":"Ngoma","children":[{"name":"Remera"}]},{"name":"Kayonza","children":[{"name":"Gitega"}]}]}]}`

// VerifC09_Locations: the location hierarchy is asset data shared by every
// session.  Looking locations up by name — a ward name that exists in three
// districts, one that exists in two, with and without a parent to narrow the
// matches, in any order of three lookups (as has_ward / has_district and the
// parsing of ward and district fields do) — never writes into the hierarchy
// outside a lock (shared-state monitor; natively the same lookups run from 8
// goroutines under the race detector), and every lookup gives the answer it
// gives on a hierarchy nobody else has used.
// cover: three-districts, first-match, later-match, without-parent
func VerifC09_Locations() {
	env := NewBuilder().Build()
	load := func() *LocationHierarchy {
		h := &LocationHierarchy{}
		zzverif.Assert(h.UnmarshalJSON([]byte(verifC09Locations)) == nil, "setup: locations did not load")
		return h
	}
	type lookup struct {
		ward, district string // district "" = no parent
	}
	menu := []lookup{{"Remera", "Gasabo"}, {"Remera", "Gatsibo"}, {"Remera", "Ngoma"}, {"Remera", ""}, {"Gitega", "Kayonza"}, {"Gitega", "Nyarugenge"}}
	var seq [3]lookup
	for k := range seq {
		seq[k] = menu[zzverif.Choice("lookup", len(menu))]
	}
	find := func(h *LocationHierarchy, l lookup) string {
		var parent *Location
		if l.district != "" {
			ds := h.FindByName(env, l.district, LocationLevel(2), nil)
			if len(ds) != 1 {
				return "district not found"
			}
			parent = ds[0]
		}
		out := ""
		for _, w := range h.FindByName(env, l.ward, LocationLevel(3), parent) {
			out += string(w.Path()) + ";"
		}
		return out
	}
	// what each lookup gives alone
	var alone [3]string
	for k, l := range seq {
		alone[k] = find(load(), l)
		switch {
		case l.district == "":
			zzverif.Cover("without-parent")
		case l.district == "Gasabo" || l.district == "Nyarugenge":
			zzverif.Cover("first-match")
		default:
			zzverif.Cover("later-match")
		}
		if l.ward == "Remera" {
			zzverif.Cover("three-districts")
		}
	}
	shared := load()
	zzverif.Freeze("location hierarchy", shared)
	zzverif.Parallel(8, func(w int) {
		for k, l := range seq {
			got := find(shared, l)
			if !zzverif.Symbolic() && w > 0 {
				continue // (natively the other goroutines only provide the concurrency)
			}
			zzverif.Assert(got == alone[k], "a location lookup over a shared hierarchy gives another answer than on a hierarchy of its own")
		}
	})
}
