package runs

import "github.com/nyaruka/goflow/flows"

// VerifSetFlow replaces the flow a run points at, the way ReadRun resolves it
// again from the asset store when a session is restored: nil when the flow
// has been deleted (missing asset), or a changed definition.
func VerifSetFlow(r flows.Run, f flows.Flow) {
	r.(*run).flow = f
}
