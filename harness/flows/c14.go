package flows

import (
	"strings"

	"github.com/nyaruka/goflow/assets"
	"github.com/nyaruka/goflow/contactql"
	"github.com/nyaruka/goflow/envs"
	"github.com/nyaruka/goflow/excellent"
	"github.com/nyaruka/goflow/excellent/types"
	"github.com/nyaruka/goflow/zzverif"
)

func verifQueryShape(n contactql.QueryNode) string {
	switch t := n.(type) {
	case *contactql.Condition:
		hex := "0123456789abcdef"
		v := ""
		for i := 0; i < len(t.Value()); i++ {
			v += string([]byte{hex[t.Value()[i]>>4], hex[t.Value()[i]&15]})
		}
		return "(" + string(t.PropertyType()) + " " + t.PropertyKey() + " " + string(t.Operator()) + " <" + v + ">)"
	case *contactql.BoolCombination:
		parts := make([]string, len(t.Children()))
		for i, c := range t.Children() {
			parts[i] = verifQueryShape(c)
		}
		return "[" + string(t.Operator()) + " " + strings.Join(parts, " ") + "]"
	}
	return "?"
}

// VerifC14_TemplateSubstitution: a contact query template evaluated by the
// real template evaluator with the engine's escaping
// (Evaluator.Template(…, ContactQueryEscaping), as contact_query fields and
// query based actions are) in which one arbitrary value (≤ 3 ASCII bytes
// quick / 4 thorough) is substituted several times — as a bare @identifier
// twice and as an @(expression) — parses to exactly the conditions of the
// template with the value as each literal: the value never adds, drops or
// alters conditions, under both redaction policies.
// cover: has-quote, has-space-or-operator, keyword, plain, trailing-backslash
func VerifC14_TemplateSubstitution() {
	n := 3
	if zzverif.Thorough() {
		n = 4
	}
	v := zzverif.String("value", n)
	zzverif.Assume(len(v) > 0)
	for i := 0; i < len(v); i++ {
		zzverif.Assume(v[i] != 0 && v[i] < 0x80)
	}
	env := envs.NewBuilder().Build()
	if zzverif.Choice("redaction", 2) == 1 {
		env = envs.NewBuilder().WithRedactionPolicy(envs.RedactionPolicyURNs).Build()
	}
	switch {
	case strings.IndexByte(v, '"') >= 0:
		zzverif.Cover("has-quote")
	case strings.ContainsAny(v, " =()~<>!"):
		zzverif.Cover("has-space-or-operator")
	case strings.EqualFold(v, "or") || strings.EqualFold(v, "and"):
		zzverif.Cover("keyword")
	default:
		zzverif.Cover("plain")
	}
	if zzverif.Known("C14-lexer-trailing-backslash", strings.HasSuffix(v, "\\")) {
		zzverif.Cover("trailing-backslash")
	}
	ctx := types.NewXObject(map[string]types.XValue{"v": types.NewXText(v)})
	text, _, err := excellent.NewEvaluator().Template(env, ctx, "name = @v OR nick = @v OR alias = @(v)", ContactQueryEscaping)
	zzverif.Assert(err == nil, "the query template did not evaluate")
	fields := NewFieldAssets([]assets.Field{&verifLocField{"nick", assets.FieldTypeText}, &verifLocField{"alias", assets.FieldTypeText}})
	q, err := contactql.ParseQuery(env, text, fields)
	zzverif.Assert(err == nil, "a query template with escaped values does not parse")
	want := contactql.NewBoolCombination(contactql.BoolOperatorOr,
		contactql.NewCondition(contactql.PropertyTypeAttribute, contactql.AttributeName, contactql.OpEqual, v),
		contactql.NewCondition(contactql.PropertyTypeField, "nick", contactql.OpEqual, v),
		contactql.NewCondition(contactql.PropertyTypeField, "alias", contactql.OpEqual, v))
	zzverif.Assert(verifQueryShape(q.Root()) == verifQueryShape(want), "a substituted value added, dropped or altered conditions")
}
