package flows

import (
	"time"

	"github.com/nyaruka/gocommon/urns"
	"github.com/nyaruka/goflow/assets"
	"github.com/nyaruka/goflow/contactql"
	"github.com/nyaruka/goflow/envs"
	"github.com/nyaruka/goflow/excellent/types"
	"github.com/nyaruka/goflow/zzverif"
	"github.com/shopspring/decimal"
)

type verifC15Field struct {
	key string
	typ assets.FieldType
}

func (f *verifC15Field) UUID() assets.FieldUUID { return assets.FieldUUID("uuid-" + f.key) }
func (f *verifC15Field) Key() string            { return f.key }
func (f *verifC15Field) Name() string           { return f.key }
func (f *verifC15Field) Type() assets.FieldType { return f.typ }

// VerifC15_RealContact: "Evaluating a parsed query against a contact never
// panics", with the real flows.Contact as the thing queried (the other C15
// harnesses use a stub).  The contact has a number, a datetime, a text and a
// state field, each unset, set to a typed value (the number is an arbitrary
// byte), or set to text that has no typed reading ("old" in a number field,
// as the engine stores a value it could not parse); a name, a language, URNs
// of two schemes, a ticket or none, seen before or never.  One condition on
// any of these properties with any operator, against a value of the
// property's type or the empty value, through the real EvaluateQuery: no
// panic; `p = ""` holds exactly when the contact has no (typed) value and
// `p != ""` is its negation; for a present number exactly one of <, =, >
// holds against the query value, <= and >= are the unions and != negates =.
// cover: number-typed, number-text-only, number-unset, datetime-typed, datetime-text-only, text-field, state-text-only, attribute, urn, absent-property, present-property, presence-tested
func VerifC15_RealContact() {
	env := envs.NewBuilder().Build()
	defs := []assets.Field{&verifC15Field{"age", assets.FieldTypeNumber}, &verifC15Field{"dob", assets.FieldTypeDatetime},
		&verifC15Field{"nick", assets.FieldTypeText}, &verifC15Field{"state", assets.FieldTypeState}}
	fields := NewFieldAssets(defs)
	resolver := contactql.NewMockResolver(defs, nil, nil)
	t0 := time.Date(2020, 3, 4, 12, 0, 0, 0, time.UTC)
	contact := &Contact{uuid: "5d76d86b-3bb9-4d5a-b822-c9d86f5d8e4f", name: "Bob", language: "eng", status: ContactStatusActive, createdOn: t0,
		urns: URNList{}, fields: FieldValues{}}
	contact.urns = append(contact.urns, NewContactURN(urns.URN("tel:+250788123123"), nil), NewContactURN(urns.URN("twitter:bobby"), nil))
	if zzverif.Choice("seen-before", 2) == 1 {
		contact.lastSeenOn = &t0
	}
	if zzverif.Choice("has-name", 2) == 0 {
		contact.name = ""
	}

	type prop struct {
		t       contactql.PropertyType
		key     string
		value   string // a value of the property's type
		present bool
		numeric bool
	}
	var p prop
	age := int(zzverif.Byte("age"))
	switch zzverif.Choice("property", 9) {
	case 0, 1, 2: // number field
		p = prop{contactql.PropertyTypeField, "age", "100", false, true}
		switch zzverif.Choice("field-state", 3) {
		case 0:
			zzverif.Cover("number-unset")
		case 1:
			n := types.NewXNumber(decimal.New(int64(age), 0))
			contact.fields.Set(fields.Get("age"), NewValue(types.NewXText("n"), nil, n, "", "", ""))
			p.present = true
			zzverif.Cover("number-typed")
		default:
			contact.fields.Set(fields.Get("age"), NewValue(types.NewXText("old"), nil, nil, "", "", ""))
			zzverif.Cover("number-text-only")
		}
	case 3: // datetime field
		p = prop{contactql.PropertyTypeField, "dob", "04-03-2020", false, false}
		switch zzverif.Choice("field-state", 3) {
		case 1:
			d := types.NewXDateTime(t0)
			contact.fields.Set(fields.Get("dob"), NewValue(types.NewXText("2020-03-04T12:00:00Z"), d, nil, "", "", ""))
			p.present = true
			zzverif.Cover("datetime-typed")
		case 2:
			contact.fields.Set(fields.Get("dob"), NewValue(types.NewXText("yesterday"), nil, nil, "", "", ""))
			zzverif.Cover("datetime-text-only")
		}
	case 4: // text field
		p = prop{contactql.PropertyTypeField, "nick", "bobby", false, false}
		if zzverif.Choice("field-state", 2) == 1 {
			contact.fields.Set(fields.Get("nick"), NewValue(types.NewXText("bobby"), nil, nil, "", "", ""))
			p.present = true
		}
		zzverif.Cover("text-field")
	case 5: // state field holding text that is no known location
		p = prop{contactql.PropertyTypeField, "state", "Kigali", false, false}
		if zzverif.Choice("field-state", 2) == 1 {
			contact.fields.Set(fields.Get("state"), NewValue(types.NewXText("Nowhere"), nil, nil, "", "", ""))
			zzverif.Cover("state-text-only")
		}
	case 6:
		attrs := []prop{{contactql.PropertyTypeAttribute, contactql.AttributeName, "Bob", contact.name != "", false},
			{contactql.PropertyTypeAttribute, contactql.AttributeLanguage, "eng", true, false},
			{contactql.PropertyTypeAttribute, contactql.AttributeLastSeenOn, "04-03-2020", contact.lastSeenOn != nil, false},
			{contactql.PropertyTypeAttribute, contactql.AttributeCreatedOn, "04-03-2020", true, false}}
		p = attrs[zzverif.Choice("attribute", len(attrs))]
		zzverif.Cover("attribute")
	case 7:
		p = prop{contactql.PropertyTypeURN, "twitter", "bobby", true, false}
		zzverif.Cover("urn")
	default:
		p = prop{contactql.PropertyTypeURN, "facebook", "123", false, false}
		zzverif.Cover("urn")
	}
	if p.present {
		zzverif.Cover("present-property")
	} else {
		zzverif.Cover("absent-property")
	}
	eval := func(op contactql.Operator, value string) (bool, bool) {
		q, err := contactql.VerifNewQuery(env, contactql.NewCondition(p.t, p.key, op, value), resolver)
		if err != nil {
			return false, false // (an operator the property's type does not admit)
		}
		return contactql.EvaluateQuery(env, q, contact), true
	}
	isUnset, ok1 := eval(contactql.OpEqual, "")
	isSet, ok2 := eval(contactql.OpNotEqual, "")
	if ok1 && ok2 { // (created_on admits no presence test: every contact has one)
		zzverif.Assert(isUnset == !p.present, "an empty-valued '=' does not test the absence of the property")
		zzverif.Assert(isSet == p.present, "an empty-valued '!=' does not test the presence of the property")
		zzverif.Cover("presence-tested")
	}
	ops := []contactql.Operator{contactql.OpEqual, contactql.OpNotEqual, contactql.OpContains, contactql.OpGreaterThan, contactql.OpLessThan, contactql.OpGreaterThanOrEqual, contactql.OpLessThanOrEqual}
	res := map[contactql.Operator]bool{}
	for _, op := range ops {
		r, ok := eval(op, p.value)
		if ok {
			res[op] = r
		}
	}
	if p.numeric && p.present {
		lt, eq, gt := res[contactql.OpLessThan], res[contactql.OpEqual], res[contactql.OpGreaterThan]
		n := 0
		for _, b := range []bool{lt, eq, gt} {
			if b {
				n++
			}
		}
		zzverif.Assert(n == 1, "for a present number not exactly one of <, =, > holds")
		zzverif.Assert(lt == (age < 100) && eq == (age == 100), "a number comparison disagrees with the numbers")
		zzverif.Assert(res[contactql.OpLessThanOrEqual] == (lt || eq) && res[contactql.OpGreaterThanOrEqual] == (gt || eq), "<= or >= is not the union of its parts")
		zzverif.Assert(res[contactql.OpNotEqual] == !eq, "!= is not the negation of =")
	}
	if !p.present {
		for _, op := range []contactql.Operator{contactql.OpEqual, contactql.OpGreaterThan, contactql.OpLessThan, contactql.OpGreaterThanOrEqual, contactql.OpLessThanOrEqual, contactql.OpContains} {
			if r, ok := res[op]; ok {
				zzverif.Assert(!r, "a comparison with a value holds for a property the contact does not have")
			}
		}
	}
}
