package flows

import (
	"strings"

	"github.com/nyaruka/goflow/assets"
	"github.com/nyaruka/goflow/assets/static"
	"github.com/nyaruka/goflow/zzverif"
)

// VerifC05_TemplateAttachment: "quick replies and attachments … never exceed
// their configured maximum lengths" also for a message built from a channel
// template (only its *text* is exempt): a template with a header media
// variable (image, video or document), a body text variable and a button; the
// media variable evaluates to an attachment of 2046..2052 bytes with two
// arbitrary bytes at the end, the button content is 63..66 characters.  The
// preview content a msg_created event carries has no attachment longer than
// MaxAttachmentLength and no quick reply longer than MaxQuickReplyLength.
// cover: attachment-kept, attachment-over-limit, button-truncated
func VerifC05_TemplateAttachment() {
	kind := []string{"image", "video", "document"}[zzverif.Choice("media-type", 3)]
	total := 2046 + zzverif.Choice("total-length", 7)
	tail := zzverif.BytesN("url-end", 2)
	for _, c := range tail {
		zzverif.Assume(c > ' ' && c < 0x7f)
	}
	prefix := "image/jpeg:http://x/"
	att := prefix + strings.Repeat("a", total-len(prefix)-len(tail)) + string(tail)
	zzverif.Assert(len(att) == total, "setup: attachment length")
	button := strings.Repeat("b", 63+zzverif.Choice("button-excess", 4))
	tr := static.NewTemplateTranslation(assets.NewChannelReference("57f1078f-88aa-46f4-a59a-948a5739c03d", "WhatsApp"), "eng-US",
		[]*static.TemplateComponent{
			static.NewTemplateComponent("header", "header/media", "", "", map[string]int{"1": 0}),
			static.NewTemplateComponent("body", "body/text", "Hi {{1}}", "", map[string]int{"1": 1}),
			static.NewTemplateComponent("button.0", "button/quick_reply", button, "", map[string]int{}),
		},
		[]*static.TemplateVariable{static.NewTemplateVariable(kind), static.NewTemplateVariable("text")})
	content := NewTemplateTranslation(tr).Preview([]*TemplatingVariable{{Type: kind, Value: att}, {Type: "text", Value: "Bob"}})
	zzverif.Assert(content.Text == "Hi Bob", "setup: the template was not rendered")
	if total > MaxAttachmentLength {
		zzverif.Cover("attachment-over-limit")
	}
	for _, a := range content.Attachments {
		zzverif.Assert(len(a) <= MaxAttachmentLength, "a message built from a template carries an attachment longer than the limit")
		zzverif.Cover("attachment-kept")
	}
	for _, q := range content.QuickReplies {
		zzverif.Assert(len([]rune(q)) <= MaxQuickReplyLength, "a message built from a template carries a quick reply longer than the limit")
		if q != button {
			zzverif.Cover("button-truncated")
		}
	}
}
