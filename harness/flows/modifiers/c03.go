package modifiers

import (
	"time"

	"github.com/nyaruka/gocommon/i18n"
	"github.com/nyaruka/gocommon/urns"
	"github.com/nyaruka/goflow/assets"
	"github.com/nyaruka/goflow/contactql"
	"github.com/nyaruka/goflow/envs"
	"github.com/nyaruka/goflow/flows"
	"github.com/nyaruka/goflow/flows/events"
	"github.com/nyaruka/goflow/zzverif"
)

// ---- stubs -------------------------------------------------------------

type verifAssets struct {
	flows.SessionAssets
	fields *flows.FieldAssets
	groups *flows.GroupAssets
	chans  *flows.ChannelAssets
}

func (a *verifAssets) Fields() *flows.FieldAssets     { return a.fields }
func (a *verifAssets) Groups() *flows.GroupAssets     { return a.groups }
func (a *verifAssets) Channels() *flows.ChannelAssets { return a.chans }

type verifField struct {
	key string
	typ assets.FieldType
}

func (f *verifField) UUID() assets.FieldUUID { return assets.FieldUUID("uuid-" + f.key) }
func (f *verifField) Key() string            { return f.key }
func (f *verifField) Name() string           { return f.key }
func (f *verifField) Type() assets.FieldType { return f.typ }

type verifEngine struct {
	flows.Engine
	opts *flows.EngineOptions
}

func (e *verifEngine) Options() *flows.EngineOptions { return e.opts }

func verifEng(maxFieldChars int) flows.Engine {
	return &verifEngine{opts: &flows.EngineOptions{MaxStepsPerSprint: 100, MaxResumesPerSession: 500, MaxTemplateChars: 10000, MaxFieldChars: maxFieldChars, MaxResultChars: 640}}
}

// the shared world: two static groups, query groups given by the harness
func verifWorld(env envs.Environment, queries ...contactql.QueryNode) (*verifAssets, []*flows.Group) {
	fields := flows.NewFieldAssets([]assets.Field{&verifField{verifTextKey, assets.FieldTypeText}, &verifField{"age", assets.FieldTypeNumber}})
	groups := []*flows.Group{flows.VerifStaticGroup("g-s1", "Static1"), flows.VerifStaticGroup("g-s2", "Static2")}
	for i, q := range queries {
		g := flows.VerifQueryGroup(env, fields, assets.GroupUUID("g-q"+string(rune('1'+i))), "Query"+string(rune('1'+i)), q)
		zzverif.Assert(g != nil, "query group did not validate")
		groups = append(groups, g)
	}
	ga, groups := flows.VerifGroupAssets(env, fields, groups...)
	sa := &verifAssets{fields: fields, groups: ga, chans: flows.NewChannelAssets(nil)}
	return sa, groups
}

// arbitrary stored membership (it may be wrong for query groups)
func verifMembership(c *flows.Contact, groups []*flows.Group) {
	for _, g := range groups {
		if zzverif.Choice("member-of-"+g.Name(), 2) == 1 {
			c.Groups().Add(g)
		}
	}
}

// ---- the projection compared, and the reference applier of events -------

type verifContactView struct {
	name, language, status, timezone string
	urns                             []string
	groups                           map[string]bool
	nick, age                        string // rendering of every component of the field value
	ticket                           bool
}

// verifValueText renders every component of a field value.
func verifValueText(val *flows.Value) string {
	if val == nil {
		return "<unset>"
	}
	s := "text=" + val.Text.Native()
	if val.Number != nil {
		s += " number=" + val.Number.Native().String()
	}
	if val.Datetime != nil {
		s += " datetime=" + val.Datetime.Native().String()
	}
	return s
}

func verifView(c *flows.Contact, sa *verifAssets) *verifContactView {
	v := &verifContactView{name: c.Name(), language: string(c.Language()), status: string(c.Status()), groups: map[string]bool{}}
	if c.Timezone() != nil {
		v.timezone = c.Timezone().String()
	}
	for _, u := range c.URNs() {
		v.urns = append(v.urns, string(u.URN()))
	}
	for _, g := range c.Groups().All() {
		v.groups[string(g.UUID())] = true
	}
	v.nick = verifValueText(c.Fields().Get(sa.fields.Get(verifTextKey)))
	v.age = verifValueText(c.Fields().Get(sa.fields.Get("age")))
	v.ticket = c.Ticket() != nil
	return v
}

func verifSameView(a, b *verifContactView, groups []*flows.Group) bool {
	same := a.name == b.name && a.language == b.language && a.status == b.status && a.timezone == b.timezone &&
		a.nick == b.nick && a.age == b.age && a.ticket == b.ticket && len(a.urns) == len(b.urns)
	if same {
		for i := range a.urns {
			if a.urns[i] != b.urns[i] {
				same = false
			}
		}
	}
	for _, g := range groups {
		if a.groups[string(g.UUID())] != b.groups[string(g.UUID())] {
			same = false
		}
	}
	return same
}

// verifReplay applies the emitted contact events, in order, to a view of the
// contact as it was before: the reference applier, written from the event
// documentation.
func verifReplay(v *verifContactView, evs []flows.Event) (changes int) {
	for _, e := range evs {
		switch t := e.(type) {
		case *events.ContactNameChangedEvent:
			v.name = t.Name
			changes++
		case *events.ContactLanguageChangedEvent:
			v.language = t.Language
			changes++
		case *events.ContactStatusChangedEvent:
			v.status = string(t.Status)
			changes++
		case *events.ContactTimezoneChangedEvent:
			v.timezone = t.Timezone
			changes++
		case *events.ContactURNsChangedEvent:
			v.urns = nil
			for _, u := range t.URNs {
				v.urns = append(v.urns, string(u))
			}
			changes++
		case *events.ContactFieldChangedEvent:
			if t.Field.Key == verifTextKey {
				v.nick = verifValueText(t.Value)
			} else {
				v.age = verifValueText(t.Value)
			}
			changes++
		case *events.ContactGroupsChangedEvent:
			for _, g := range t.GroupsAdded {
				v.groups[string(g.UUID)] = true
			}
			for _, g := range t.GroupsRemoved {
				v.groups[string(g.UUID)] = false
			}
			changes++
		case *events.TicketOpenedEvent:
			v.ticket = true
			changes++
		}
	}
	return
}

// verifApplyAndCheck applies mod to c and checks the three clauses of C03
// and the membership clauses of C06.
func verifApplyAndCheck(eng flows.Engine, env envs.Environment, sa *verifAssets, groups []*flows.Group, c *flows.Contact, mod flows.Modifier) {
	before := verifView(c, sa)
	var evs []flows.Event
	modified := Apply(eng, env, sa, c, mod, func(e flows.Event) { evs = append(evs, e) })
	after := verifView(c, sa)

	// (1) replaying the events over the contact as it was reproduces the contact
	replayed := verifView(c, sa)
	*replayed = *before
	replayed.groups = map[string]bool{}
	for k, b := range before.groups {
		replayed.groups[k] = b
	}
	replayed.urns = append([]string{}, before.urns...)
	nchanges := verifReplay(replayed, evs)
	zzverif.Assert(verifSameView(replayed, after, groups), "replaying the emitted events over the prior contact does not reproduce the contact")

	// (2) modified ⇔ the contact changed ⇔ a change event was emitted
	changed := !verifSameView(before, after, groups)
	if changed {
		zzverif.Cover("changed")
	} else {
		zzverif.Cover("unchanged")
	}
	zzverif.Assert(modified == changed, "modifier's 'modified' result disagrees with whether the contact changed")
	zzverif.Assert((nchanges > 0) == changed, "change events emitted without a change, or a change without events")

	// C06: query based membership matches; non-active contacts are in no static group
	if modified {
		verifCheckMembership(env, c, groups)
	}

	// (3) applying the same modifier again changes and reports nothing
	var evs2 []flows.Event
	modified2 := Apply(eng, env, sa, c, mod, func(e flows.Event) { evs2 = append(evs2, e) })
	again := verifView(c, sa)
	zzverif.Assert(!modified2, "applying the same modifier twice reports 'modified' the second time")
	zzverif.Assert(verifReplay(verifView(c, sa), evs2) == 0, "applying the same modifier twice emits a change event the second time")
	zzverif.Assert(verifSameView(after, again, groups), "applying the same modifier twice changes the contact the second time")
}

func verifCheckMembership(env envs.Environment, c *flows.Contact, groups []*flows.Group) {
	for _, g := range groups {
		in := c.Groups().FindByUUID(g.UUID()) != nil
		if g.UsesQuery() {
			want := c.Status() == flows.ContactStatusActive && g.CheckQueryBasedMembership(env, c)
			zzverif.Assert(in == want, "query based group membership does not match the contact")
		} else if c.Status() != flows.ContactStatusActive {
			zzverif.Assert(!in, "a non-active contact is still in a static group")
		}
	}
}

func verifShort(name string, n int) string {
	s := zzverif.String(name, n)
	for i := 0; i < len(s); i++ {
		zzverif.Assume(s[i] != 0 && s[i] < 0x80)
	}
	return s
}

// ---- harnesses ---------------------------------------------------------

// VerifC03_Name: name modifier with arbitrary old/new names (at and beyond
// MaxFieldChars), a query group on the name, arbitrary stored membership.
// cover: changed, unchanged, over-limit
func VerifC03_Name() {
	env := envs.NewBuilder().Build()
	sa, groups := verifWorld(env, contactql.NewCondition(contactql.PropertyTypeAttribute, contactql.AttributeName, contactql.OpEqual, "ab"))
	c := flows.NewEmptyContact(sa, verifShort("old-name", 2), "eng", nil)
	verifMembership(c, groups[2:])
	limit := 1 + zzverif.Choice("max-field-chars", 3)
	newName := verifShort("new-name", 3)
	if len(newName) > limit {
		zzverif.Cover("over-limit")
	}
	verifApplyAndCheck(verifEng(limit), env, sa, groups, c, NewName(newName))
}

// VerifC03_Language: language modifier, a query group on the language.
// cover: changed, unchanged
func VerifC03_Language() {
	env := envs.NewBuilder().Build()
	sa, groups := verifWorld(env, contactql.NewCondition(contactql.PropertyTypeAttribute, contactql.AttributeLanguage, contactql.OpEqual, "eng"))
	langs := []i18n.Language{"", "eng", "fra"}
	c := flows.NewEmptyContact(sa, "Bob", langs[zzverif.Choice("old-language", 3)], nil)
	verifMembership(c, groups)
	verifApplyAndCheck(verifEng(640), env, sa, groups, c, NewLanguage(langs[zzverif.Choice("new-language", 3)]))
}

// VerifC03_Status: status modifier: a contact that becomes non-active leaves
// all its groups; one that becomes active again joins matching query groups.
// cover: changed, unchanged, deactivated, reactivated
func VerifC03_Status() {
	env := envs.NewBuilder().Build()
	sa, groups := verifWorld(env, contactql.NewCondition(contactql.PropertyTypeAttribute, contactql.AttributeName, contactql.OpNotEqual, ""))
	statuses := []flows.ContactStatus{flows.ContactStatusActive, flows.ContactStatusBlocked, flows.ContactStatusStopped, flows.ContactStatusArchived}
	c := flows.NewEmptyContact(sa, "Bob", "eng", nil)
	old := statuses[zzverif.Choice("old-status", 4)]
	c.SetStatus(old)
	if old == flows.ContactStatusActive {
		verifMembership(c, groups)
	}
	nw := statuses[zzverif.Choice("new-status", 4)]
	if old == flows.ContactStatusActive && nw != old {
		zzverif.Cover("deactivated")
	}
	if old != flows.ContactStatusActive && nw == flows.ContactStatusActive {
		zzverif.Cover("reactivated")
	}
	verifApplyAndCheck(verifEng(640), env, sa, groups, c, NewStatus(nw))
}

// (tel URNs are normalised through the phonenumbers metadata, which is not
// loaded in the symbolic heap; other schemes exercise the same modifier code)
var verifURNs = []urns.URN{"twitter:bob", "twitter:jim", "mailto:bob@nyaruka.com"}

// VerifC03_URNs: URNs modifier (append / remove / set) with lists of up to two
// URNs over a contact holding any ordered sub-list of three URNs; a query
// group on having a tel URN.
// cover: changed, unchanged, append, remove, set, two-urns, channel-affinity, other-display
func VerifC03_URNs() {
	env := envs.NewBuilder().Build()
	sa, groups := verifWorld(env, contactql.NewCondition(contactql.PropertyTypeURN, "twitter", contactql.OpNotEqual, ""))
	sa.chans = flows.NewChannelAssets([]assets.Channel{&verifChannel{"c0000000-0000-4000-8000-000000000001", []string{"twitter", "mailto"}, []assets.ChannelRole{assets.ChannelRoleSend}}})
	c := flows.NewEmptyContact(sa, "Bob", "eng", nil)
	for _, u := range verifURNs {
		if zzverif.Choice("has-urn", 2) == 1 {
			c.AddURN(u, nil)
		}
	}
	// the contact's first URN may carry a channel affinity (a modification that keeps its identity can still change it)
	if len(c.URNs()) > 0 && zzverif.Choice("first-urn-has-channel", 2) == 1 {
		c.URNs()[0].SetChannel(sa.chans.Get("c0000000-0000-4000-8000-000000000001"))
		zzverif.Cover("channel-affinity")
	}
	verifMembership(c, groups[2:])
	n := 1 + zzverif.Choice("list-length", 2)
	// the list may name a URN of the contact with another display part
	pool := append(append([]urns.URN{}, verifURNs...), "twitter:bob#Bobby")
	var list []urns.URN
	for i := 0; i < n; i++ {
		k := zzverif.Choice("urn", len(pool))
		if k == 3 {
			zzverif.Cover("other-display")
		}
		list = append(list, pool[k])
	}
	if n == 2 {
		zzverif.Cover("two-urns")
	}
	mods := []URNsModification{URNsAppend, URNsRemove, URNsSet}
	m := mods[zzverif.Choice("modification", 3)]
	zzverif.Cover(string(m))
	verifApplyAndCheck(verifEng(640), env, sa, groups, c, NewURNs(list, m))
}

type verifChannel struct {
	uuid    assets.ChannelUUID
	schemes []string
	roles   []assets.ChannelRole
}

func (c *verifChannel) UUID() assets.ChannelUUID          { return c.uuid }
func (c *verifChannel) Name() string                      { return "Channel " + string(c.uuid) }
func (c *verifChannel) Address() string                   { return "addr" }
func (c *verifChannel) Schemes() []string                 { return c.schemes }
func (c *verifChannel) Roles() []assets.ChannelRole       { return c.roles }
func (c *verifChannel) Features() []assets.ChannelFeature { return nil }
func (c *verifChannel) Country() i18n.Country             { return "" }
func (c *verifChannel) MatchPrefixes() []string           { return nil }
func (c *verifChannel) AllowInternational() bool          { return false }

// VerifC03_Channel: channel modifier (nil, a twitter channel, a channel for
// twitter and mailto, a channel that cannot send) over a contact holding any
// ordered sub-list of three URNs, each with no channel affinity or an
// affinity to either sending channel: setting the preferred channel changes
// affinities and/or the order of the URNs; any such change is announced by a
// URNs event that reproduces the list, and only then is modified reported.
// cover: changed, unchanged, reordered-only, cleared, cannot-send
func VerifC03_Channel() {
	env := envs.NewBuilder().Build()
	sa, groups := verifWorld(env, contactql.NewCondition(contactql.PropertyTypeURN, "twitter", contactql.OpNotEqual, ""))
	send := []assets.ChannelRole{assets.ChannelRoleSend, assets.ChannelRoleReceive}
	sa.chans = flows.NewChannelAssets([]assets.Channel{
		&verifChannel{"c0000000-0000-4000-8000-000000000001", []string{"twitter"}, send},
		&verifChannel{"c0000000-0000-4000-8000-000000000002", []string{"twitter", "mailto"}, send},
		&verifChannel{"c0000000-0000-4000-8000-000000000003", []string{"twitter"}, []assets.ChannelRole{assets.ChannelRoleReceive}},
	})
	chans := []*flows.Channel{sa.chans.Get("c0000000-0000-4000-8000-000000000001"), sa.chans.Get("c0000000-0000-4000-8000-000000000002"), sa.chans.Get("c0000000-0000-4000-8000-000000000003")}
	c := flows.NewEmptyContact(sa, "Bob", "eng", nil)
	for _, u := range verifURNs {
		if zzverif.Choice("has-urn", 2) == 1 {
			c.AddURN(u, nil)
			if k := zzverif.Choice("urn-channel", 3); k > 0 {
				c.URNs()[len(c.URNs())-1].SetChannel(chans[k-1])
			}
		}
	}
	c.Groups().Add(groups[2])
	if len(c.URNs()) == 0 || (len(c.URNs()) == 1 && c.URNs()[0].URN().Scheme() == "mailto") {
		c.Groups().Remove(groups[2])
	}
	var ch *flows.Channel
	switch k := zzverif.Choice("preferred-channel", 4); k {
	case 0:
		zzverif.Cover("cleared")
	case 3:
		ch = chans[2]
		zzverif.Cover("cannot-send")
	default:
		ch = chans[k-1]
	}
	before := verifView(c, sa)
	verifApplyAndCheck(verifEng(640), env, sa, groups, c, NewChannel(ch))
	after := verifView(c, sa)
	if !verifSameView(before, after, groups) {
		sameAffinities := len(before.urns) == len(after.urns)
		for _, b := range before.urns {
			found := false
			for _, a := range after.urns {
				if a == b {
					found = true
				}
			}
			if !found {
				sameAffinities = false
			}
		}
		if sameAffinities {
			zzverif.Cover("reordered-only")
		}
	}
}

// VerifC03_Groups: groups modifier (add / remove) with lists of up to two
// groups incl. a query based one, any contact status.
// cover: changed, unchanged, query-group-in-list, blocked
func VerifC03_Groups() {
	env := envs.NewBuilder().Build()
	sa, groups := verifWorld(env, contactql.NewCondition(contactql.PropertyTypeAttribute, contactql.AttributeName, contactql.OpNotEqual, ""))
	statuses := []flows.ContactStatus{flows.ContactStatusActive, flows.ContactStatusBlocked, flows.ContactStatusArchived}
	c := flows.NewEmptyContact(sa, "Bob", "eng", nil)
	st := statuses[zzverif.Choice("status", 3)]
	c.SetStatus(st)
	if st == flows.ContactStatusActive {
		for _, g := range groups[:2] {
			if zzverif.Choice("member-of-"+g.Name(), 2) == 1 {
				c.Groups().Add(g)
			}
		}
		c.Groups().Add(groups[2]) // correct stored membership of the query group
	} else {
		zzverif.Cover("blocked")
	}
	n := 1 + zzverif.Choice("list-length", 2)
	var list []*flows.Group
	for i := 0; i < n; i++ {
		g := groups[zzverif.Choice("group", 3)]
		if g.UsesQuery() {
			zzverif.Cover("query-group-in-list")
		}
		list = append(list, g)
	}
	mod := GroupsAdd
	if zzverif.Choice("modification", 2) == 1 {
		mod = GroupsRemove
	}
	verifApplyAndCheck(verifEng(640), env, sa, groups, c, NewGroups(list, mod))
}

// VerifC03_Field: field modifier on a text and a number field with arbitrary
// old and new values (incl. clearing and over-long text), query groups on both.
// cover: changed, unchanged, cleared, over-limit, number
func VerifC03_Field() {
	env := envs.NewBuilder().Build()
	sa, groups := verifWorld(env,
		contactql.NewCondition(contactql.PropertyTypeField, verifTextKey, contactql.OpEqual, "ab"),
		contactql.NewCondition(contactql.PropertyTypeField, "age", contactql.OpGreaterThan, "5"))
	c := flows.NewEmptyContact(sa, "Bob", "eng", nil)
	limit := 1 + zzverif.Choice("max-field-chars", 2)
	eng := verifEng(limit)
	isNum := zzverif.Choice("number-field", 2) == 1
	var f *flows.Field
	var oldV, newV string
	if isNum {
		zzverif.Cover("number")
		f = sa.fields.Get("age")
		vals := []string{"", "3", "7", "x"}
		oldV, newV = vals[zzverif.Choice("old-value", 3)], vals[zzverif.Choice("new-value", 4)]
	} else {
		f = sa.fields.Get(verifTextKey)
		oldV, newV = []string{"", "a", "7"}[zzverif.Choice("old-value", 3)], verifShort("new-value", 2)
		for i := 0; i < len(newV); i++ {
			// numeric text is covered by the number field with concrete values: a
			// number parsed from symbolic digits cannot be rendered (big.Int.String
			// goes through floating point)
			zzverif.Assume(newV[i] < '0' || newV[i] > '9')
		}
	}
	if oldV != "" {
		c.Fields().Set(f, c.Fields().Parse(env, sa.fields, f, oldV))
	}
	verifMembership(c, groups[2:])
	if newV == "" {
		zzverif.Cover("cleared")
	}
	if len(newV) > limit {
		zzverif.Cover("over-limit")
	}
	verifApplyAndCheck(eng, env, sa, groups, c, NewField(f, newV))
}

// VerifC03_TimezoneTicket: timezone and ticket modifiers.
// cover: changed, unchanged, ticket
func VerifC03_TimezoneTicket() {
	env := envs.NewBuilder().Build()
	sa, groups := verifWorld(env, contactql.NewCondition(contactql.PropertyTypeAttribute, contactql.AttributeTickets, contactql.OpEqual, "1"))
	zones := []*time.Location{nil, time.UTC, time.FixedZone("E5", 5*3600)}
	c := flows.NewEmptyContact(sa, "Bob", "eng", zones[zzverif.Choice("old-timezone", 3)])
	verifMembership(c, groups[2:])
	if zzverif.Choice("modifier", 2) == 0 {
		verifApplyAndCheck(verifEng(640), env, sa, groups, c, NewTimezone(zones[zzverif.Choice("new-timezone", 3)]))
		return
	}
	zzverif.Cover("ticket")
	if zzverif.Choice("has-ticket", 2) == 1 {
		c.SetTicket(flows.OpenTicket(nil, nil))
	}
	verifApplyAndCheck(verifEng(640), env, sa, groups, c, NewTicket(nil, nil, "note"))
}

// verifTextKey is the key of the text field of the harness world. It is
// deliberately the name of a contact attribute: field keys live in their own
// namespace (queries reach them as fields.language), so nothing may confuse
// the field with the attribute of the same name.
const verifTextKey = "language"
