package modifiers

import (
	"github.com/nyaruka/gocommon/i18n"
	"github.com/nyaruka/goflow/contactql"
	"github.com/nyaruka/goflow/envs"
	"github.com/nyaruka/goflow/flows"
	"github.com/nyaruka/goflow/flows/events"
	"github.com/nyaruka/goflow/zzverif"
)

// verifQueryLeaf returns one of the admitted conditions over the properties a
// modifier can change.
func verifQueryLeaf(name string) contactql.QueryNode {
	return verifQueryLeafN(zzverif.Choice(name, 7))
}

func verifQueryLeafN(k int) contactql.QueryNode {
	switch k % 7 {
	case 0:
		return contactql.NewCondition(contactql.PropertyTypeAttribute, contactql.AttributeName, contactql.OpEqual, "a")
	case 1:
		return contactql.NewCondition(contactql.PropertyTypeAttribute, contactql.AttributeName, contactql.OpNotEqual, "")
	case 2:
		return contactql.NewCondition(contactql.PropertyTypeAttribute, contactql.AttributeLanguage, contactql.OpEqual, "fra")
	case 3:
		return contactql.NewCondition(contactql.PropertyTypeField, verifTextKey, contactql.OpNotEqual, "")
	case 4:
		return contactql.NewCondition(contactql.PropertyTypeField, "age", contactql.OpGreaterThanOrEqual, "7")
	case 5:
		return contactql.NewCondition(contactql.PropertyTypeURN, "twitter", contactql.OpEqual, "bob")
	}
	return contactql.NewCondition(contactql.PropertyTypeAttribute, contactql.AttributeTickets, contactql.OpEqual, "0")
}

func verifQuery(name string) contactql.QueryNode {
	k := zzverif.Choice(name+"-a", 7)
	a := verifQueryLeafN(k)
	// thorough: any second leaf; quick: the next one in the list
	b := func() contactql.QueryNode {
		if zzverif.Thorough() {
			return verifQueryLeaf(name + "-b")
		}
		return verifQueryLeafN(k + 1)
	}
	switch zzverif.Choice(name+"-shape", 3) {
	case 1:
		return contactql.NewBoolCombination(contactql.BoolOperatorAnd, a, b())
	case 2:
		return contactql.NewBoolCombination(contactql.BoolOperatorOr, a, b())
	}
	return a
}

// verifSymLang: "", "eng" or "fra" as one symbolic choice of the first letters
func verifSymLang(name string) i18n.Language {
	if zzverif.Choice(name+"-set", 2) == 0 {
		return ""
	}
	b := zzverif.Byte(name)
	zzverif.Assume(b == 'e' || b == 'f')
	if b == 'e' {
		return "eng"
	}
	return "fra"
}

// VerifC06_Modifiers: two query based groups whose queries are arbitrary
// trees (one condition, or AND/OR of two) over name, language, a text and a
// number field, a URN scheme and tickets; a contact with arbitrary attributes
// and arbitrary (possibly wrong) stored membership; any effective modifier:
// afterwards the contact is in each query group exactly when it is active and
// the query matches, a non-active contact is in no static group, and the
// contact_groups_changed events add up to the membership difference.
// cover: joined, left, stored-membership-wrong, deactivated, and, or
func VerifC06_Modifiers() {
	env := envs.NewBuilder().Build()
	q1 := verifQuery("query1")
	q2 := contactql.QueryNode(contactql.NewCondition(contactql.PropertyTypeAttribute, contactql.AttributeName, contactql.OpNotEqual, ""))
	if zzverif.Thorough() {
		q2 = verifQuery("query2")
	}
	if bc, ok := q1.(*contactql.BoolCombination); ok {
		zzverif.Cover(string(bc.Operator()))
	}
	sa, groups := verifWorld(env, q1, q2)
	// the contact: arbitrary name (≤ 2 bytes), language, twitter URN, age
	nameLen := 1
	if zzverif.Thorough() {
		nameLen = 2
	}
	c := flows.NewEmptyContact(sa, verifShort("name", nameLen), verifSymLang("language"), nil)
	if zzverif.Choice("has-twitter", 2) == 1 {
		c.AddURN("twitter:bob", nil)
	}
	if zzverif.Choice("has-age", 2) == 1 {
		f := sa.fields.Get("age")
		c.Fields().Set(f, c.Fields().Parse(env, sa.fields, f, []string{"3", "7"}[zzverif.Choice("age", 2)]))
	}
	verifMembership(c, groups[2:])
	wrong := false
	for _, g := range groups[2:] {
		if (c.Groups().FindByUUID(g.UUID()) != nil) != g.CheckQueryBasedMembership(env, c) {
			wrong = true
		}
	}
	if wrong {
		zzverif.Cover("stored-membership-wrong")
	}
	var mod flows.Modifier
	switch zzverif.Choice("modifier", 6) {
	case 0:
		mod = NewName(verifShort("new-name", 1))
	case 1:
		mod = NewLanguage(verifSymLang("new-language"))
	case 2:
		mod = NewField(sa.fields.Get(verifTextKey), []string{"", "x"}[zzverif.Choice("new-nick", 2)])
	case 3:
		mod = NewField(sa.fields.Get("age"), []string{"", "3", "9"}[zzverif.Choice("new-age", 3)])
	case 4:
		mod = NewURNs(verifURNs[:1], []URNsModification{URNsAppend, URNsRemove}[zzverif.Choice("urn-modification", 2)])
	default:
		verifMembership(c, groups[:2])
		mod = NewStatus([]flows.ContactStatus{flows.ContactStatusBlocked, flows.ContactStatusArchived}[zzverif.Choice("new-status", 2)])
		zzverif.Cover("deactivated")
	}
	before := map[string]bool{}
	for _, g := range groups {
		before[string(g.UUID())] = c.Groups().FindByUUID(g.UUID()) != nil
	}
	var evs []flows.Event
	modified := Apply(verifEng(640), env, sa, c, mod, func(e flows.Event) { evs = append(evs, e) })
	if !modified {
		return
	}
	verifCheckMembership(env, c, groups)
	// the events add up to the membership difference
	view := map[string]bool{}
	for k, v := range before {
		view[k] = v
	}
	for _, e := range evs {
		if gc, ok := e.(*events.ContactGroupsChangedEvent); ok {
			for _, g := range gc.GroupsAdded {
				zzverif.Assert(!view[string(g.UUID)], "contact_groups_changed adds a group the contact was already in")
				view[string(g.UUID)] = true
				zzverif.Cover("joined")
			}
			for _, g := range gc.GroupsRemoved {
				zzverif.Assert(view[string(g.UUID)], "contact_groups_changed removes a group the contact was not in")
				view[string(g.UUID)] = false
				zzverif.Cover("left")
			}
		}
	}
	for _, g := range groups {
		zzverif.Assert(view[string(g.UUID())] == (c.Groups().FindByUUID(g.UUID()) != nil), "a membership change was not reported in a contact_groups_changed event")
	}
}

// VerifC06_StaticOnly: assets without any query based group: a contact in any
// subset of two static groups is given any status: a contact that ends up
// non-active is in no static group, and the removals are announced by a
// contact_groups_changed event (checked by replaying the events).
// cover: deactivated, removed-from-static-groups, stays-active
func VerifC06_StaticOnly() {
	env := envs.NewBuilder().Build()
	sa, groups := verifWorld(env)
	c := flows.NewEmptyContact(sa, "Bob", "eng", nil)
	statuses := []flows.ContactStatus{flows.ContactStatusActive, flows.ContactStatusBlocked, flows.ContactStatusStopped, flows.ContactStatusArchived}
	old := statuses[zzverif.Choice("old-status", 4)]
	c.SetStatus(old)
	members := 0
	if old == flows.ContactStatusActive {
		for _, g := range groups {
			if zzverif.Choice("member-of-"+g.Name(), 2) == 1 {
				c.Groups().Add(g)
				members++
			}
		}
	}
	nw := statuses[zzverif.Choice("new-status", 4)]
	if nw != flows.ContactStatusActive && old == flows.ContactStatusActive {
		zzverif.Cover("deactivated")
		if members > 0 {
			zzverif.Cover("removed-from-static-groups")
		}
	}
	if nw == flows.ContactStatusActive && old == flows.ContactStatusActive {
		zzverif.Cover("stays-active")
	}
	verifApplyAndCheck(verifEng(640), env, sa, groups, c, NewStatus(nw))
	verifCheckMembership(env, c, groups)
}
