package modifiers

import (
	"unicode/utf8"

	"github.com/nyaruka/goflow/assets"
	"github.com/nyaruka/goflow/envs"
	"github.com/nyaruka/goflow/flows"
	"github.com/nyaruka/goflow/zzverif"
)

// VerifC05_FieldTruncation: the field modifier applied with MaxFieldChars in
// 1..2 (thorough: 1..3) to a text, a number and a datetime field, with
// arbitrary text of up to limit+1 (thorough: limit+2) bytes (symbolic, incl.
// multi-byte characters at the cut) and with
// over-long values of every kind the field parser recognises (integers,
// decimals, dates, datetimes, numbers padded with blanks): the text of the
// stored value is never longer than the limit, whatever else was parsed from
// it.
// cover: over-limit, at-limit, number-parsed, datetime-parsed, plain-text, multi-byte
func VerifC05_FieldTruncation() {
	env := envs.NewBuilder().Build()
	fields := flows.NewFieldAssets([]assets.Field{&verifField{"nick", assets.FieldTypeText}, &verifField{"age", assets.FieldTypeNumber}, &verifField{"dob", assets.FieldTypeDatetime}})
	sa := &verifAssets{fields: fields, groups: flows.VerifGroupAssetsOf(env, fields), chans: flows.NewChannelAssets(nil)}
	c := flows.NewEmptyContact(sa, "Bob", "eng", nil)
	limits, extra := 2, 1
	if zzverif.Thorough() {
		limits, extra = 3, 2
	}
	limit := 1 + zzverif.Choice("max-field-chars", limits)
	f := fields.Get([]string{"nick", "age", "dob"}[zzverif.Choice("field", 3)])
	var value string
	if k := zzverif.Choice("value-kind", 8); k == 0 {
		value = zzverif.String("value", limit+extra)
		for i := 0; i < len(value); i++ {
			// digits are in the concrete values below: a number parsed from symbolic
			// digits cannot be rendered (big.Int.String goes through floating point)
			zzverif.Assume(value[i] != 0 && (value[i] < '0' || value[i] > '9'))
		}
		zzverif.Assume(utf8.ValidString(value))
		if len(value) > utf8.RuneCountInString(value) {
			zzverif.Cover("multi-byte")
		}
	} else {
		value = []string{"", "12345", "1.5000", "-0.25", " 1234 ", "2020-01-02", "2020-01-02T10:00:00Z", "02-01-2020 10:30"}[k]
	}
	n := utf8.RuneCountInString(value)
	if n > limit {
		zzverif.Cover("over-limit")
	} else if n == limit {
		zzverif.Cover("at-limit")
	}
	Apply(verifEng(limit), env, sa, c, NewField(f, value), func(e flows.Event) {})
	v := c.Fields().Get(f)
	if v == nil {
		return
	}
	switch {
	case v.Number != nil:
		zzverif.Cover("number-parsed")
	case v.Datetime != nil:
		zzverif.Cover("datetime-parsed")
	default:
		zzverif.Cover("plain-text")
	}
	zzverif.Assert(utf8.RuneCountInString(v.Text.Native()) <= limit, "a field value's text is longer than MaxFieldChars")
}
