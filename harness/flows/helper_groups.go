package flows

import (
	"github.com/nyaruka/goflow/assets"
	"github.com/nyaruka/goflow/contactql"
	"github.com/nyaruka/goflow/envs"
)

type verifGroupAsset struct {
	uuid  assets.GroupUUID
	name  string
	query string
}

func (g *verifGroupAsset) UUID() assets.GroupUUID { return g.uuid }
func (g *verifGroupAsset) Name() string           { return g.name }
func (g *verifGroupAsset) Query() string          { return g.query }

// VerifStaticGroup builds a static group.
func VerifStaticGroup(uuid assets.GroupUUID, name string) *Group {
	return &Group{Group: &verifGroupAsset{uuid, name, ""}}
}

// VerifQueryGroup builds a query based group from a programmatically built
// query tree (validated against the field assets exactly as ParseQuery does
// after parsing; the generated parser itself is not encoded).
func VerifQueryGroup(env envs.Environment, fields *FieldAssets, uuid assets.GroupUUID, name string, root contactql.QueryNode) *Group {
	q, err := contactql.VerifNewQuery(env, root, fields)
	if err != nil {
		return nil
	}
	return &Group{Group: &verifGroupAsset{uuid, name, contactql.Stringify(root)}, parsedQuery: q, resolver: fields}
}

// VerifGroupAssets builds group assets from ready groups.
func VerifGroupAssets(groups ...*Group) *GroupAssets {
	s := &GroupAssets{byUUID: map[assets.GroupUUID]*Group{}}
	for _, g := range groups {
		s.all = append(s.all, g)
		s.byUUID[g.UUID()] = g
	}
	return s
}
