package flows

import (
	"github.com/nyaruka/goflow/assets"
	"github.com/nyaruka/goflow/contactql"
	"github.com/nyaruka/goflow/envs"
)

type verifGroupAsset struct {
	uuid  assets.GroupUUID
	name  string
	query string
}

func (g *verifGroupAsset) UUID() assets.GroupUUID { return g.uuid }
func (g *verifGroupAsset) Name() string           { return g.name }
func (g *verifGroupAsset) Query() string          { return g.query }

// VerifStaticGroup builds a static group (real constructor).
func VerifStaticGroup(uuid assets.GroupUUID, name string) *Group {
	g, _ := NewGroup(nil, nil, &verifGroupAsset{uuid, name, ""})
	return g
}

// VerifQueryGroup builds a query based group with the real constructor from
// the text of a programmatically built query tree (contactql.ParseQuery runs
// on it: the parser model under gosym, the generated parser natively).
func VerifQueryGroup(env envs.Environment, fields *FieldAssets, uuid assets.GroupUUID, name string, root contactql.QueryNode) *Group {
	g, err := NewGroup(env, fields, &verifGroupAsset{uuid, name, contactql.Stringify(root)})
	if err != nil {
		return nil
	}
	return g
}

// VerifGroupAssets builds group assets with the real constructor from the
// assets of the given groups and returns them with the constructed groups in
// the given order.
func VerifGroupAssets(env envs.Environment, fields *FieldAssets, groups ...*Group) (*GroupAssets, []*Group) {
	defs := make([]assets.Group, len(groups))
	for i, g := range groups {
		defs[i] = g.Asset()
	}
	s, broken := NewGroupAssets(env, fields, defs)
	if len(broken) > 0 {
		panic("verif: a group did not load")
	}
	out := make([]*Group, len(groups))
	for i, g := range groups {
		out[i] = s.Get(g.UUID())
	}
	return s, out
}

// VerifGroupAssetsOf builds group assets without any group.
func VerifGroupAssetsOf(env envs.Environment, fields *FieldAssets) *GroupAssets {
	s, _ := NewGroupAssets(env, fields, nil)
	return s
}
