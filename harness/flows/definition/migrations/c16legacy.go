package migrations

import (
	"github.com/nyaruka/goflow/zzverif"
)

// VerifC16_Legacy: a legacy-format definition (as the legacy editor produced
// it: an action set that sends a message, a wait_message rule set with three
// tested rules and the implicit Other rule, two action sets as destinations)
// in which the rules' categories are an arbitrary assignment of three names
// — rules of one category share a destination — and a category name is
// arbitrary text: MigrateToLatest (legacy.MigrateDefinition, then every 13.x
// migration, over the JSON bridge and the Excellent1 parser model) yields a
// definition that reads back, keeps the flow's UUID, has the entry node first
// and one node per action set and rule set; every rule's UUID that starts a
// category is an exit whose destination is the legacy rule's destination, and
// every rule has become a case of a category whose exit leads where the rule
// led; the message template is migrated; migrating again changes nothing.
// cover: shared-category, all-distinct, other-has-destination, entry-not-topmost
func VerifC16_Legacy() {
	names := []string{"Red", "Green", zzverif.String("category-name", 2) + "x"}
	for i := 0; i < len(names[2])-1; i++ {
		zzverif.Assume(names[2][i] != 0 && names[2][i] < 0x80 && names[2][i] != '"' && names[2][i] != '\\' && names[2][i] >= 0x20)
	}
	zzverif.Assume(names[2] != "Red" && names[2] != "Green" && names[2] != "Other")
	dests := []string{"9e82371e-94f6-41cf-8a97-82aedc1ccadd", "8e82371e-94f6-41cf-8a97-82aedc1ccadd", ""}
	ruleUUIDs := []string{"a66f3bfc-7a68-4925-a07b-a31cbc1b207a", "b66f3bfc-7a68-4925-a07b-a31cbc1b207a", "c66f3bfc-7a68-4925-a07b-a31cbc1b207a"}
	cat := [3]int{}
	for k := range cat {
		cat[k] = zzverif.Choice("rule-category", 3)
	}
	if cat[0] == cat[1] || cat[1] == cat[2] || cat[0] == cat[2] {
		zzverif.Cover("shared-category")
	} else {
		zzverif.Cover("all-distinct")
	}
	otherDest := ""
	if zzverif.Choice("other-has-destination", 2) == 1 {
		otherDest = dests[1]
		zzverif.Cover("other-has-destination")
	}
	// the entry action set is the topmost node or lies below the others (the legacy editor lets any node be the entry)
	entryY := []string{"0", "400"}[zzverif.Choice("entry-below-other-nodes", 2)]
	if entryY == "400" {
		zzverif.Cover("entry-not-topmost")
	}
	quote := func(s string) string {
		if s == "" {
			return "null"
		}
		return "\"" + s + "\""
	}
	rules := ""
	for k := 0; k < 3; k++ {
		rules += `{"test": {"test": {"base": "w` + string(rune('0'+k)) + `"}, "type": "contains_any"}, "destination": ` + quote(dests[cat[k]]) + `, "uuid": "` + ruleUUIDs[k] + `", "category": {"base": "` + names[cat[k]] + `"}},`
	}
	rules += `{"test": {"test": "true", "type": "true"}, "category": {"base": "Other"}, "destination": ` + quote(otherDest) + `, "uuid": "ee85d3a5-75af-4809-94b9-661c2e731c2a"}`
	legacy := `{"rule_sets": [{"y": 106, "x": 100, "rules": [` + rules + `], "uuid": "80f2ae0b-492b-4bb1-9628-fb3dc191ab82", "label": "Color", "ruleset_type": "wait_message"}],
	"action_sets": [
	 {"y": ` + entryY + `, "x": 100, "destination": "80f2ae0b-492b-4bb1-9628-fb3dc191ab82", "uuid": "029c3266-39c1-4850-9d71-7e008dae2e65", "actions": [{"msg": {"base": "Hi @contact.first_name, pick @(SUM(1, 2) * 3)"}, "type": "reply", "uuid": "623c784f-5277-4dbc-9568-f7984dbc5c7b"}], "exit_uuid": "21eab42d-8cfd-4e1f-a4a0-cb7d069bc366"},
	 {"y": 228, "x": 118, "destination": null, "uuid": "9e82371e-94f6-41cf-8a97-82aedc1ccadd", "actions": [{"msg": {"base": "You picked @flow.color"}, "type": "reply", "uuid": "988b0715-a553-435a-bc05-76389570b70b"}], "exit_uuid": "f659aa9f-492e-4872-82ce-e752719c3559"},
	 {"y": 328, "x": 118, "destination": null, "uuid": "8e82371e-94f6-41cf-8a97-82aedc1ccadd", "actions": [{"msg": {"base": "Other"}, "type": "reply", "uuid": "888b0715-a553-435a-bc05-76389570b70b"}], "exit_uuid": "e659aa9f-492e-4872-82ce-e752719c3559"}],
	"base_language": "base", "flow_type": "F", "entry": "029c3266-39c1-4850-9d71-7e008dae2e65",
	"metadata": {"uuid": "40730a2d-edaa-4ff0-9d2f-81ca2131ddfe", "saved_on": null, "name": "Pick a Color"}, "version": "11.11"}`

	zzverif.ResetEnv()
	migrated, err := MigrateToLatest([]byte(legacy), DefaultConfig)
	zzverif.Assert(err == nil, "a legacy definition could not be migrated")
	f, err := ReadFlow(migrated)
	zzverif.Assert(err == nil, "the migrated definition cannot be read")
	uuid, _ := f["uuid"].(string)
	zzverif.Assert(uuid == "40730a2d-edaa-4ff0-9d2f-81ca2131ddfe", "the flow's UUID was not kept")
	nodes := f.Nodes()
	zzverif.Assert(len(nodes) == 4, "the migrated flow does not have one node per action set and rule set")
	zzverif.Assert(GetObjectUUID(map[string]any(nodes[0])) == "029c3266-39c1-4850-9d71-7e008dae2e65", "the entry node is not first")
	text, _ := nodes[0].Actions()[0]["text"].(string)
	zzverif.Assert(text == "Hi @contact.first_name, pick @((1 + 2) * 3)", "the message template was not migrated with its meaning")

	var router Router
	var exits []any
	for _, n := range nodes {
		if GetObjectUUID(map[string]any(n)) == "80f2ae0b-492b-4bb1-9628-fb3dc191ab82" {
			router = n.Router()
			exits, _ = n["exits"].([]any)
		}
	}
	zzverif.Assert(router != nil, "the rule set did not become a node with a router")
	exitDest := map[string]string{}
	for _, e := range exits {
		em := e.(map[string]any)
		d, _ := em["destination_uuid"].(string)
		exitDest[em["uuid"].(string)] = d
	}
	catExit, catName := map[string]string{}, map[string]string{}
	cats, _ := router["categories"].([]any)
	for _, c := range cats {
		cm := c.(map[string]any)
		catExit[cm["uuid"].(string)], _ = cm["exit_uuid"].(string)
		catName[cm["uuid"].(string)], _ = cm["name"].(string)
	}
	cases, _ := router["cases"].([]any)
	zzverif.Assert(len(cases) == 3, "not every tested rule became a case")
	for k, c := range cases {
		cm := c.(map[string]any)
		cu, _ := cm["category_uuid"].(string)
		zzverif.Assert(catName[cu] == names[cat[k]], "a rule's case belongs to a category of another name")
		d, known := exitDest[catExit[cu]]
		zzverif.Assert(known && d == dests[cat[k]], "a rule's case does not lead where the legacy rule led")
	}
	dc, _ := router["default_category_uuid"].(string)
	zzverif.Assert(catName[dc] == "Other" && exitDest[catExit[dc]] == otherDest, "the Other rule did not become the default category leading where it led")
	_, isExit := exitDest[ruleUUIDs[0]]
	zzverif.Assert(isExit, "the first rule's UUID is not an exit UUID (legacy path data refers to it)")

	again, err := MigrateToLatest(migrated, DefaultConfig)
	zzverif.Assert(err == nil && string(again) == string(migrated), "migrating a migrated definition again changes it")
}
