package migrations

import (
	"encoding/json"
	"strings"
	"unicode/utf8"

	"github.com/nyaruka/gocommon/uuids"
	"github.com/nyaruka/goflow/zzverif"
)

// ---- symbolic JSON kinds -------------------------------------------------
//
// Definitions are the generic values jsonx.DecodeGeneric produces: nil, bool,
// json.Number, string, []any, map[string]any.  A harness builds a well-typed
// flow and replaces members by a value of an arbitrary other kind (or drops
// them): "structurally plausible definitions with missing, empty or mistyped
// members".

type verifAbsent struct{}

var verifFaultAt [2]int // positions of the mistyped members (-1 = none)
var verifFaultKind [2]int
var verifPos int

func verifKindValue(k int) any {
	switch k {
	case 0:
		return verifAbsent{}
	case 1:
		return nil
	case 2:
		return true
	case 3:
		return json.Number("7")
	case 4:
		return "text"
	case 5:
		return []any{}
	case 6:
		return map[string]any{}
	case 7:
		return []any{"x", nil, json.Number("1"), map[string]any{}, []any{}}
	}
	return map[string]any{"uuid": json.Number("3"), "type": nil, "name": []any{}, "params": "p"}
}

const verifNumKinds = 9

// m returns the well-typed value, or the chosen fault at a fault position.
func m(wellTyped any) any {
	p := verifPos
	verifPos++
	for i := range verifFaultAt {
		if verifFaultAt[i] == p {
			return verifKindValue(verifFaultKind[i])
		}
	}
	return wellTyped
}

// obj builds an object, dropping absent members.
func obj(kv ...any) map[string]any {
	o := map[string]any{}
	for i := 0; i+1 < len(kv); i += 2 {
		if _, absent := kv[i+1].(verifAbsent); !absent {
			o[kv[i].(string)] = kv[i+1]
		}
	}
	return o
}

func arr(vs ...any) any {
	out := []any{}
	for _, v := range vs {
		if _, absent := v.(verifAbsent); !absent {
			out = append(out, v)
		}
	}
	return out
}

// verifFlow builds a two-node 13.x flow exercising everything the 13.x
// migrations touch; name/category/resultName let the caller choose long names.
func verifFlow(resultName, categoryName, actionResultName, actionCategory string) Flow {
	verifPos = 0
	comp := obj("uuid", m("comp1"), "name", "body", "params", m(arr(m("p1"), m("p2"))))
	templating := obj("uuid", m("t1"), "template", m(obj("uuid", "tpl1", "name", "welcome")),
		"variables", m(arr(m("@contact.name"), m("@webhook.x"))),
		"components", m(arr(m(comp))))
	sendMsg := obj("uuid", m("a1"), "type", m("send_msg"), "text", m("hi @webhook"), "templating", m(templating))
	setResult := obj("uuid", m("a2"), "type", m("set_run_result"), "name", m(actionResultName), "category", m(actionCategory), "value", "v")
	router := obj("type", m("switch"), "operand", "@input", "result_name", m(resultName),
		"categories", m(arr(m(obj("uuid", "c1", "name", m(categoryName), "exit_uuid", "e1")), m(obj("uuid", "c2", "name", m("Other"), "exit_uuid", "e2")))),
		"cases", arr(), "default_category_uuid", "c2")
	n1 := obj("uuid", "n1", "actions", m(arr(m(sendMsg), m(setResult))), "router", m(router),
		"exits", arr(obj("uuid", "e1", "destination_uuid", "n2"), obj("uuid", "e2", "destination_uuid", nil)))
	n2 := obj("uuid", "n2", "actions", arr(), "exits", arr(obj("uuid", "e3", "destination_uuid", "n1")))
	loc := obj("spa", m(obj("t1", m(obj("variables", m(arr(m("@contact.nombre"), m("@webhook.y"))))),
		"comp1", m(obj("params", m(arr(m("q1"), m("q2"))))),
		"a1", m(obj("text", arr("hola @webhook"))))),
		"fra", m(obj()))
	return Flow(obj("uuid", "f1", "name", m("Flow"), "spec_version", "13.0.0", "language", m("eng"), "type", "messaging",
		"nodes", m(arr(m(n1), m(n2))), "localization", m(loc)))
}

var verifMigrations = []MigrationFunc{Migrate13_1, Migrate13_2, Migrate13_4, Migrate13_5, Migrate13_6}
var verifMigrationNames = []string{"13.1", "13.2", "13.4", "13.5", "13.6"}

// VerifC16_NoPanic: each 13.x migration (13.3's template rewriting needs the
// expression parser and is exercised on its map-walking part only, see
// VerifC16_RewriteTemplates) applied to a structurally plausible definition in
// which any one (quick) / any two (thorough) of ~60 members are missing, null
// or of another JSON kind never panics.
// cover: well-typed, one-fault, 13.1, 13.2, 13.4, 13.5, 13.6
// cover-thorough: two-faults
func VerifC16_NoPanic() {
	verifFaultAt = [2]int{-1, -1}
	// count positions with a dry build
	verifFlow("Result", "Cat", "Res", "C")
	npos := verifPos
	nfaults := zzverif.Choice("faults", 2)
	if zzverif.Thorough() {
		nfaults = zzverif.Choice("faults", 3)
	}
	for i := 0; i < nfaults; i++ {
		verifFaultAt[i] = zzverif.Choice("fault-position", npos)
		verifFaultKind[i] = zzverif.Choice("fault-kind", verifNumKinds)
	}
	switch nfaults {
	case 0:
		zzverif.Cover("well-typed")
	case 1:
		zzverif.Cover("one-fault")
	default:
		zzverif.Cover("two-faults")
	}
	k := zzverif.Choice("migration", len(verifMigrations))
	zzverif.Cover(verifMigrationNames[k])
	f := verifFlow("Result", "Cat", "Res", "C")
	out, err := verifMigrations[k](f, DefaultConfig)
	zzverif.Assert(err != nil || out != nil, "migration returned neither a flow nor an error")
}

// verifLongName: n-1 concrete characters then `tail` arbitrary bytes.
func verifLongName(name string, n, tail int) string {
	b := []byte(strings.Repeat("n", n-tail))
	for i := 0; i < tail; i++ {
		c := zzverif.Byte(name)
		zzverif.Assume(c != 0)
		b = append(b, c)
	}
	return string(b)
}

func verifStructure(f Flow) []string {
	var out []string
	out = append(out, "flow", f["uuid"].(string))
	for _, n := range f.Nodes() {
		out = append(out, "node", n["uuid"].(string))
		exits, _ := n["exits"].([]any)
		for _, e := range exits {
			ex := e.(map[string]any)
			d, _ := ex["destination_uuid"].(string)
			out = append(out, "exit", ex["uuid"].(string), d)
		}
	}
	return out
}

func verifSame(a, b []string) bool {
	if len(a) != len(b) {
		return false
	}
	same := true
	for i := range a {
		if a[i] != b[i] {
			same = false
		}
	}
	return same
}

// VerifC16_Names: Migrate13_6 on names of 63..67 bytes (result) / 35..39
// (category) with arbitrary, possibly multi-byte or invalid, bytes at the cut:
// afterwards every result name has ≤ 64 and every category name ≤ 36
// characters, the flow's structure (UUIDs, node order, exits, destinations)
// is unchanged and a second application changes nothing.
// cover: result-truncated, category-truncated, untouched, multibyte, router-without-result-name
func VerifC16_Names() {
	verifFaultAt = [2]int{-1, -1}
	which := zzverif.Choice("which-name", 4)
	rn, cn, an, ac := "Result", "Cat", "Res", "C"
	switch which {
	case 0:
		rn = verifLongName("result-name", 63+zzverif.Choice("length", 5), 3)
	case 1:
		cn = verifLongName("category-name", 35+zzverif.Choice("length", 5), 3)
	case 2:
		an = verifLongName("action-result-name", 63+zzverif.Choice("length", 5), 3)
	default:
		ac = verifLongName("action-category", 35+zzverif.Choice("length", 5), 3)
	}
	f := verifFlow(rn, cn, an, ac)
	// a router need not save a result: its category names are limited all the same
	if which == 1 && zzverif.Choice("router-saves-no-result", 2) == 1 {
		delete(f.Nodes()[0].Router(), "result_name")
		zzverif.Cover("router-without-result-name")
	}
	before := verifStructure(f)
	out, err := Migrate13_6(f, DefaultConfig)
	zzverif.Assert(err == nil, "Migrate13_6 failed on a valid definition")
	zzverif.Assert(verifSame(before, verifStructure(out)), "Migrate13_6 changed the flow's UUIDs, nodes or exits")
	names := func(f Flow) []string {
		n1 := f.Nodes()[0]
		r := n1.Router()
		cat := r["categories"].([]any)[0].(map[string]any)
		a := n1.Actions()[1]
		rname, _ := r["result_name"].(string)
		return []string{rname, cat["name"].(string), a["name"].(string), a["category"].(string)}
	}
	got := names(out)
	in := []string{names(f)[0], cn, an, ac}
	limits := []int{64, 36, 64, 36}
	for i := range got {
		zzverif.Assert(utf8.RuneCountInString(got[i]) <= limits[i], "a name is longer than the definition limit after Migrate13_6")
		if got[i] != in[i] {
			if limits[i] == 64 {
				zzverif.Cover("result-truncated")
			} else {
				zzverif.Cover("category-truncated")
			}
		}
		if len(in[i]) > utf8.RuneCountInString(in[i]) {
			zzverif.Cover("multibyte")
		}
	}
	if verifSame(got, in) {
		zzverif.Cover("untouched")
	}
	again, err := Migrate13_6(out, DefaultConfig)
	zzverif.Assert(err == nil && verifSame(got, names(again)), "Migrate13_6 is not stable: a second application changed a name")
}

// verifNormalize mimics the JSON round trip migrate() performs between steps.
func verifNormalize(v any) any {
	switch t := v.(type) {
	case map[string]any:
		for k, e := range t {
			t[k] = verifNormalize(e)
		}
		return t
	case Flow:
		return verifNormalize(map[string]any(t))
	case []any:
		for i := range t {
			t[i] = verifNormalize(t[i])
		}
		return t
	case []map[string]any:
		out := make([]any, len(t))
		for i := range t {
			out[i] = verifNormalize(t[i])
		}
		return out
	case []string:
		out := make([]any, len(t))
		for i := range t {
			out[i] = t[i]
		}
		return out
	case uuids.UUID:
		return string(t)
	}
	return v
}

// VerifC16_TemplateVariables: 13.3 -> 13.4 -> 13.5 moves the template
// variables of a send_msg action and their translations without loss:
// arbitrary variable texts, translated in one language, not in another.
// cover: moved, translations-moved
func VerifC16_TemplateVariables() {
	verifFaultAt = [2]int{-1, -1}
	f := verifFlow("Result", "Cat", "Res", "C")
	v1, v2 := zzverif.String("variable-1", 2), zzverif.String("variable-2", 2)
	t1 := zzverif.String("translated-variable-1", 2)
	sm := f.Nodes()[0].Actions()[0]
	tpl := sm["templating"].(map[string]any)
	delete(tpl, "components")
	tpl["variables"] = []any{v1, v2}
	spa := f.Localization().GetLanguageTranslation("spa")
	delete(spa, "comp1")
	spa["t1"] = map[string]any{"variables": []any{t1, "w2"}}
	before := verifStructure(f)

	out, err := Migrate13_4(f, DefaultConfig)
	zzverif.Assert(err == nil, "Migrate13_4 failed")
	out = Flow(verifNormalize(out).(map[string]any))
	out, err = Migrate13_5(out, DefaultConfig)
	zzverif.Assert(err == nil, "Migrate13_5 failed")
	out = Flow(verifNormalize(out).(map[string]any))
	zzverif.Assert(verifSame(before, verifStructure(out)), "migration changed the flow's UUIDs, nodes or exits")

	sm = out.Nodes()[0].Actions()[0]
	_, still := sm["templating"]
	zzverif.Assert(!still, "templating object still present after 13.5")
	vars, _ := sm["template_variables"].([]any)
	zzverif.Assert(len(vars) == 2 && vars[0] == any(v1) && vars[1] == any(v2), "template variables were lost or reordered by the migration")
	zzverif.Cover("moved")
	tr := out.Localization().GetLanguageTranslation("spa").GetTranslation("a1", "template_variables")
	zzverif.Assert(len(tr) == 2 && tr[0] == t1 && tr[1] == "w2", "translated template variables were lost by the migration")
	zzverif.Assert(out.Localization().GetLanguageTranslation("spa").GetTranslation("t1", "variables") == nil, "old translation left behind")
	text := out.Localization().GetLanguageTranslation("spa").GetTranslation("a1", "text")
	zzverif.Assert(len(text) == 1 && text[0] == "hola @webhook", "an unrelated translation was changed")
	zzverif.Cover("translations-moved")
}
