package migrations

import (
	"github.com/Masterminds/semver"
	"github.com/nyaruka/gocommon/jsonx"
	"github.com/nyaruka/goflow/zzverif"
	"strings"
)

var verifChainVersions = []string{"13.0.0", "13.1.0", "13.2.0", "13.3.0", "13.4.0", "13.5.0", "13.6.0"}

// arbitrary text without U+0000 (the template scanner's end-of-input
// sentinel; RapidPro cannot store it), ASCII in the quick tier
func verifChainText(name string, n int) string {
	s := zzverif.String(name, n)
	for i := 0; i < len(s); i++ {
		zzverif.Assume(s[i] != 0)
		if !zzverif.Thorough() {
			zzverif.Assume(s[i] < 0x80)
		}
	}
	return s
}

// VerifC16_Chain: the real MigrateToVersion on JSON text (the JSON bridge
// carries the symbolic bytes), every source version 13.1-13.5 to every later
// target: migrating in one go gives byte for byte the definition that
// migrating one version at a time gives, and for a source before 13.4 and a
// target from 13.5 on the send_msg action's template variables and their
// translation (arbitrary texts) arrive in template_variables.
// cover: multi-step, crosses-13.4-and-13.5, translations-arrived, crosses-13.3, webhook-in-translation-only, webhook-in-another-case
func VerifC16_Chain() {
	verifFaultAt = [2]int{-1, -1}
	from := 1 + zzverif.Choice("source-version", 5) // (13.0 templating objects have no UUID and so no translations)
	to := from + 1 + zzverif.Choice("versions-ahead", 6-from)
	f := verifFlow("Result", "Cat", "Res", "C")
	f["uuid"] = "8f6f4e8e-5d0a-4a9e-9c3a-3c1c6f1a2b3c"
	f["spec_version"] = verifChainVersions[from]
	v1, t1 := "@fields.age", "x"+verifChainText("translated-variable", 1)
	if zzverif.Thorough() {
		t1 = verifChainText("translated-variable", 2)
		v1 = "@fields." + verifChainText("variable", 1)
	}
	sm := f.Nodes()[0].Actions()[0]
	tpl := sm["templating"].(map[string]any)
	spa := f.Localization().GetLanguageTranslation("spa")
	switch {
	case from < 4: // before 13.4: variables on the templating object
		delete(tpl, "components")
		tpl["variables"] = []any{v1, "@contact.name"}
		delete(spa, "comp1")
		spa["t1"] = map[string]any{"variables": []any{t1, "w2"}}
	case from == 4: // 13.4: component params
		delete(tpl, "variables")
		tpl["components"].([]any)[0].(map[string]any)["params"] = []any{v1, "@contact.name"}
		delete(spa, "t1")
		spa["comp1"] = map[string]any{"params": []any{t1, "w2"}}
	default: // 13.5: template_variables on the action
		delete(sm, "templating")
		sm["template_variables"] = []any{v1, "@contact.name"}
		delete(spa, "t1")
		delete(spa, "comp1")
		spa["a1"].(map[string]any)["template_variables"] = []any{t1, "w2"}
	}
	// the message text and its translation refer to @webhook in both, in the base text only or in the translation only
	// (context references are case-insensitive: the reference may be spelled in any case)
	ref := []string{"@webhook", "@Webhook", "@WEBHOOK"}[zzverif.Choice("webhook-spelling", 3)]
	if ref != "@webhook" {
		zzverif.Cover("webhook-in-another-case")
	}
	baseText, spaText := "hi "+ref, "hola "+ref+".name"
	switch zzverif.Choice("webhook-referenced-in", 3) {
	case 1:
		spaText = "hola"
	case 2:
		baseText = "hi"
		zzverif.Cover("webhook-in-translation-only")
	}
	sm["text"] = baseText
	spa["a1"].(map[string]any)["text"] = []any{spaText}
	data := jsonx.MustMarshal(f)

	zzverif.ResetEnv()
	oneGo, err := MigrateToVersion(data, semver.MustParse(verifChainVersions[to]), DefaultConfig)
	zzverif.Assert(err == nil, "migrating in one go failed")

	zzverif.ResetEnv()
	stepwise := data
	for v := from + 1; v <= to; v++ {
		stepwise, err = MigrateToVersion(stepwise, semver.MustParse(verifChainVersions[v]), DefaultConfig)
		zzverif.Assert(err == nil, "migrating one version at a time failed")
	}
	if to > from+1 {
		zzverif.Cover("multi-step")
	}
	zzverif.Assert(string(oneGo) == string(stepwise), "migrating in one go and one version at a time give different definitions")

	out, err := ReadFlow(oneGo)
	zzverif.Assert(err == nil, "migrated definition cannot be read")
	if from < 4 && to >= 5 {
		zzverif.Cover("crosses-13.4-and-13.5")
	}
	if from < 3 && to >= 3 {
		// 13.3 rewrites @webhook to @webhook.json wherever a template refers to it, translations included
		zzverif.Cover("crosses-13.3")
		gotBase, _ := out.Nodes()[0].Actions()[0]["text"].(string)
		gotSpa := out.Localization().GetLanguageTranslation("spa").GetTranslation("a1", "text")
		zzverif.Assert(gotBase == strings.ReplaceAll(baseText, ref, "@webhook.json"), "the base text was not rewritten to keep its meaning")
		zzverif.Assert(len(gotSpa) == 1 && gotSpa[0] == strings.ReplaceAll(spaText, ref, "@webhook.json"), "a translation was not rewritten to keep its meaning")
	}
	if to >= 5 {
		sm = out.Nodes()[0].Actions()[0]
		vars, _ := sm["template_variables"].([]any)
		zzverif.Assert(len(vars) == 2 && vars[0] == any(v1) && vars[1] == any("@contact.name"), "template variables were lost or reordered by the migration")
		tr := out.Localization().GetLanguageTranslation("spa").GetTranslation("a1", "template_variables")
		zzverif.Assert(len(tr) == 2 && tr[0] == t1 && tr[1] == "w2", "translated template variables were lost by the migration")
		zzverif.Assert(len(out.Localization().GetLanguageTranslation("spa")) == 1, "a translation for something no longer in the flow was left behind")
		zzverif.Cover("translations-arrived")
	}
}
