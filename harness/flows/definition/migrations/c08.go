package migrations

import (
	"github.com/nyaruka/goflow/flows/definition/legacy"
	"sort"
	"strings"

	"github.com/nyaruka/gocommon/uuids"
	"github.com/nyaruka/goflow/zzverif"
)

// verifCanon renders a generic definition with sorted keys (what JSON
// marshalling does), so that only the content — not Go's map order — counts.
func verifCanon(v any) string {
	switch t := v.(type) {
	case map[string]any:
		keys := make([]string, 0, len(t))
		for k := range t {
			keys = append(keys, k)
		}
		sort.Strings(keys)
		var sb strings.Builder
		sb.WriteString("{")
		for _, k := range keys {
			sb.WriteString(k + ":" + verifCanon(t[k]) + ",")
		}
		sb.WriteString("}")
		return sb.String()
	case Flow:
		return verifCanon(map[string]any(t))
	case []any:
		var sb strings.Builder
		sb.WriteString("[")
		for _, e := range t {
			sb.WriteString(verifCanon(e) + ",")
		}
		sb.WriteString("]")
		return sb.String()
	case string:
		return "\"" + t + "\""
	case nil:
		return "null"
	}
	return "?"
}

func verifC08Flow() Flow {
	verifFaultAt = [2]int{-1, -1}
	f := verifFlow("Result", "Cat", "Res", "C")
	loc := f.Localization()
	loc["fra"] = map[string]any{"t1": map[string]any{"variables": []any{"@contact.nom", "@webhook.z"}}, "comp1": map[string]any{"params": []any{"r1"}}}
	loc["kin"] = map[string]any{"comp1": map[string]any{"params": []any{"k1", "k2"}}}
	return f
}

// VerifC08_Migrations: migrating equal definitions with translations in three
// languages gives equal results on every execution, whatever the iteration
// order of the localization and node maps (13.4, 13.5, 13.6, and 13.4 then
// 13.5).
// cover: 13.4, 13.5, 13.4+13.5, 13.6
func VerifC08_Migrations() {
	which := zzverif.Choice("migration", 4)
	run := func() string {
		zzverif.ResetEnv()
		f := verifC08Flow()
		switch which {
		case 0:
			zzverif.Cover("13.4")
			delete(f.Nodes()[0].Actions()[0]["templating"].(map[string]any), "components")
			f, _ = Migrate13_4(f, DefaultConfig)
		case 1:
			zzverif.Cover("13.5")
			f, _ = Migrate13_5(f, DefaultConfig)
		case 2:
			zzverif.Cover("13.4+13.5")
			delete(f.Nodes()[0].Actions()[0]["templating"].(map[string]any), "components")
			f, _ = Migrate13_4(f, DefaultConfig)
			f = Flow(verifNormalize(f).(map[string]any))
			f, _ = Migrate13_5(f, DefaultConfig)
		default:
			zzverif.Cover("13.6")
			f, _ = Migrate13_6(f, DefaultConfig)
		}
		return verifCanon(verifNormalize(f))
	}
	a := run() // insertion order
	zzverif.SymbolicMapOrder(true)
	b := run() // arbitrary order
	zzverif.Assert(a == b, "migrating the same definition twice gave different results")
}

// VerifC08_Clone: cloning a definition with a fixed dependency mapping and the
// same UUID source gives the same result on every execution.
// cover: cloned
func VerifC08_Clone() {
	u := func(n int) string { return "00000000-0000-4000-8000-00000000000" + string(rune('0'+n)) }
	variant := zzverif.Choice("definition", 2)
	run := func() Flow {
		zzverif.ResetEnv()
		// a small definition: two nodes pointing at each other, an action with a
		// mapped UUID, translations keyed by UUID in two languages
		var f Flow
		if variant == 0 {
			f = Flow{"uuid": u(0), "nodes": []any{
				map[string]any{"uuid": u(1), "actions": []any{map[string]any{"uuid": u(3), "type": "send_msg", "text": "hi"}},
					"exits": []any{map[string]any{"uuid": u(4), "destination_uuid": u(2)}}},
				map[string]any{"uuid": u(2), "exits": []any{}}},
				"localization": map[string]any{"spa": map[string]any{u(3): map[string]any{"text": []any{"hola"}}},
					"fra": map[string]any{u(4): map[string]any{"text": []any{"salut"}}}}}
		} else {
			// objects keyed by two UUIDs that are not in the mapping yet: the translations of a language, the editor's node positions
			f = Flow{"uuid": u(0), "nodes": []any{map[string]any{"uuid": u(1)}, map[string]any{"uuid": u(2)}},
				"localization": map[string]any{"spa": map[string]any{u(5): "Rojo", u(4): "Otro"}},
				"_ui": map[string]any{"nodes": map[string]any{u(1): "a", u(2): "b"}}}
		}
		remapUUIDs(f, map[uuids.UUID]uuids.UUID{uuids.UUID(u(3)): uuids.UUID(u(9))})
		return f
	}
	a := verifCanon(run())
	zzverif.SymbolicMapOrder(true)
	fb := run()
	zzverif.SymbolicMapOrder(false) // (the rendering below is the harness's own: its ranges are not the subject)
	b := verifCanon(fb)
	zzverif.Cover("cloned")
	zzverif.Assert(a == b, "cloning the same definition twice with the same mapping gave different results")
}

// VerifC08_LegacyMigration: a legacy-format flow whose reply action has a
// message and quick replies in three languages — among them the
// pseudo-language "base" next to the real base language — is migrated by
// legacy.MigrateDefinition to byte-identical JSON on every execution whatever
// the iteration order of the language maps the legacy migration ranges over.
// cover: migrated
func VerifC08_LegacyMigration() {
	third := []string{"fra", "aaa", "zzz"}[zzverif.Choice("third-language", 3)] // (sorts before / after "base" and "eng")
	legacyDef := strings.ReplaceAll(`{"rule_sets": [],
	"action_sets": [
	 {"y": 0, "x": 100, "destination": null, "uuid": "029c3266-39c1-4850-9d71-7e008dae2e65", "actions": [
	   {"msg": {"eng": "Hello", "fra": "Bonjour", "base": "Hi"},
	    "quick_replies": [{"eng": "Yes", "fra": "Oui", "base": "Yeah"}, {"eng": "No", "fra": "Non", "base": "Nope"}], "type": "reply", "uuid": "623c784f-5277-4dbc-9568-f7984dbc5c7b"}],
	  "exit_uuid": "21eab42d-8cfd-4e1f-a4a0-cb7d069bc366"}],
	"base_language": "eng", "flow_type": "F", "entry": "029c3266-39c1-4850-9d71-7e008dae2e65",
	"metadata": {"uuid": "40730a2d-edaa-4ff0-9d2f-81ca2131ddfe", "saved_on": null, "name": "Translated"}, "version": "11.11"}`, "fra", third)
	run := func() string {
		zzverif.ResetEnv()
		out, err := legacy.MigrateDefinition([]byte(legacyDef), "")
		zzverif.Assert(err == nil, "a legacy definition could not be migrated")
		return string(out)
	}
	first := run()
	zzverif.Cover("migrated")
	zzverif.SymbolicMapOrder(true)
	repeats := 1
	if !zzverif.Symbolic() {
		repeats = 200
	}
	for n := 0; n < repeats; n++ {
		zzverif.Assert(run() == first, "migrating the same legacy definition gives different output on different executions")
	}
	zzverif.SymbolicMapOrder(false)
}
