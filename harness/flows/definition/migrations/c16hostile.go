package migrations

import (
	"encoding/json"

	"github.com/nyaruka/gocommon/jsonx"
	"github.com/nyaruka/goflow/zzverif"
)

// ---- hostile legacy-format definitions -------------------------------------
//
// "Any other input - malformed, truncated or hostile definition JSON, as
// arrives with user-uploaded exports - is rejected with an error, never with a
// panic."  The 13.x side of that clause is VerifC16_NoPanic; this is the
// legacy side: a legacy-format definition, as the legacy editor exported it,
// with one action of any legacy action type, one rule set of any legacy rule
// set type and one rule with a test of any legacy test type, in which any one
// member (quick; any two in the thorough tier) is missing, null or of another
// JSON kind, through the real MigrateToLatest (legacy.MigrateDefinition — the
// typed readers of the legacy structures over the JSON bridge, the migration
// of actions, rule sets, rules and localization, the Excellent1 parser model
// — and then every 13.x migration).  Either outcome is fine; a panic is not.

var verifLegacyActionTypes = []string{"reply", "send", "email", "add_label", "lang", "channel", "flow", "trigger-flow", "add_group", "del_group", "save", "say", "play", "api"}
var verifLegacyRulesetTypes = []string{"wait_message", "wait_digits", "subflow", "webhook", "resthook", "form_field", "group", "flow_field", "contact_field", "expression", "random", "airtime", ""}
var verifLegacyTestTypes = []string{"contains_any", "regex", "eq", "between", "date_equal", "in_group", "subflow", "webhook_status", "airtime_status", "district", "ward", "timeout", "not_empty", "true", "bogus"}

// region boundaries of the fault positions recorded by the last build
var verifLegacyRegions [5]int

// texts of the well-typed variant that the solver chooses (empty when unused)
var verifLegacyOperand, verifLegacyWebhook, verifLegacyTest = "@flow.color.text", "http://x/?t=@contact.tel", "@flow.state"

func verifLegacyFlow(actionType, rulesetType, testType string) map[string]any {
	verifPos = 0
	// --- the action
	var msg any = obj("base", m("Hi @contact.name"), "fra", m("Salut"))
	if actionType == "email" {
		msg = "Body for @contact.name"
	}
	action := obj("type", m(actionType), "uuid", m("623c784f-5277-4dbc-9568-f7984dbc5c7b"), "name", m("Channel"),
		"msg", m(msg), "media", m(obj("base", m("image:a.jpg"))), "quick_replies", m(arr(m(obj("base", m("Yes"), "fra", "Oui")))), "send_all", m(false),
		"contacts", m(arr(m(obj("uuid", m("5d76d86b-3bb9-4d5a-b822-c9d86f5d8e4f"), "name", m("Bob"))))),
		"groups", m(arr(m(obj("uuid", m("b7cf0d83-f1c9-411c-96fd-c511a4cfa86d"), "name", m("Testers"))), m("@contact.district"))),
		"variables", m(arr(m(obj("id", m("@contact.tel_e164"))), obj("id", "@new_contact"))),
		"field", m("age"), "value", m("@step.value"), "label", m("Age"), "lang", m("fra"),
		"labels", m(arr(m(obj("uuid", m("3f65d88a-95dc-4140-9451-943e94e06fea"), "name", m("Spam"))), m("@flow.label"))),
		"flow", m(obj("uuid", m("b7cf0d83-f1c9-411c-96fd-c511a4cfa86e"), "name", m("Child"))),
		"channel", m("57f1078f-88aa-46f4-a59a-948a5739c03d"), "emails", m(arr(m("a@b.c"), "@contact.email")), "subject", m("Hi @contact"),
		"recording", m(obj("base", m("/r.mp3"))), "url", m("http://x/@flow.a.mp3"))
	actionSet := obj("y", m(json.Number("0")), "x", json.Number("100"), "destination", m("80f2ae0b-492b-4bb1-9628-fb3dc191ab82"), "uuid", m("029c3266-39c1-4850-9d71-7e008dae2e65"),
		"actions", m(arr(m(action))), "exit_uuid", m("21eab42d-8cfd-4e1f-a4a0-cb7d069bc366"))
	verifLegacyRegions[0] = verifPos
	// --- the rule set (without its rules)
	var config any = obj("flow", m(obj("uuid", m("b7cf0d83-f1c9-411c-96fd-c511a4cfa86e"), "name", m("Child"))),
		"field_delimiter", m(" "), "field_index", m(json.Number("1")), "webhook", m(verifLegacyWebhook), "webhook_action", m("GET"),
		"webhook_headers", m(arr(m(obj("name", m("Auth"), "value", m("@flow.token"))))), "resthook", m("new-registration"))
	if rulesetType == "airtime" {
		config = obj("RW", m(obj("currency_code", m("RWF"), "amount", m(json.Number("500")))), "US", m(obj("currency_code", m("USD"), "amount", m("1.50"))))
	}
	cfgPos := m(config)
	label, operand, finished, rtype := m("Color"), m(verifLegacyOperand), m("#"), m(rulesetType)
	rsUUID, rsY := m("80f2ae0b-492b-4bb1-9628-fb3dc191ab82"), m(json.Number("106"))
	verifLegacyRegions[1] = verifPos
	// --- the tested rule
	var testArg any
	switch testType {
	case "contains_any", "regex":
		testArg = obj("base", m("red @flow.x"), "fra", m("rouge"))
	case "eq":
		testArg = json.Number("5")
	case "in_group":
		testArg = obj("uuid", m("b7cf0d83-f1c9-411c-96fd-c511a4cfa86d"), "name", m("Testers"))
	case "date_equal":
		testArg = "@(date.today + 2)"
	default:
		testArg = verifLegacyTest
	}
	test := obj("type", m(testType), "test", m(testArg), "min", m("1"), "max", m("@flow.max"), "minutes", m(json.Number("5")), "exit_type", m("completed"),
		"status", m("success"), "exit_status", m("success"), "state", m("@flow.state"), "district", m("@flow.district"))
	rule := obj("uuid", m("a66f3bfc-7a68-4925-a07b-a31cbc1b207a"), "destination", m("9e82371e-94f6-41cf-8a97-82aedc1ccadd"), "destination_type", m("A"),
		"category", m(obj("base", m("Red"), "fra", m("Rouge"))), "test", m(test))
	other := obj("uuid", m("ee85d3a5-75af-4809-94b9-661c2e731c2a"), "destination", m(nil), "category", m(obj("base", m("Other"))), "test", m(obj("type", m("true"), "test", m("true"))))
	rules := m(arr(m(rule), m(other)))
	verifLegacyRegions[2] = verifPos
	ruleSet := obj("y", rsY, "x", json.Number("100"), "uuid", rsUUID, "label", label, "ruleset_type", rtype, "operand", operand, "finished_key", finished,
		"config", cfgPos, "rules", rules)
	// --- the flow
	actionSet2 := obj("y", json.Number("228"), "x", json.Number("118"), "destination", nil, "uuid", "9e82371e-94f6-41cf-8a97-82aedc1ccadd",
		"actions", arr(obj("msg", obj("base", "You picked @flow.color"), "type", "reply", "uuid", "988b0715-a553-435a-bc05-76389570b70b")), "exit_uuid", "f659aa9f-492e-4872-82ce-e752719c3559")
	flow := obj("rule_sets", m(arr(m(ruleSet))), "action_sets", m(arr(m(actionSet), m(actionSet2))),
		"base_language", m("base"), "flow_type", m("F"), "entry", m("029c3266-39c1-4850-9d71-7e008dae2e65"),
		"metadata", m(obj("uuid", m("40730a2d-edaa-4ff0-9d2f-81ca2131ddfe"), "saved_on", nil, "name", m("Pick a Color"), "revision", m(json.Number("3")), "expires", m(json.Number("10")),
			"notes", m(arr(m(obj("x", m(json.Number("1")), "y", m(json.Number("2")), "title", m("t"), "body", m("b"))))))),
		"version", m("11.11"), "uuid", m("40730a2d-edaa-4ff0-9d2f-81ca2131ddff"), "name", m("Pick"))
	verifLegacyRegions[3] = verifPos
	return flow
}

// VerifC16_LegacyHostile: see the comment above.  The variant (which action,
// rule set or test type) and the region in which the fault lies go together,
// so that the paths stay in the thousands: an action type with a fault in the
// action set, a rule set type with a fault in the rule set, a test type with
// a fault in the rules, and the default flow with a fault anywhere at flow
// level.
// cover: well-typed, arbitrary-text, one-fault, action-region, ruleset-region, rule-region, flow-region, migrated, rejected
// cover-thorough: two-faults
func VerifC16_LegacyHostile() {
	verifFaultAt = [2]int{-1, -1}
	region := zzverif.Choice("region", 4)
	actionType, rulesetType, testType := "reply", "wait_message", "contains_any"
	switch region {
	case 0:
		actionType = verifLegacyActionTypes[zzverif.Choice("action-type", len(verifLegacyActionTypes))]
		zzverif.Cover("action-region")
	case 1:
		rulesetType = verifLegacyRulesetTypes[zzverif.Choice("ruleset-type", len(verifLegacyRulesetTypes))]
		switch rulesetType {
		case "subflow":
			testType = "subflow"
		case "webhook", "resthook":
			testType = "webhook_status"
		case "airtime":
			testType = "airtime_status"
		case "group":
			testType = "in_group"
		}
		zzverif.Cover("ruleset-region")
	case 2:
		testType = verifLegacyTestTypes[zzverif.Choice("test-type", len(verifLegacyTestTypes))]
		zzverif.Cover("rule-region")
	default:
		zzverif.Cover("flow-region")
	}
	verifLegacyFlow(actionType, rulesetType, testType)
	lo, hi := 0, verifLegacyRegions[0]
	if region > 0 {
		lo, hi = verifLegacyRegions[region-1], verifLegacyRegions[region]
	}
	nfaults := zzverif.Choice("faults", 2)
	if zzverif.Thorough() {
		nfaults = zzverif.Choice("faults", 3)
	}
	for i := 0; i < nfaults; i++ {
		verifFaultAt[i] = lo + zzverif.Choice("fault-position", hi-lo)
		verifFaultKind[i] = zzverif.Choice("fault-kind", verifNumKinds)
	}
	switch nfaults {
	case 0:
		zzverif.Cover("well-typed")
	case 1:
		zzverif.Cover("one-fault")
	default:
		zzverif.Cover("two-faults")
	}
	verifLegacyOperand, verifLegacyWebhook, verifLegacyTest = "@flow.color.text", "http://x/?t=@contact.tel", "@flow.state"
	if nfaults == 0 && region > 0 && region < 3 {
		// the well-typed definition with an arbitrary short text (printable
		// ASCII, no quote or backslash: the text travels inside JSON) as the
		// rule set's operand, its webhook URL or the rule's test argument
		txt := zzverif.String("text", 2)
		for k := 0; k < len(txt); k++ {
			zzverif.Assume(txt[k] >= 0x20 && txt[k] < 0x7f && txt[k] != '"' && txt[k] != '\\')
		}
		switch zzverif.Choice("text-position", 3) {
		case 0:
			verifLegacyOperand = txt
		case 1:
			verifLegacyWebhook = txt
		default:
			verifLegacyTest = txt
		}
		zzverif.Cover("arbitrary-text")
	}
	data := jsonx.MustMarshal(verifLegacyFlow(actionType, rulesetType, testType))
	zzverif.ResetEnv()
	out, err := MigrateToLatest(data, DefaultConfig)
	if err == nil {
		zzverif.Cover("migrated")
		zzverif.Assert(len(out) > 0, "migration returned neither a definition nor an error")
	} else {
		zzverif.Cover("rejected")
	}
}
