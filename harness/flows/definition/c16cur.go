package definition

import (
	"encoding/json"
	"sort"

	"github.com/nyaruka/gocommon/jsonx"
	"github.com/nyaruka/goflow/flows"
	"github.com/nyaruka/goflow/zzverif"
)

// ---- definitions at the current version: hostile members and the marshal round trip ----
//
// A two-node flow at the current spec version is built as a generic JSON
// value: node 1 carries one action of any of the 24 action types (the JSON
// example of the action's own documentation comment), node 2 a router of one
// of four kinds (switch with a msg wait, hint and timeout; switch without a
// wait; random; switch with a dial wait in a voice flow), with a translation.
// Every member and every array element of the varied region is a *fault
// position*.

type verifCurAbsent struct{}

var verifCurFaultAt, verifCurFaultKind, verifCurPos int
var verifCurRecord bool // positions are only counted inside the varied region

const verifCurKinds = 10 // 0..8 as in the 13.x harness, 9 = the zero value of the member's own kind

func verifCurFault(k int, wellTyped any) any {
	switch k {
	case 0:
		return verifCurAbsent{}
	case 1:
		return nil
	case 2:
		return true
	case 3:
		return json.Number("7")
	case 4:
		return "text"
	case 5:
		return []any{}
	case 6:
		return map[string]any{}
	case 7:
		return []any{"x", nil, json.Number("1"), map[string]any{}, []any{}}
	case 8:
		return map[string]any{"uuid": json.Number("3"), "type": nil, "name": []any{}, "params": "p"}
	}
	switch wellTyped.(type) {
	case string:
		return ""
	case json.Number:
		return json.Number("0")
	case bool:
		return false
	case []any:
		return []any{}
	case map[string]any:
		return map[string]any{}
	}
	return nil
}

func verifCurM(wellTyped any) any {
	if !verifCurRecord {
		return wellTyped
	}
	p := verifCurPos
	verifCurPos++
	if p == verifCurFaultAt {
		return verifCurFault(verifCurFaultKind, wellTyped)
	}
	return wellTyped
}

// verifCurWrap makes every member and element of v a fault position (keys in sorted order).
func verifCurWrap(v any) any {
	switch t := v.(type) {
	case map[string]any:
		keys := make([]string, 0, len(t))
		for k := range t {
			keys = append(keys, k)
		}
		sort.Strings(keys)
		o := map[string]any{}
		for _, k := range keys {
			x := verifCurM(verifCurWrap(t[k]))
			if _, absent := x.(verifCurAbsent); !absent {
				o[k] = x
			}
		}
		return o
	case []any:
		out := []any{}
		for _, e := range t {
			x := verifCurM(verifCurWrap(e))
			if _, absent := x.(verifCurAbsent); !absent {
				out = append(out, x)
			}
		}
		return out
	}
	return v
}

const verifCurCategories = `[{"uuid": "598ae7a5-2f81-48f1-afac-595262514aa1", "name": "Red", "exit_uuid": "d7a36118-0a38-4b35-a7e4-ae89042f0d3c"},
  {"uuid": "78ae8f05-f92e-43b2-a886-406eaea1b8e0", "name": "Other", "exit_uuid": "744b1082-4d95-40d0-839a-89fc1bb99d30"},
  {"uuid": "88ae8f05-f92e-43b2-a886-406eaea1b8e0", "name": "No Response", "exit_uuid": "844b1082-4d95-40d0-839a-89fc1bb99d30"}]`
const verifCurCases = `[{"uuid": "98503572-25bf-40ce-ad72-8836b6549a38", "type": "has_any_word", "arguments": ["red"], "category_uuid": "598ae7a5-2f81-48f1-afac-595262514aa1"},
  {"uuid": "a8503572-25bf-40ce-ad72-8836b6549a38", "type": "has_number_between", "arguments": ["1", "@fields.max"], "category_uuid": "598ae7a5-2f81-48f1-afac-595262514aa1"}]`

var verifCurRouters = []string{
	`{"type": "switch", "operand": "@input.text", "result_name": "Color", "wait": {"type": "msg", "hint": {"type": "digits", "count": 1}, "timeout": {"seconds": 600, "category_uuid": "88ae8f05-f92e-43b2-a886-406eaea1b8e0"}},
	  "cases": ` + verifCurCases + `, "categories": ` + verifCurCategories + `, "default_category_uuid": "78ae8f05-f92e-43b2-a886-406eaea1b8e0"}`,
	`{"type": "switch", "operand": "@(default(fields.color, \"\"))", "cases": ` + verifCurCases + `, "categories": ` + verifCurCategories + `, "default_category_uuid": "78ae8f05-f92e-43b2-a886-406eaea1b8e0"}`,
	`{"type": "random", "result_name": "Bucket", "categories": ` + verifCurCategories + `}`,
	`{"type": "switch", "operand": "@(default(resume.dial.status, \"\"))", "result_name": "Redirect", "wait": {"type": "dial", "phone": "@fields.supervisor", "dial_limit_seconds": 30, "call_limit_seconds": 600},
	  "cases": [{"uuid": "98503572-25bf-40ce-ad72-8836b6549a38", "type": "has_only_text", "arguments": ["answered"], "category_uuid": "598ae7a5-2f81-48f1-afac-595262514aa1"}],
	  "categories": ` + verifCurCategories + `, "default_category_uuid": "78ae8f05-f92e-43b2-a886-406eaea1b8e0"}`,
}

func verifCurGeneric(text string) any {
	v, err := jsonx.DecodeGeneric([]byte(text))
	if err != nil {
		panic("harness definition is not JSON: " + err.Error())
	}
	return v
}

// verifCurFlow builds the definition; region 0 varies the action, 1 the router, 2 everything else.
func verifCurFlow(actionType string, routerKind, region int) []byte {
	verifCurPos = 0
	flowType := "messaging"
	if actionType == "play_audio" || actionType == "say_msg" || routerKind == 3 {
		flowType = "voice"
	}
	verifCurRecord = region == 0
	action := verifCurWrap(verifCurGeneric(verifActionDocs[actionType]))
	verifCurRecord = region == 1
	router := verifCurWrap(verifCurGeneric(verifCurRouters[routerKind]))
	verifCurRecord = region == 2
	flow := verifCurWrap(map[string]any{
		"uuid": "8f6f4e8e-5d0a-4a9e-9c3a-3c1c6f1a2b3c", "name": "Flow", "spec_version": CurrentSpecVersion.String(), "language": "eng", "type": flowType,
		"revision": json.Number("3"), "expire_after_minutes": json.Number("10"),
		"localization": map[string]any{"spa": map[string]any{"8eebd020-1af5-431c-b943-aa670fc74da9": map[string]any{"text": []any{"hola"}, "quick_replies": []any{"Si", "No"}},
			"598ae7a5-2f81-48f1-afac-595262514aa1": map[string]any{"name": []any{"Rojo"}}}},
		"_ui": map[string]any{"nodes": map[string]any{}},
		"nodes": []any{
			map[string]any{"uuid": "a58be63b-907d-4a1a-856b-0bb5579d7507", "actions": []any{verifCurAbsent{}},
				"exits": []any{map[string]any{"uuid": "37d8813f-1402-4ad2-9cc2-e9054a96525b", "destination_uuid": "baaf9085-1198-4b41-9a1c-cc51c6dbec99"}}},
			map[string]any{"uuid": "baaf9085-1198-4b41-9a1c-cc51c6dbec99", "actions": []any{}, "router": verifCurAbsent{},
				"exits": []any{map[string]any{"uuid": "d7a36118-0a38-4b35-a7e4-ae89042f0d3c", "destination_uuid": "a58be63b-907d-4a1a-856b-0bb5579d7507"},
					map[string]any{"uuid": "744b1082-4d95-40d0-839a-89fc1bb99d30", "destination_uuid": nil},
					map[string]any{"uuid": "844b1082-4d95-40d0-839a-89fc1bb99d30"}}},
		},
	}).(map[string]any)
	verifCurRecord = false
	// the action and the router are put in place afterwards (the placeholders above are dropped by the wrapper)
	if nodes, ok := flow["nodes"].([]any); ok {
		for _, n := range nodes {
			node, _ := n.(map[string]any)
			if node == nil {
				continue
			}
			if node["uuid"] == "a58be63b-907d-4a1a-856b-0bb5579d7507" {
				node["actions"] = []any{action}
			} else if node["uuid"] == "baaf9085-1198-4b41-9a1c-cc51c6dbec99" {
				node["router"] = router
			}
		}
	}
	return jsonx.MustMarshal(flow)
}

func verifCurChoose() (string, int, int, int) {
	region := zzverif.Choice("region", 3)
	actionType, routerKind := "send_msg", 0
	switch region {
	case 0:
		actionType = verifActionTypes[zzverif.Choice("action-type", len(verifActionTypes))]
		zzverif.Cover("action-region")
	case 1:
		routerKind = zzverif.Choice("router-kind", len(verifCurRouters))
		zzverif.Cover("router-region")
	default:
		zzverif.Cover("flow-region")
	}
	verifCurFaultAt = -1
	verifCurFlow(actionType, routerKind, region)
	return actionType, routerKind, region, verifCurPos
}

// VerifC16_CurrentHostile: the definition above in which any one member or
// array element of the varied region is missing, null or of another JSON kind
// is either read by the real definition.ReadFlow (header, migration check,
// typed readers of every action, router, wait, hint and timeout, goflow's
// validation, flow.validate) or rejected with an error — never a panic.
// cover: action-region, router-region, flow-region, loaded, rejected, well-typed
func VerifC16_CurrentHostile() {
	actionType, routerKind, region, npos := verifCurChoose()
	if zzverif.Choice("faulty", 2) == 1 {
		verifCurFaultAt = zzverif.Choice("fault-position", npos)
		verifCurFaultKind = zzverif.Choice("fault-kind", verifCurKinds-1)
	} else {
		zzverif.Cover("well-typed")
	}
	data := verifCurFlow(actionType, routerKind, region)
	f, err := ReadFlow(data, nil)
	if err == nil {
		zzverif.Cover("loaded")
		zzverif.Assert(f != nil, "ReadFlow returned neither a flow nor an error")
	} else {
		zzverif.Cover("rejected")
		zzverif.Assert(verifCurFaultAt >= 0, "the well-typed definition was rejected: "+err.Error())
	}
}

// VerifC16_RoundTrip: "reading a current definition and marshalling it back
// gives JSON that reads back to an equal definition".  The definition above,
// as it is or with any one member replaced by the zero value of its own kind
// (an empty text, 0, false, an empty array or object) or dropped: when
// ReadFlow accepts it, marshalling the flow, reading that text and
// marshalling again gives the same text, and the re-read flow has the same
// UUID, nodes, exits and destinations.
// cover: action-region, router-region, flow-region, as-documented, zero-member, dropped-member, loaded
func VerifC16_RoundTrip() {
	actionType, routerKind, region, npos := verifCurChoose()
	switch zzverif.Choice("variant", 3) {
	case 0:
		zzverif.Cover("as-documented")
	case 1:
		verifCurFaultAt, verifCurFaultKind = zzverif.Choice("fault-position", npos), 9
		zzverif.Cover("zero-member")
	default:
		verifCurFaultAt, verifCurFaultKind = zzverif.Choice("fault-position", npos), 0
		zzverif.Cover("dropped-member")
	}
	data := verifCurFlow(actionType, routerKind, region)
	f1, err := ReadFlow(data, nil)
	if err != nil {
		zzverif.Assert(verifCurFaultAt >= 0, "the documented definition was rejected: "+err.Error())
		return
	}
	zzverif.Cover("loaded")
	j1, err := jsonx.Marshal(f1)
	zzverif.Assert(err == nil, "a flow that was read cannot be marshalled")
	f2, err := ReadFlow(j1, nil)
	zzverif.Assert(err == nil, "a marshalled flow does not read back")
	j2, err := jsonx.Marshal(f2)
	zzverif.Assert(err == nil, "a re-read flow cannot be marshalled")
	zzverif.Note("first", string(j1))
	zzverif.Note("second", string(j2))
	zzverif.Assert(string(j1) == string(j2), "a definition that was read and marshalled reads back to a different definition")
	zzverif.Assert(verifCurSameShape(f1, f2), "a definition that was read and marshalled reads back with other nodes, exits or destinations")
}

func verifCurSameShape(a, b flows.Flow) bool {
	if a.UUID() != b.UUID() || a.Name() != b.Name() || a.Language() != b.Language() || a.Type() != b.Type() || len(a.Nodes()) != len(b.Nodes()) {
		return false
	}
	for i, n := range a.Nodes() {
		o := b.Nodes()[i]
		if n.UUID() != o.UUID() || len(n.Exits()) != len(o.Exits()) || len(n.Actions()) != len(o.Actions()) || (n.Router() == nil) != (o.Router() == nil) {
			return false
		}
		for k, e := range n.Exits() {
			if e.UUID() != o.Exits()[k].UUID() || e.DestinationUUID() != o.Exits()[k].DestinationUUID() {
				return false
			}
		}
	}
	return true
}

// VerifC16_MalformedText: definition *text* that is not a JSON document —
// a valid definition (at the current version, or the 13.0–13.5 definitions of
// VerifC16_Loads) cut off at any of ~100 positions, followed by junk, or two
// documents pasted together — is rejected by ReadFlow and by MigrateToLatest
// with an error: not read as if it were whole, and never with a panic.
// cover: truncated, trailing-junk, current-version, older-version
func VerifC16_MalformedText() {
	var data []byte
	if v := zzverif.Choice("source-version", 7); v == 6 {
		zzverif.Cover("current-version")
		verifCurFaultAt = -1
		data = verifCurFlow("send_msg", 0, 2)
	} else {
		zzverif.Cover("older-version")
		data = []byte(verifLoadsDefinition(v))
	}
	if zzverif.Choice("damage", 2) == 0 {
		zzverif.Cover("truncated")
		n := len(data)
		step := n / 90
		k := zzverif.Choice("cut", 100)
		cut := n - 1 - k // the last ten positions one by one …
		if k >= 10 {
			cut = (k - 9) * step // … then every step-th
		}
		if cut < 1 || cut >= n {
			return
		}
		data = data[:cut]
	} else {
		zzverif.Cover("trailing-junk")
		junk := []string{"]", "}", "]}", "x", ",", "\"", " 1", "null", "{}", string(data)}
		data = append(append([]byte{}, data...), junk[zzverif.Choice("junk", len(junk))]...)
	}
	f, err := ReadFlow(data, nil)
	zzverif.Assert(err != nil && f == nil, "text that is not a JSON document was read as a flow definition")
}
