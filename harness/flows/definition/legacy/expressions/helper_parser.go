package expressions

// Model of the generated Excellent1 (legacy) lexer + parser for ASCII input,
// built like the Excellent3 model (harness/excellent/helper_parser.go): a
// longest-match tokenizer for the lexer rules and precedence climbing with
// the generated parser's precedence numbers, producing the generated context
// objects for the real legacyVisitor.  gosym redirects migrateExpression to
// verifMigrateExpression; natively the real parser runs and the native
// self-test compares both.

import (
	"errors"

	"github.com/antlr4-go/antlr/v4"
	gen "github.com/nyaruka/goflow/antlr/gen/excellent1"
	"github.com/nyaruka/goflow/envs"
)

type verifTok struct {
	typ  int
	text string
}

const verifEOF = -1
const verifTokError = -2

var errVerifNonASCII = errors.New("verif: non-ASCII legacy expression is outside the parser model")
var errVerifSyntax = errors.New("syntax error")

func verifIsLetter(c byte) bool { return (c >= 'a' && c <= 'z') || (c >= 'A' && c <= 'Z') }
func verifIsDigit(c byte) bool  { return c >= '0' && c <= '9' }

func verifFold(s, lower string) bool {
	if len(s) != len(lower) {
		return false
	}
	for i := 0; i < len(s); i++ {
		c := s[i]
		if c >= 'A' && c <= 'Z' {
			c += 'a' - 'A'
		}
		if c != lower[i] {
			return false
		}
	}
	return true
}

// verifLexLegacySTRING: STRING: '"' (~["] | '""')* '"' (longest match)
func verifLexLegacySTRING(s string) int {
	if len(s) == 0 || s[0] != '"' {
		return -1
	}
	best := -1
	i := 1
	for i < len(s) {
		if s[i] == '"' {
			best = i + 1 // the literal may end here ...
			if i+1 < len(s) && s[i+1] == '"' {
				i += 2 // ... or go on after a doubled quote
				continue
			}
			return best
		}
		i++
	}
	return best
}

func verifToken(typ int, text string) antlr.Token {
	t := antlr.NewCommonToken(&antlr.TokenSourceCharStreamPair{}, typ, antlr.TokenDefaultChannel, -1, -1)
	t.SetText(text)
	return t
}

func verifTokenize(s string) ([]verifTok, error) {
	var toks []verifTok
	i := 0
	for i < len(s) {
		c := s[i]
		if c >= 0x80 {
			return nil, errVerifNonASCII
		}
		switch {
		case c == ' ' || c == '\t' || c == '\n' || c == '\r':
			i++
		case c == '"':
			n := verifLexLegacySTRING(s[i:])
			if n < 0 {
				toks = append(toks, verifTok{verifTokError, s[i : i+1]})
				i++
			} else {
				toks = append(toks, verifTok{gen.Excellent1ParserSTRING, s[i : i+n]})
				i += n
			}
		case verifIsDigit(c):
			j := i
			for j < len(s) && verifIsDigit(s[j]) {
				j++
			}
			if j+1 < len(s) && s[j] == '.' && verifIsDigit(s[j+1]) {
				j++
				for j < len(s) && verifIsDigit(s[j]) {
					j++
				}
			}
			toks = append(toks, verifTok{gen.Excellent1ParserDECIMAL, s[i:j]})
			i = j
		case verifIsLetter(c):
			j := i
			for j < len(s) && (verifIsLetter(s[j]) || verifIsDigit(s[j]) || s[j] == '_' || s[j] == '.') {
				j++
			}
			if j < len(s) && s[j] >= 0x80 {
				return nil, errVerifNonASCII
			}
			word := s[i:j]
			typ := gen.Excellent1ParserNAME
			if verifFold(word, "true") {
				typ = gen.Excellent1ParserTRUE
			} else if verifFold(word, "false") {
				typ = gen.Excellent1ParserFALSE
			}
			toks = append(toks, verifTok{typ, word})
			i = j
		default:
			two := ""
			if i+1 < len(s) {
				two = s[i : i+2]
			}
			typ, n := verifTokError, 1
			switch {
			case two == "<>":
				typ, n = gen.Excellent1ParserNEQ, 2
			case two == "<=":
				typ, n = gen.Excellent1ParserLTE, 2
			case two == ">=":
				typ, n = gen.Excellent1ParserGTE, 2
			case c == ',':
				typ = gen.Excellent1ParserCOMMA
			case c == '(':
				typ = gen.Excellent1ParserLPAREN
			case c == ')':
				typ = gen.Excellent1ParserRPAREN
			case c == '+':
				typ = gen.Excellent1ParserPLUS
			case c == '-':
				typ = gen.Excellent1ParserMINUS
			case c == '*':
				typ = gen.Excellent1ParserTIMES
			case c == '/':
				typ = gen.Excellent1ParserDIVIDE
			case c == '^':
				typ = gen.Excellent1ParserEXPONENT
			case c == '=':
				typ = gen.Excellent1ParserEQ
			case c == '<':
				typ = gen.Excellent1ParserLT
			case c == '>':
				typ = gen.Excellent1ParserGT
			case c == '&':
				typ = gen.Excellent1ParserAMPERSAND
			}
			toks = append(toks, verifTok{typ, s[i : i+n]})
			i += n
		}
	}
	return toks, nil
}

type verifParser struct {
	toks []verifTok
	pos  int
	err  error
}

func (p *verifParser) peek() int {
	if p.pos < len(p.toks) {
		return p.toks[p.pos].typ
	}
	return verifEOF
}
func (p *verifParser) peekAt(k int) int {
	if p.pos+k < len(p.toks) {
		return p.toks[p.pos+k].typ
	}
	return verifEOF
}
func (p *verifParser) next() antlr.Token {
	t := p.toks[p.pos]
	p.pos++
	return verifToken(t.typ, t.text)
}
func (p *verifParser) expect(typ int) antlr.Token {
	if p.peek() != typ {
		p.err = errVerifSyntax
		return verifToken(typ, "")
	}
	return p.next()
}

func verifBase() *gen.ExpressionContext { return gen.NewExpressionContext(nil, nil, 0) }

func verifBinPrec(typ int) (int, int) {
	switch typ {
	case gen.Excellent1ParserEXPONENT:
		return 12, 13
	case gen.Excellent1ParserTIMES, gen.Excellent1ParserDIVIDE:
		return 11, 12
	case gen.Excellent1ParserPLUS, gen.Excellent1ParserMINUS:
		return 10, 11
	case gen.Excellent1ParserLTE, gen.Excellent1ParserLT, gen.Excellent1ParserGTE, gen.Excellent1ParserGT:
		return 9, 10
	case gen.Excellent1ParserEQ, gen.Excellent1ParserNEQ:
		return 8, 9
	case gen.Excellent1ParserAMPERSAND:
		return 7, 8
	}
	return -1, -1
}

func (p *verifParser) expression(prec int) antlr.ParserRuleContext {
	if p.err != nil {
		return verifBase()
	}
	var left antlr.ParserRuleContext
	t := p.peek()
	isFnName := t == gen.Excellent1ParserNAME || t == gen.Excellent1ParserTRUE || t == gen.Excellent1ParserFALSE
	switch {
	case isFnName && p.peekAt(1) == gen.Excellent1ParserLPAREN:
		c := gen.NewFunctionCallContext(nil, verifBase())
		fn := gen.NewFnnameContext(nil, nil, 0)
		fn.AddTokenNode(p.next())
		c.AddChild(fn)
		c.AddTokenNode(p.next())
		if p.peek() != gen.Excellent1ParserRPAREN {
			params := gen.NewFunctionParametersContext(nil, gen.NewParametersContext(nil, nil, 0))
			params.AddChild(p.expression(0))
			for p.peek() == gen.Excellent1ParserCOMMA {
				params.AddTokenNode(p.next())
				params.AddChild(p.expression(0))
			}
			c.AddChild(params)
		}
		c.AddTokenNode(p.expect(gen.Excellent1ParserRPAREN))
		left = c
	case t == gen.Excellent1ParserMINUS:
		c := gen.NewNegationContext(nil, verifBase())
		c.AddTokenNode(p.next())
		c.AddChild(p.expression(13))
		left = c
	case t == gen.Excellent1ParserSTRING:
		c := gen.NewStringLiteralContext(nil, verifBase())
		c.AddTokenNode(p.next())
		left = c
	case t == gen.Excellent1ParserDECIMAL:
		c := gen.NewDecimalLiteralContext(nil, verifBase())
		c.AddTokenNode(p.next())
		left = c
	case t == gen.Excellent1ParserTRUE:
		c := gen.NewTrueContext(nil, verifBase())
		c.AddTokenNode(p.next())
		left = c
	case t == gen.Excellent1ParserFALSE:
		c := gen.NewFalseContext(nil, verifBase())
		c.AddTokenNode(p.next())
		left = c
	case t == gen.Excellent1ParserNAME:
		c := gen.NewContextReferenceContext(nil, verifBase())
		c.AddTokenNode(p.next())
		left = c
	case t == gen.Excellent1ParserLPAREN:
		c := gen.NewParenthesesContext(nil, verifBase())
		c.AddTokenNode(p.next())
		c.AddChild(p.expression(0))
		c.AddTokenNode(p.expect(gen.Excellent1ParserRPAREN))
		left = c
	default:
		p.err = errVerifSyntax
		return verifBase()
	}
	for p.err == nil {
		level, rhs := verifBinPrec(p.peek())
		if level < 0 || level < prec {
			break
		}
		tok := p.next()
		right := p.expression(rhs)
		switch level {
		case 12:
			c := gen.NewExponentExpressionContext(nil, verifBase())
			c.AddChild(left)
			c.AddTokenNode(tok)
			c.AddChild(right)
			left = c
		case 11:
			c := gen.NewMultiplicationOrDivisionExpressionContext(nil, verifBase())
			c.AddChild(left)
			c.AddTokenNode(tok)
			c.SetOp(tok)
			c.AddChild(right)
			left = c
		case 10:
			c := gen.NewAdditionOrSubtractionExpressionContext(nil, verifBase())
			c.AddChild(left)
			c.AddTokenNode(tok)
			c.SetOp(tok)
			c.AddChild(right)
			left = c
		case 9:
			c := gen.NewComparisonExpressionContext(nil, verifBase())
			c.AddChild(left)
			c.AddTokenNode(tok)
			c.SetOp(tok)
			c.AddChild(right)
			left = c
		case 8:
			c := gen.NewEqualityExpressionContext(nil, verifBase())
			c.AddChild(left)
			c.AddTokenNode(tok)
			c.SetOp(tok)
			c.AddChild(right)
			left = c
		default:
			c := gen.NewConcatenationContext(nil, verifBase())
			c.AddChild(left)
			c.AddTokenNode(tok)
			c.AddChild(right)
			left = c
		}
	}
	return left
}

// verifModelParseTree is what replaces the generated parser under gosym.
func verifModelParseTree(text string) (*gen.ParseContext, error) {
	toks, err := verifTokenize(text)
	if err != nil {
		return nil, err
	}
	for _, t := range toks {
		if t.typ == verifTokError {
			return nil, errVerifSyntax
		}
	}
	p := &verifParser{toks: toks}
	tree := p.expression(0)
	if p.err == nil && p.peek() != verifEOF {
		p.err = errVerifSyntax
	}
	if p.err != nil {
		return nil, p.err
	}
	root := gen.NewParseContext(nil, nil, 0)
	root.AddChild(tree)
	return root, nil
}

// verifMigrateExpression is migrateExpression with the parser model in place
// of the generated parser; everything after parsing is the real code.
func verifMigrateExpression(env envs.Environment, expression string, options *MigrateOptions) (string, error) {
	toks, err := verifTokenize(expression)
	if err != nil {
		return "", err
	}
	for _, t := range toks {
		if t.typ == verifTokError {
			return "", errVerifSyntax
		}
	}
	p := &verifParser{toks: toks}
	tree := p.expression(0)
	if p.err == nil && p.peek() != verifEOF {
		p.err = errVerifSyntax
	}
	if p.err != nil {
		return "", p.err
	}
	visitor := newLegacyVisitor(env, options)
	value := visitor.Visit(tree)
	if err, isErr := value.(error); isErr {
		return "", err
	}
	return value.(string), nil
}
