package expressions

import (
	"strings"

	"github.com/nyaruka/goflow/envs"
	"github.com/nyaruka/goflow/excellent"
	"github.com/nyaruka/goflow/excellent/types"
	"github.com/nyaruka/goflow/zzverif"
	"github.com/shopspring/decimal"
)

// ---- legacy syntax trees and their reference evaluation --------------------

// One node kind of the legacy grammar: a function, a binary operator, the
// negation or parentheses, with the operand types it is generated with
// (N number, T text, B boolean) and its result type.
type verifKind struct {
	name string
	form byte // 'f' function call, 'b' binary operator, 'n' negation, 'p' parentheses
	args string
	res  byte
}

var verifKinds = []verifKind{
	{"^", 'b', "NN", 'N'}, {"*", 'b', "NN", 'N'}, {"/", 'b', "NN", 'N'}, {"+", 'b', "NN", 'N'}, {"-", 'b', "NN", 'N'},
	{"-", 'n', "N", 'N'}, {"", 'p', "N", 'N'},
	{"SUM", 'f', "NNN", 'N'}, {"POWER", 'f', "NN", 'N'}, {"EXP", 'f', "N", 'N'}, {"ABS", 'f', "N", 'N'}, {"MAX", 'f', "NN", 'N'}, {"MIN", 'f', "NN", 'N'},
	{"MOD", 'f', "NN", 'N'}, {"AVERAGE", 'f', "NN", 'N'}, {"LEN", 'f', "T", 'N'}, {"WORD_COUNT", 'f', "T", 'N'}, {"IF", 'f', "BNN", 'N'},

	{"&", 'b', "TT", 'T'}, {"&", 'b', "NT", 'T'}, {"&", 'b', "TN", 'T'}, {"", 'p', "T", 'T'},
	{"CONCATENATE", 'f', "TT", 'T'}, {"CONCATENATE", 'f', "NT", 'T'}, {"LEFT", 'f', "TN", 'T'}, {"RIGHT", 'f', "TN", 'T'}, {"UPPER", 'f', "T", 'T'}, {"LOWER", 'f', "T", 'T'},
	{"WORD", 'f', "TN", 'T'}, {"WORD_SLICE", 'f', "TNN", 'T'}, {"FIELD", 'f', "TNT", 'T'}, {"REPT", 'f', "TN", 'T'}, {"FIRST_WORD", 'f', "T", 'T'},
	{"SUBSTITUTE", 'f', "TTT", 'T'}, {"IF", 'f', "BTT", 'T'},

	{"=", 'b', "NN", 'B'}, {"<>", 'b', "NN", 'B'}, {"<", 'b', "NN", 'B'}, {"<=", 'b', "NN", 'B'}, {">", 'b', "NN", 'B'}, {">=", 'b', "NN", 'B'},
	{"", 'p', "B", 'B'}, {"AND", 'f', "BB", 'B'}, {"OR", 'f', "BB", 'B'},
}

type verifNode struct {
	kind *verifKind // nil: a literal
	args []*verifNode
	typ  byte
	text string // legacy source text of a literal
	num  decimal.Decimal
	str  string
	b    bool
}

type verifVal struct {
	typ byte
	num decimal.Decimal
	str string
	b   bool
}

func verifLevel(k *verifKind) int {
	if k == nil || k.form == 'f' || k.form == 'p' {
		return 100
	}
	if k.form == 'n' {
		return 13
	}
	switch k.name {
	case "^":
		return 12
	case "*", "/":
		return 11
	case "+", "-":
		return 10
	case "=", "<>":
		return 8
	case "&":
		return 7
	}
	return 9
}

// verifSource renders the tree in the legacy syntax so that the legacy
// grammar parses it back to exactly this tree: an operator operand is only
// parenthesised where the grammar's precedence (left associative) would
// otherwise regroup it.
func verifSource(n *verifNode) string {
	if n.kind == nil {
		return n.text
	}
	k := n.kind
	operand := func(c *verifNode, right bool) string {
		s := verifSource(c)
		lc, lk := verifLevel(c.kind), verifLevel(k)
		if lc < lk || (lc == lk && right) {
			return "(" + s + ")"
		}
		return s
	}
	switch k.form {
	case 'f':
		parts := make([]string, len(n.args))
		for i, a := range n.args {
			parts[i] = verifSource(a)
		}
		return k.name + "(" + strings.Join(parts, ", ") + ")"
	case 'p':
		return "(" + verifSource(n.args[0]) + ")"
	case 'n':
		return "-" + operand(n.args[0], false)
	}
	return operand(n.args[0], false) + " " + k.name + " " + operand(n.args[1], true)
}

func verifWords(s string) []string {
	var words []string
	start := -1
	for i := 0; i <= len(s); i++ {
		isWord := i < len(s) && (verifIsLetter(s[i]) || verifIsDigit(s[i]) || s[i] == '_')
		if isWord && start < 0 {
			start = i
		} else if !isWord && start >= 0 {
			words = append(words, s[start:i])
			start = -1
		}
	}
	return words
}

func verifSmallInt(d decimal.Decimal, lo, hi int) (int, bool) {
	if !d.Equal(d.Truncate(0)) {
		return 0, false
	}
	if d.LessThan(decimal.New(int64(lo), 0)) || d.GreaterThan(decimal.New(int64(hi), 0)) {
		return 0, false
	}
	return int(d.IntPart()), true
}

// set when the reference evaluation takes RIGHT(text, 0) of a non-empty text
var verifRightZero bool

func verifNumText(d decimal.Decimal) string { return types.NewXNumber(d).Render() }

// verifDenotes is the reference evaluation of a legacy syntax tree: the
// Excel-style meaning of the legacy operators and functions, on the operand
// ranges where that meaning is uncontroversial (anything else is "undefined"
// and the tree is left out of the claim).
func verifDenotes(n *verifNode) (verifVal, bool) {
	if n.kind == nil {
		return verifVal{typ: n.typ, num: n.num, str: n.str, b: n.b}, true
	}
	vals := make([]verifVal, len(n.args))
	for i, a := range n.args {
		v, ok := verifDenotes(a)
		if !ok {
			return verifVal{}, false
		}
		vals[i] = v
	}
	N := func(d decimal.Decimal) (verifVal, bool) { return verifVal{typ: 'N', num: d}, true }
	T := func(s string) (verifVal, bool) { return verifVal{typ: 'T', str: s}, true }
	B := func(b bool) (verifVal, bool) { return verifVal{typ: 'B', b: b}, true }
	undefined := verifVal{}
	text := func(v verifVal) string {
		if v.typ == 'N' {
			return verifNumText(v.num)
		}
		return v.str
	}
	k := n.kind
	switch k.form {
	case 'p':
		return vals[0], true
	case 'n':
		return N(vals[0].num.Neg())
	case 'b':
		a, b := vals[0], vals[1]
		switch k.name {
		case "^":
			e, ok := verifSmallInt(b.num, 0, 12)
			if !ok || a.num.Abs().GreaterThan(decimal.New(1000, 0)) {
				return undefined, false
			}
			return N(a.num.Pow(decimal.New(int64(e), 0)))
		case "*":
			return N(a.num.Mul(b.num))
		case "/":
			if b.num.IsZero() {
				return undefined, false
			}
			return N(a.num.Div(b.num))
		case "+":
			return N(a.num.Add(b.num))
		case "-":
			return N(a.num.Sub(b.num))
		case "&":
			return T(text(a) + text(b))
		case "=":
			return B(a.num.Equal(b.num))
		case "<>":
			return B(!a.num.Equal(b.num))
		case "<":
			return B(a.num.LessThan(b.num))
		case "<=":
			return B(a.num.LessThanOrEqual(b.num))
		case ">":
			return B(a.num.GreaterThan(b.num))
		default:
			return B(a.num.GreaterThanOrEqual(b.num))
		}
	}
	switch k.name {
	case "SUM":
		return N(vals[0].num.Add(vals[1].num).Add(vals[2].num))
	case "POWER":
		e, ok := verifSmallInt(vals[1].num, 0, 12)
		if !ok || vals[0].num.Abs().GreaterThan(decimal.New(1000, 0)) {
			return undefined, false
		}
		return N(vals[0].num.Pow(decimal.New(int64(e), 0)))
	case "EXP":
		e, ok := verifSmallInt(vals[0].num, 0, 12)
		if !ok {
			return undefined, false
		}
		return N(decimal.RequireFromString("2.718281828459045").Pow(decimal.New(int64(e), 0)))
	case "ABS":
		return N(vals[0].num.Abs())
	case "MAX":
		return N(decimal.Max(vals[0].num, vals[1].num))
	case "MIN":
		return N(decimal.Min(vals[0].num, vals[1].num))
	case "MOD":
		if vals[0].num.IsNegative() || !vals[1].num.IsPositive() {
			return undefined, false // sign conventions differ between spreadsheets
		}
		return N(vals[0].num.Mod(vals[1].num))
	case "AVERAGE":
		return N(vals[0].num.Add(vals[1].num).Div(decimal.New(2, 0)))
	case "LEN":
		return N(decimal.New(int64(len(vals[0].str)), 0))
	case "WORD_COUNT":
		return N(decimal.New(int64(len(verifWords(vals[0].str))), 0))
	case "IF":
		if vals[0].b {
			return vals[1], true
		}
		return vals[2], true
	case "CONCATENATE":
		return T(text(vals[0]) + text(vals[1]))
	case "LEFT":
		c, ok := verifSmallInt(vals[1].num, 0, 1000)
		if !ok {
			return undefined, false
		}
		return T(vals[0].str[:min(c, len(vals[0].str))])
	case "RIGHT":
		c, ok := verifSmallInt(vals[1].num, 0, 1000)
		if !ok {
			return undefined, false
		}
		if c == 0 && vals[0].str != "" {
			verifRightZero = true
		}
		return T(vals[0].str[len(vals[0].str)-min(c, len(vals[0].str)):])
	case "UPPER":
		return T(strings.ToUpper(vals[0].str))
	case "LOWER":
		return T(strings.ToLower(vals[0].str))
	case "WORD":
		words := verifWords(vals[0].str)
		c, ok := verifSmallInt(vals[1].num, 1, len(words))
		if !ok {
			return undefined, false
		}
		return T(words[c-1])
	case "FIRST_WORD":
		words := verifWords(vals[0].str)
		if len(words) == 0 {
			return undefined, false
		}
		return T(words[0])
	case "WORD_SLICE":
		words := verifWords(vals[0].str)
		from, ok1 := verifSmallInt(vals[1].num, 1, len(words))
		to, ok2 := verifSmallInt(vals[2].num, 2, len(words)+1)
		if !ok1 || !ok2 || to <= from {
			return undefined, false
		}
		return T(strings.Join(words[from-1:to-1], " "))
	case "FIELD":
		d := vals[2].str
		if d == "" || strings.Contains(d, " ") {
			return undefined, false
		}
		fields := strings.Split(vals[0].str, d)
		c, ok := verifSmallInt(vals[1].num, 1, len(fields))
		if !ok {
			return undefined, false
		}
		return T(fields[c-1])
	case "REPT":
		c, ok := verifSmallInt(vals[1].num, 0, 4)
		if !ok {
			return undefined, false
		}
		out := ""
		for i := 0; i < c; i++ {
			out += vals[0].str
		}
		return T(out)
	case "SUBSTITUTE":
		if vals[1].str == "" {
			return undefined, false
		}
		return T(strings.ReplaceAll(vals[0].str, vals[1].str, vals[2].str))
	case "AND":
		return B(vals[0].b && vals[1].b)
	case "OR":
		return B(vals[0].b || vals[1].b)
	}
	panic("verif: no reference meaning for " + k.name)
}

// ---- generation ---------------------------------------------------------------

var verifInnermostQuick = map[string]bool{"ABS": true, "SUM": true, "LEN": true, "UPPER": true, "LEFT": true, "CONCATENATE": true, "AND": true}

type verifGen struct {
	callsInnermost bool
	pairedSiblings bool
	nums, texts    int
	symbolic       bool // the focus leaf holds a symbolic digit / letter
}

var verifNumLeaves = []int{3, 2, 5, 4, 1, 6, 7, 9, 8}
var verifTextLeaves = []string{"one two,three four", "ab,cd ef", "x,y z", "hello big,wide world", "q r,s", "m,n o"}

func (g *verifGen) leaf(t byte, focus bool) *verifNode {
	switch t {
	case 'N':
		if focus && g.symbolic {
			d := zzverif.Byte("digit")
			zzverif.Assume(d >= '0' && d <= '9')
			return &verifNode{typ: 'N', text: string([]byte{d}), num: decimal.New(int64(d-'0'), 0)}
		}
		v := verifNumLeaves[g.nums%len(verifNumLeaves)]
		g.nums++
		d := decimal.New(int64(v), 0)
		return &verifNode{typ: 'N', text: d.String(), num: d}
	case 'T':
		s := verifTextLeaves[g.texts%len(verifTextLeaves)]
		g.texts++
		if focus && g.symbolic {
			c := zzverif.Byte("letter")
			zzverif.Assume((c >= 'a' && c <= 'z') || c == ' ' || c == ',')
			s = s[:2] + string([]byte{c}) + s[2:]
		}
		return &verifNode{typ: 'T', text: "\"" + s + "\"", str: s}
	}
	if focus {
		return &verifNode{typ: 'B', text: "FALSE", b: false}
	}
	return &verifNode{typ: 'B', text: "TRUE", b: true}
}

func (g *verifGen) call(name string, res byte, args ...*verifNode) *verifNode {
	for i := range verifKinds {
		k := &verifKinds[i]
		if k.name == name && k.form == 'f' && k.res == res && len(k.args) == len(args) {
			return &verifNode{kind: k, args: args, typ: res}
		}
	}
	panic("verif: no such kind " + name)
}

// sibling operands are a literal or a completed call with parameters
func (g *verifGen) sibling(t byte, calls bool) *verifNode {
	if !calls || zzverif.Choice("sibling", 2) == 0 {
		return g.leaf(t, false)
	}
	return g.siblingCall(t)
}

func (g *verifGen) siblingCall(t byte) *verifNode {
	switch t {
	case 'N':
		return g.call("MIN", 'N', g.leaf('N', false), g.leaf('N', false))
	case 'T':
		return g.call("LEFT", 'T', g.leaf('T', false), g.leaf('N', false))
	}
	return g.call("AND", 'B', g.leaf('B', false), g.leaf('B', false))
}

// tree is an arbitrary tree of the given depth along one focus path: every
// kind of node at every level of the path, the focus at every operand
// position, the other operands literals or completed calls.
func (g *verifGen) tree(t byte, depth int, siblingCalls int) *verifNode {
	if depth == 0 {
		return g.leaf(t, true)
	}
	var menu []*verifKind
	for i := range verifKinds {
		// (quick tier: the innermost node of a three level tree is the negation or one of a few representative function calls; every kind there is left to the thorough tier)
		if verifKinds[i].res == t && (!g.callsInnermost || depth > 1 || verifKinds[i].form == 'n' || (verifKinds[i].form == 'f' && verifInnermostQuick[verifKinds[i].name])) {
			menu = append(menu, &verifKinds[i])
		}
	}
	k := menu[zzverif.Choice("kind", len(menu))]
	pos := 0
	if len(k.args) > 1 {
		pos = zzverif.Choice("focus-operand", len(k.args))
	}
	n := &verifNode{kind: k, typ: t, args: make([]*verifNode, len(k.args))}
	// below the root the other operands are all literals or all completed calls (one choice)
	if g.pairedSiblings && siblingCalls <= 0 && depth > 1 && len(k.args) > 1 && zzverif.Choice("inner-siblings-are-calls", 2) == 1 {
		for i := range k.args {
			if i != pos {
				n.args[i] = g.siblingCall(k.args[i])
			}
		}
	}
	for i := range k.args {
		if n.args[i] != nil {
			continue
		}
		if i == pos {
			n.args[i] = g.tree(k.args[i], depth-1, siblingCalls-1)
		} else {
			n.args[i] = g.sibling(k.args[i], siblingCalls > 0)
		}
	}
	return n
}

// verifCheckMigration migrates @(source of tree) and compares the value of
// the migrated template with what the legacy tree denotes.
func verifCheckMigration(root *verifNode) {
	zzverif.Unwind(2000)
	verifRightZero = false
	want, defined := verifDenotes(root)
	if !defined {
		zzverif.Cover("undefined-in-reference")
		return
	}
	// RIGHT(text, 0) is "" (testdata/legacy_tests.json) but migrates to text_slice(text, -0), the whole text
	zzverif.Known("C17-right-zero-count", verifRightZero)
	legacy := "@(" + verifSource(root) + ")"
	zzverif.Note("legacy", legacy)
	migrated, err := MigrateTemplate(legacy, nil)
	zzverif.Assert(err == nil, "a well-formed legacy expression could not be migrated")
	zzverif.Note("migrated", migrated)
	zzverif.Assert(strings.HasPrefix(migrated, "@(") && strings.HasSuffix(migrated, ")"), "the migrated expression is not wrapped as @(...)")
	inner := migrated[2 : len(migrated)-1]
	_, perr := excellent.Parse(inner, nil)
	zzverif.Assert(perr == nil, "the migrated expression does not parse")

	env := envs.NewBuilder().Build()
	got, _ := excellent.NewEvaluator().Expression(env, types.NewXObject(map[string]types.XValue{}), inner)
	switch want.typ {
	case 'N':
		zzverif.Cover("number")
		num, isNum := got.(*types.XNumber)
		zzverif.Assert(isNum && num.Native().Equal(want.num), "the migrated expression does not evaluate to the number the legacy expression denotes")
	case 'T':
		zzverif.Cover("text")
		txt, isText := got.(*types.XText)
		zzverif.Assert(isText && txt.Native() == want.str, "the migrated expression does not evaluate to the text the legacy expression denotes")
	default:
		zzverif.Cover("boolean")
		b, isBool := got.(*types.XBoolean)
		zzverif.Assert(isBool && b.Native() == want.b, "the migrated expression does not evaluate to the boolean the legacy expression denotes")
	}
}

var verifResultTypes = []byte{'N', 'T', 'B'}

// VerifC17_Grouping: every legacy operator, the negation, parentheses and 31
// migratable function shapes nested inside one another two deep, the nested
// node at every operand position, the other operands literals: the migrated
// template parses and evaluates to what the legacy syntax tree denotes
// (reference evaluation with Excel semantics), with one operand an arbitrary
// digit 0-9 / an arbitrary letter, space or comma inside a text.
// cover: number, text, boolean, undefined-in-reference
func VerifC17_Grouping() {
	g := &verifGen{symbolic: true}
	t := verifResultTypes[zzverif.Choice("result-type", 3)]
	depth := 2
	if zzverif.Thorough() {
		depth = 3 // (three levels with the symbolic operand innermost)
	}
	verifCheckMigration(g.tree(t, depth, 0))
}

// VerifC17_Nesting: three levels, with completed calls as sibling operands of
// the root (an earlier call in the same expression) and, below the root, the
// other operands all literals or all completed calls; concrete operands; in
// the quick tier the innermost node is the negation or one of seven
// representative calls.
// cover: number, text, boolean
func VerifC17_Nesting() {
	g := &verifGen{callsInnermost: !zzverif.Thorough(), pairedSiblings: true}
	t := verifResultTypes[zzverif.Choice("result-type", 3)]
	if zzverif.Thorough() {
		g.pairedSiblings = false
		verifCheckMigration(g.tree(t, 3, 2)) // (every sibling at both levels a literal or a call, independently)
		return
	}
	verifCheckMigration(g.tree(t, 3, 1))
}

// VerifC17_Independent: migrations do not influence one another: two
// templates migrated one after the other in the same process — string
// literals of two arbitrary letters each that differ at most in letter case,
// inside the same expression shape — each evaluate to what their own legacy
// template denotes.
// cover: same-letters-other-case, different-letters
func VerifC17_Independent() {
	letters := func(name string) string {
		s := zzverif.String(name, 2)
		zzverif.Assume(len(s) == 2)
		for i := 0; i < 2; i++ {
			zzverif.Assume((s[i] >= 'a' && s[i] <= 'z') || (s[i] >= 'A' && s[i] <= 'Z'))
		}
		return s
	}
	s1, s2 := letters("first"), letters("second")
	if strings.EqualFold(s1, s2) && s1 != s2 {
		zzverif.Cover("same-letters-other-case")
	} else if !strings.EqualFold(s1, s2) {
		zzverif.Cover("different-letters")
	}
	env := envs.NewBuilder().Build()
	eval := func(tpl string) string {
		out, _, err := excellent.NewEvaluator().Template(env, types.NewXObject(map[string]types.XValue{}), tpl, nil)
		zzverif.Assert(err == nil, "a migrated template does not evaluate")
		return out
	}
	m1, err := MigrateTemplate("@(CONCATENATE(\""+s1+"\", \" x\"))", nil)
	zzverif.Assert(err == nil, "the first template could not be migrated")
	m2, err := MigrateTemplate("@(CONCATENATE(\""+s2+"\", \" x\"))", nil)
	zzverif.Assert(err == nil, "the second template could not be migrated")
	zzverif.Assert(eval(m1) == s1+" x", "the first migrated template does not evaluate to what the legacy template denotes")
	zzverif.Assert(eval(m2) == s2+" x", "a template migrated after another one does not evaluate to what its legacy template denotes")
}
