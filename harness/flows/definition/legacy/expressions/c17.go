package expressions

import (
	"strings"

	"github.com/nyaruka/goflow/excellent"
	"github.com/nyaruka/goflow/zzverif"
)

// verifLegacyBody returns an arbitrary body of a legacy string literal: any
// bytes (ASCII in the quick tier, no NUL) in which quotes only occur doubled,
// as the legacy STRING rule '"' (~["] | '""')* '"' requires; and the string
// the legacy literal denotes (quotes undoubled).
func verifLegacyBody(n int) (body string, denotes string) {
	units := zzverif.Choice("units", n+1)
	var b, d []byte
	for i := 0; i < units; i++ {
		c := zzverif.Byte("body")
		zzverif.Assume(c != 0 && c < 0x80)
		if c == '"' {
			b = append(b, '"', '"')
			d = append(d, '"')
		} else {
			b = append(b, c)
			d = append(d, c)
		}
	}
	return string(b), string(d)
}

// VerifC17_Literal: for every legacy string literal (doubled quotes the only
// escape, backslashes allowed) the migrated literal is one TEXT token and
// denotes, under the new rules (the real visitor's VisitTextLiteral), the
// same characters as the legacy literal.
// cover: plain, doubled-quote, backslash
func VerifC17_Literal() {
	n := 3
	if zzverif.Thorough() {
		n = 4
	}
	body, want := verifLegacyBody(n)
	lit := "\"" + body + "\""
	migrated := MigrateStringLiteral(lit)
	if strings.Contains(body, "\"") {
		zzverif.Cover("doubled-quote")
	} else if strings.Contains(body, "\\") {
		zzverif.Cover("backslash")
	} else {
		zzverif.Cover("plain")
	}
	zzverif.Known("C17-literal-backslash-escape", strings.Contains(body, "\\"))
	zzverif.Assert(excellent.VerifLexTEXT(migrated) == len(migrated), "migrated literal is not exactly one TEXT token")
	got := excellent.VerifTextLiteralValue(migrated)
	zzverif.Assert(got == want, "migrated string literal does not denote the same characters as the legacy literal")
}

// VerifC17_BodyText: text outside expressions is unchanged by the migration:
// for every template (≤ 4 / 5 bytes) that the scanner splits into body tokens
// only — no '@', '@@', '@' before a non-name character, '@' before a name that
// is not a legacy top level — the migrated template equals the input.
// cover: no-at, double-at, at-non-name, at-unknown-name
func VerifC17_BodyText() {
	n := 4
	if zzverif.Thorough() {
		n = 5
	}
	tmpl := zzverif.String("template", n)
	for i := 0; i < len(tmpl); i++ {
		zzverif.Assume(tmpl[i] != 0 && tmpl[i] < 0x80)
	}
	sc := excellent.NewXScanner(strings.NewReader(tmpl), ContextTopLevels)
	sc.SetUnescapeBody(false)
	onlyBody := true
	for typ, _ := sc.Scan(); typ != excellent.EOF; typ, _ = sc.Scan() {
		if typ != excellent.BODY {
			onlyBody = false
		}
	}
	if !onlyBody {
		return
	}
	switch {
	case !strings.Contains(tmpl, "@"):
		zzverif.Cover("no-at")
	case strings.Contains(tmpl, "@@"):
		zzverif.Cover("double-at")
	default:
		k := strings.IndexByte(tmpl, '@')
		if k+1 < len(tmpl) && (tmpl[k+1] >= 'a' && tmpl[k+1] <= 'z') {
			zzverif.Cover("at-unknown-name")
		} else {
			zzverif.Cover("at-non-name")
		}
	}
	out, err := migrateLegacyTemplateAsString(tmpl, defaultOptions)
	zzverif.Assert(err == nil, "migrating an expression-free template failed")
	zzverif.Assert(out == tmpl, "text outside expressions was changed by the migration")
}
