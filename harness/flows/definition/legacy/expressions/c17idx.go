package expressions

import (
	"strconv"
	"strings"

	"github.com/nyaruka/goflow/envs"
	"github.com/nyaruka/goflow/excellent"
	"github.com/nyaruka/goflow/excellent/types"
	"github.com/nyaruka/goflow/zzverif"
)

// VerifC17_WordIndex: "the renamed or re-shaped functions keep their …
// argument order": legacy WORD counts words from 1, and from the end with a
// negative index (WORD(text, -1) is the last word — pinned by the legacy
// engine's own outputs in testdata/legacy_tests.json); the new word() counts
// from 0, and from the end with a negative index.  For every literal index
// -4..5 over a text of four words, alone or nested inside UPPER / as the first
// argument of LEFT, the migrated template evaluates to the word the legacy
// template denotes (or to an error where the legacy index is out of range).
// cover: positive-index, negative-index, last-word, out-of-range, nested
func VerifC17_WordIndex() {
	words := []string{"abc", "def", "ghi", "jkl"}
	idx := zzverif.Int("index", -4, 5)
	zzverif.Assume(idx != 0) // (an error in the legacy engine)
	n := int(idx)
	want, inRange := "", false
	switch {
	case n > 0 && n <= len(words):
		want, inRange = words[n-1], true
		zzverif.Cover("positive-index")
	case n < 0 && -n <= len(words):
		want, inRange = words[len(words)+n], true
		zzverif.Cover("negative-index")
		if n == -1 {
			zzverif.Cover("last-word")
		}
	default:
		zzverif.Cover("out-of-range")
	}
	call := `WORD("abc def ghi jkl", ` + strconv.Itoa(n) + `)`
	switch zzverif.Choice("nesting", 3) {
	case 1:
		call, want = `LOWER(`+call+`)`, want
		zzverif.Cover("nested")
	case 2:
		call = `LEFT(` + call + `, 3)`
	}
	migrated, err := MigrateTemplate(`@(`+call+`)`, nil)
	zzverif.Assert(err == nil, "a legacy template with a WORD call could not be migrated")
	env := envs.NewBuilder().Build()
	out, _, everr := excellent.NewEvaluator().Template(env, types.NewXObject(map[string]types.XValue{}), migrated, nil)
	zzverif.Note(call, " migrates to ", migrated, " = ", out)
	if inRange {
		zzverif.Assert(everr == nil && out == want, "the migrated WORD call does not evaluate to the word the legacy call denotes")
	}
}

// VerifC17_Fixed: "re-shaped functions keep their … argument order": legacy
// FIXED(number, places, no_commas) formats with thousands separators unless
// its third argument is TRUE (the legacy engine's outputs in
// testdata/legacy_tests.json: FIXED(1234.5678, 3, TRUE) is 1234.568); the new
// format_number(number, places, humanize) uses separators unless its third
// argument is false.  For places 0..3 (an unknown digit) and the third
// argument absent, TRUE or FALSE, the migrated template evaluates to the text
// the legacy template denotes.
// cover: flag-absent, no-commas, with-commas
func VerifC17_Fixed() {
	places := int(zzverif.Int("places", 0, 3))
	want := []string{"1,235", "1,234.6", "1,234.57", "1,234.568"}[places]
	call := `FIXED(1234.5678, ` + strconv.Itoa(places)
	switch zzverif.Choice("no-commas-argument", 3) {
	case 0:
		zzverif.Cover("flag-absent")
	case 1:
		call += ", TRUE"
		want = want[:1] + want[2:] // without the separator
		zzverif.Cover("no-commas")
	default:
		call += ", FALSE"
		zzverif.Cover("with-commas")
	}
	call += ")"
	zzverif.Known("C17-fixed-no-commas-inverted", !strings.HasSuffix(call, strconv.Itoa(places)+")"))
	migrated, err := MigrateTemplate(`@(`+call+`)`, nil)
	zzverif.Assert(err == nil, "a legacy template with a FIXED call could not be migrated")
	out, _, everr := excellent.NewEvaluator().Template(envs.NewBuilder().Build(), types.NewXObject(map[string]types.XValue{}), migrated, nil)
	zzverif.Note(call, " migrates to ", migrated, " = ", out)
	zzverif.Assert(everr == nil && out == want, "the migrated FIXED call does not evaluate to the text the legacy call denotes")
}

// VerifC17_TextAfterExpression: "text outside expressions is unchanged" and
// the expression keeps its meaning when text follows it directly: the legacy
// template "@(flow.age)" followed by two arbitrary printable ASCII characters
// (letters, digits, periods, underscores, spaces, punctuation — no '@', which
// would start another expression).  The migrated template evaluates, with the
// result age = 42, to "42" followed by exactly those characters: the migrated
// reference may not swallow them.
// cover: name-characters-follow, period-follows, other-text-follows
func VerifC17_TextAfterExpression() {
	tail := zzverif.String("tail", 2)
	zzverif.Assume(len(tail) == 2)
	for k := 0; k < len(tail); k++ {
		zzverif.Assume(tail[k] >= ' ' && tail[k] < 0x7f && tail[k] != '@' && tail[k] != '(' && tail[k] != '\\')
	}
	c := tail[0]
	switch {
	case c == '_' || (c >= 'a' && c <= 'z') || (c >= 'A' && c <= 'Z') || (c >= '0' && c <= '9'):
		zzverif.Cover("name-characters-follow")
	case c == '.':
		zzverif.Cover("period-follows")
	default:
		zzverif.Cover("other-text-follows")
	}
	migrated, err := MigrateTemplate("@(flow.age)"+tail, nil)
	zzverif.Assert(err == nil, "a legacy template could not be migrated")
	ctx := types.NewXObject(map[string]types.XValue{"results": types.NewXObject(map[string]types.XValue{"age": types.NewXNumberFromInt(42)})})
	out, _, _ := excellent.NewEvaluator().Template(envs.NewBuilder().Build(), ctx, migrated, nil)
	zzverif.Note("@(flow.age)", tail, " migrates to ", migrated, " = ", out)
	zzverif.Assert(out == "42"+tail, "text that follows an expression was swallowed by the migrated reference or changed")
}
