package expressions

import (
	"strconv"

	"github.com/nyaruka/goflow/envs"
	"github.com/nyaruka/goflow/excellent"
	"github.com/nyaruka/goflow/excellent/types"
	"github.com/nyaruka/goflow/zzverif"
)

// VerifC17_WordIndex: "the renamed or re-shaped functions keep their …
// argument order": legacy WORD counts words from 1, and from the end with a
// negative index (WORD(text, -1) is the last word — pinned by the legacy
// engine's own outputs in testdata/legacy_tests.json); the new word() counts
// from 0, and from the end with a negative index.  For every literal index
// -4..5 over a text of four words, alone or nested inside UPPER / as the first
// argument of LEFT, the migrated template evaluates to the word the legacy
// template denotes (or to an error where the legacy index is out of range).
// cover: positive-index, negative-index, last-word, out-of-range, nested
func VerifC17_WordIndex() {
	words := []string{"abc", "def", "ghi", "jkl"}
	idx := zzverif.Int("index", -4, 5)
	zzverif.Assume(idx != 0) // (an error in the legacy engine)
	n := int(idx)
	want, inRange := "", false
	switch {
	case n > 0 && n <= len(words):
		want, inRange = words[n-1], true
		zzverif.Cover("positive-index")
	case n < 0 && -n <= len(words):
		want, inRange = words[len(words)+n], true
		zzverif.Cover("negative-index")
		if n == -1 {
			zzverif.Cover("last-word")
		}
	default:
		zzverif.Cover("out-of-range")
	}
	call := `WORD("abc def ghi jkl", ` + strconv.Itoa(n) + `)`
	switch zzverif.Choice("nesting", 3) {
	case 1:
		call, want = `LOWER(`+call+`)`, want
		zzverif.Cover("nested")
	case 2:
		call = `LEFT(` + call + `, 3)`
	}
	migrated, err := MigrateTemplate(`@(`+call+`)`, nil)
	zzverif.Assert(err == nil, "a legacy template with a WORD call could not be migrated")
	env := envs.NewBuilder().Build()
	out, _, everr := excellent.NewEvaluator().Template(env, types.NewXObject(map[string]types.XValue{}), migrated, nil)
	zzverif.Note(call, " migrates to ", migrated, " = ", out)
	if inRange {
		zzverif.Assert(everr == nil && out == want, "the migrated WORD call does not evaluate to the word the legacy call denotes")
	}
}
