package expressions

import "fmt"

// VerifSelftest_LegacyParser compares the Excellent1 parser model with the
// generated parser natively: every token sequence of ≤ 4 tokens over a
// vocabulary covering every lexer rule, plus hand-picked nestings — same
// accept/reject and the same migrated text (which reflects the tree).
func VerifSelftest_LegacyParser() string {
	vocab := []string{"contact.name", "1", "2.5", `"s""t"`, "TRUE", "(", ")", ",", "+", "-", "*", "/", "^", "=", "<>", "<=", "&", "SUM", "LEFT", "x", `"`, `"a""`, "$"}
	n, accepted := 0, 0
	check := func(e string) string {
		n++
		real, rerr := migrateExpression(nil, e, defaultOptions)
		model, merr := verifMigrateExpression(nil, e, defaultOptions)
		if (rerr == nil) != (merr == nil) {
			return fmt.Sprintf("legacy parser model and generated parser disagree on accepting %q: real err=%v model err=%v", e, rerr, merr)
		}
		if rerr == nil {
			accepted++
			if real != model {
				return fmt.Sprintf("legacy parser model and generated parser migrate %q differently: real %q model %q", e, real, model)
			}
		}
		return ""
	}
	var rec func(prefix string, depth int) string
	rec = func(prefix string, depth int) string {
		if prefix != "" {
			if e := check(prefix); e != "" {
				return e
			}
		}
		if depth == 0 {
			return ""
		}
		for _, t := range vocab {
			next := t
			if prefix != "" {
				next = prefix + " " + t
			}
			if e := rec(next, depth-1); e != "" {
				return e
			}
		}
		return ""
	}
	if e := rec("", 4); e != "" {
		return e
	}
	for _, e := range []string{`UPPER("q") & LEFT("abcdef", LEN("xy"))`, `SUM(1, 2 * 3, POWER(2, 3)) - -4 ^ 2`, `IF(AND(contact.age > 18, contact.age <= 65), "ok", "no")`,
		`WORD(flow.text, 2, TRUE)`, `date.now + 5`, `(1 + 2) * (3 - 4) / 5`, `-SUM(1)`, `a = b <> c`, `"a""b" & CONCATENATE("x", 1)`, `FIELD(step.value, 1, ",")`, `TRUE()`, `1 +`, `SUM(,)`, `a b`} {
		if err := check(e); err != "" {
			return err
		}
	}
	fmt.Printf("VERIF-SELFTEST LegacyParser: %d expressions agree (%d accepted)\n", n, accepted)
	return ""
}
