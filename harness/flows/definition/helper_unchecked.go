package definition

import (
	"github.com/nyaruka/gocommon/i18n"
	"github.com/nyaruka/goflow/assets"
	"github.com/nyaruka/goflow/flows"
)

// VerifNewFlowUnchecked builds a flow exactly as NewFlow does but without
// running validate(): harnesses whose exits choose their destination lazily
// (so that unexplored exits cost nothing) are valid by construction — node,
// action and exit UUIDs are unique and every destination is a node of the
// flow — and calling validate() would force every lazy choice.  Native
// replays also build the flow through NewFlow and require it to succeed.
func VerifNewFlowUnchecked(uuid assets.FlowUUID, name string, language i18n.Language, flowType flows.FlowType, localization flows.Localization, nodes []flows.Node) flows.Flow {
	f := &flow{
		uuid:               uuid,
		name:               name,
		specVersion:        CurrentSpecVersion,
		language:           language,
		flowType:           flowType,
		revision:           1,
		expireAfterMinutes: 10,
		localization:       localization,
		nodes:              nodes,
		nodeMap:            make(map[flows.NodeUUID]flows.Node, len(nodes)),
	}
	for _, node := range f.nodes {
		f.nodeMap[node.UUID()] = node
	}
	return f
}

// VerifWaitingExits exposes flow.extractExitsFromWaits (what Inspect reports
// as waiting exits) without the reflection-based parts of Inspect.
func VerifWaitingExits(f flows.Flow) []flows.ExitUUID {
	return f.(*flow).extractExitsFromWaits()
}

// VerifExtractResults exposes flow.extractResults restricted to routers (the
// action part goes through the reflection walk of inspect.Results).
func VerifRouterResults(f flows.Flow) []*flows.ResultInfo {
	var out []*flows.ResultInfo
	for _, n := range f.Nodes() {
		if n.Router() != nil {
			n.Router().EnumerateResults(func(i *flows.ResultInfo) { out = append(out, i) })
		}
	}
	return out
}
