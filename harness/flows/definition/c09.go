package definition

import (
	"encoding/json"
	"errors"
	"strings"

	"github.com/nyaruka/goflow/assets"
	"github.com/nyaruka/goflow/zzverif"
)

type verifFlowAsset struct {
	uuid assets.FlowUUID
	name string
}

func (f *verifFlowAsset) UUID() assets.FlowUUID { return f.uuid }
func (f *verifFlowAsset) Name() string          { return f.name }
func (f *verifFlowAsset) Definition() json.RawMessage {
	return json.RawMessage(`{"uuid":"` + string(f.uuid) + `","name":"` + f.name + `","spec_version":"13.6.0","language":"eng","type":"messaging","nodes":[]}`)
}

// verifSource is a stub asset store for flows that may fail.
type verifSource struct {
	assets.Source
	failing bool
}

var verifFlowA = &verifFlowAsset{"00000000-0000-4000-8000-00000000000a", "Alpha"}
var verifFlowB = &verifFlowAsset{"00000000-0000-4000-8000-00000000000b", "Beta"}

func (s *verifSource) FlowByUUID(uuid assets.FlowUUID) (assets.Flow, error) {
	if s.failing {
		return nil, errors.New("store unavailable")
	}
	for _, f := range []*verifFlowAsset{verifFlowA, verifFlowB} {
		if f.uuid == uuid {
			return f, nil
		}
	}
	return nil, errors.New("no such flow")
}

func (s *verifSource) FlowByName(name string) (assets.Flow, error) {
	if s.failing {
		return nil, errors.New("store unavailable")
	}
	for _, f := range []*verifFlowAsset{verifFlowA, verifFlowB} {
		if strings.EqualFold(f.name, name) { // as goflow's static source
			return f, nil
		}
	}
	return nil, errors.New("no such flow")
}

// VerifC09_FlowCache: the lazily filled flow cache shared by all sessions is
// only read or written with its mutex held — on every path of every sequence
// of three Get / FindByName operations from a cold cache (hits, misses,
// unknown flows, a failing store, early returns): no interleaving of
// goroutines can race on it.  Natively the same operations run from 8
// goroutines under the race detector.
// cover: miss-then-hit, find-by-name, store-failure, unknown-flow
func VerifC09_FlowCache() {
	src := &verifSource{failing: zzverif.Choice("store-failing", 2) == 1}
	fa := NewFlowAssets(src, nil).(*flowAssets)
	zzverif.Guard("flow cache", fa.cache)
	var ops [3]int
	for k := range ops {
		ops[k] = zzverif.Choice("operation", 5)
	}
	zzverif.Parallel(8, func(w int) {
		seen := false
		for _, op := range ops {
			switch op {
			case 0:
				f, err := fa.Get(verifFlowA.uuid)
				if err == nil && f != nil {
					if seen {
						zzverif.Cover("miss-then-hit")
					}
					seen = true
				} else {
					zzverif.Cover("store-failure")
				}
			case 1:
				fa.Get(verifFlowB.uuid)
			case 2:
				if _, err := fa.Get("00000000-0000-4000-8000-00000000000c"); err != nil && !src.failing {
					zzverif.Cover("unknown-flow")
				}
			case 3:
				if f, err := fa.FindByName("alpha"); err == nil && f != nil {
					zzverif.Cover("find-by-name")
				}
				fa.FindByName("Alpha")
			default:
				fa.FindByName("Beta")
			}
		}
	})
}
