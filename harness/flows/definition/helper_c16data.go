package definition

// Generated once from the documentation comments of flows/actions/*.go (the
// JSON example each action's doc comment carries), with a few members added.

var verifActionDocs = map[string]string{
	"add_contact_groups": "{\"uuid\": \"8eebd020-1af5-431c-b943-aa670fc74da9\", \"type\": \"add_contact_groups\", \"groups\": [{\"uuid\": \"1e1ce1e1-9288-4504-869e-022d1003c72a\", \"name\": \"Customers\"}]}",
	"add_contact_urn": "{\"uuid\": \"8eebd020-1af5-431c-b943-aa670fc74da9\", \"type\": \"add_contact_urn\", \"scheme\": \"tel\", \"path\": \"@results.phone_number.value\"}",
	"add_input_labels": "{\"uuid\": \"8eebd020-1af5-431c-b943-aa670fc74da9\", \"type\": \"add_input_labels\", \"labels\": [{\"uuid\": \"3f65d88a-95dc-4140-9451-943e94e06fea\", \"name\": \"Spam\"}, {\"name_match\": \"@results.label\"}]}",
	"call_classifier": "{\"uuid\": \"8eebd020-1af5-431c-b943-aa670fc74da9\", \"type\": \"call_classifier\", \"classifier\": {\"uuid\": \"1c06c884-39dd-4ce4-ad9f-9a01cbe6c000\", \"name\": \"Booking\"}, \"input\": \"@input.text\", \"result_name\": \"Intent\"}",
	"call_resthook": "{\"uuid\": \"8eebd020-1af5-431c-b943-aa670fc74da9\", \"type\": \"call_resthook\", \"resthook\": \"new-registration\"}",
	"call_webhook": "{\"uuid\": \"8eebd020-1af5-431c-b943-aa670fc74da9\", \"type\": \"call_webhook\", \"method\": \"GET\", \"url\": \"http://localhost:49998/?cmd=success\", \"headers\": {\"Authorization\": \"Token AAFFZZHH\"}, \"result_name\": \"webhook\", \"body\": \"{\\\"a\\\": @(json(contact.name))}\"}",
	"enter_flow": "{\"uuid\": \"8eebd020-1af5-431c-b943-aa670fc74da9\", \"type\": \"enter_flow\", \"flow\": {\"uuid\": \"b7cf0d83-f1c9-411c-96fd-c511a4cfa86d\", \"name\": \"Collect Language\"}, \"terminal\": false}",
	"open_ticket": "{\"uuid\": \"8eebd020-1af5-431c-b943-aa670fc74da9\", \"type\": \"open_ticket\", \"topic\": {\"uuid\": \"472a7a73-96cb-4736-b567-056d987cc5b4\", \"name\": \"Weather\"}, \"body\": \"@input\", \"assignee\": {\"email\": \"bob@nyaruka.com\", \"name\": \"Bob McTickets\"}, \"result_name\": \"Help Ticket\"}",
	"play_audio": "{\"uuid\": \"8eebd020-1af5-431c-b943-aa670fc74da9\", \"type\": \"play_audio\", \"audio_url\": \"http://uploads.temba.io/2353262.m4a\"}",
	"remove_contact_groups": "{\"uuid\": \"8eebd020-1af5-431c-b943-aa670fc74da9\", \"type\": \"remove_contact_groups\", \"groups\": [{\"uuid\": \"b7cf0d83-f1c9-411c-96fd-c511a4cfa86d\", \"name\": \"Registered Users\"}]}",
	"request_optin": "{\"uuid\": \"8eebd020-1af5-431c-b943-aa670fc74da9\", \"type\": \"request_optin\", \"optin\": {\"uuid\": \"248be71d-78e9-4d71-a6c4-9981d369e5cb\", \"name\": \"Joke Of The Day\"}}",
	"say_msg": "{\"uuid\": \"8eebd020-1af5-431c-b943-aa670fc74da9\", \"type\": \"say_msg\", \"audio_url\": \"http://uploads.temba.io/2353262.m4a\", \"text\": \"Hi @contact.name, are you ready to complete today's survey?\"}",
	"send_broadcast": "{\"uuid\": \"8eebd020-1af5-431c-b943-aa670fc74da9\", \"type\": \"send_broadcast\", \"urns\": [\"tel:+12065551212\"], \"text\": \"Hi @contact.name, are you ready to complete today's survey?\", \"groups\": [{\"uuid\": \"1e1ce1e1-9288-4504-869e-022d1003c72a\", \"name\": \"Customers\"}, {\"name_match\": \"@contact.fields.district\"}], \"contacts\": [{\"uuid\": \"5d76d86b-3bb9-4d5a-b822-c9d86f5d8e4f\", \"name\": \"Bob\"}], \"contact_query\": \"name = @contact.name\"}",
	"send_email": "{\"uuid\": \"8eebd020-1af5-431c-b943-aa670fc74da9\", \"type\": \"send_email\", \"addresses\": [\"@urns.mailto\"], \"subject\": \"Here is your activation token\", \"body\": \"Your activation token is @contact.fields.activation_token\"}",
	"send_msg": "{\"uuid\": \"8eebd020-1af5-431c-b943-aa670fc74da9\", \"type\": \"send_msg\", \"text\": \"Hi @contact.name, are you ready to complete today's survey?\", \"attachments\": [\"image:http://x/a.jpg\"], \"all_urns\": false, \"template\": {\"uuid\": \"3ce100b7-a734-4b4e-891b-350b1279ade2\", \"name\": \"revive_issue\"}, \"template_variables\": [\"@contact.name\"], \"topic\": \"event\", \"quick_replies\": [\"Yes\", \"No\"]}",
	"set_contact_channel": "{\"uuid\": \"8eebd020-1af5-431c-b943-aa670fc74da9\", \"type\": \"set_contact_channel\", \"channel\": {\"uuid\": \"4bb288a0-7fca-4da1-abe8-59a593aff648\", \"name\": \"Facebook Channel\"}}",
	"set_contact_field": "{\"uuid\": \"8eebd020-1af5-431c-b943-aa670fc74da9\", \"type\": \"set_contact_field\", \"field\": {\"key\": \"gender\", \"name\": \"Gender\"}, \"value\": \"Female\"}",
	"set_contact_language": "{\"uuid\": \"8eebd020-1af5-431c-b943-aa670fc74da9\", \"type\": \"set_contact_language\", \"language\": \"eng\"}",
	"set_contact_name": "{\"uuid\": \"8eebd020-1af5-431c-b943-aa670fc74da9\", \"type\": \"set_contact_name\", \"name\": \"Bob Smith\"}",
	"set_contact_status": "{\"uuid\": \"8eebd020-1af5-431c-b943-aa670fc74da9\", \"type\": \"set_contact_status\", \"status\": \"blocked\"}",
	"set_contact_timezone": "{\"uuid\": \"8eebd020-1af5-431c-b943-aa670fc74da9\", \"type\": \"set_contact_timezone\", \"timezone\": \"Africa/Kigali\"}",
	"set_run_result": "{\"uuid\": \"8eebd020-1af5-431c-b943-aa670fc74da9\", \"type\": \"set_run_result\", \"name\": \"Gender\", \"value\": \"m\", \"category\": \"Male\"}",
	"start_session": "{\"uuid\": \"8eebd020-1af5-431c-b943-aa670fc74da9\", \"type\": \"start_session\", \"flow\": {\"uuid\": \"b7cf0d83-f1c9-411c-96fd-c511a4cfa86d\", \"name\": \"Registration\"}, \"groups\": [{\"uuid\": \"1e1ce1e1-9288-4504-869e-022d1003c72a\", \"name\": \"Customers\"}], \"exclusions\": {\"in_a_flow\": true}, \"create_contact\": false}",
	"transfer_airtime": "{\"uuid\": \"8eebd020-1af5-431c-b943-aa670fc74da9\", \"type\": \"transfer_airtime\", \"amounts\": {\"RWF\": 500, \"USD\": 0.5}, \"result_name\": \"Reward Transfer\"}",
}

var verifActionTypes = []string{"add_contact_groups", "add_contact_urn", "add_input_labels", "call_classifier", "call_resthook", "call_webhook", "enter_flow", "open_ticket", "play_audio", "remove_contact_groups", "request_optin", "say_msg", "send_broadcast", "send_email", "send_msg", "set_contact_channel", "set_contact_field", "set_contact_language", "set_contact_name", "set_contact_status", "set_contact_timezone", "set_run_result", "start_session", "transfer_airtime"}
