package definition

import (
	"github.com/nyaruka/goflow/flows"
	"github.com/nyaruka/goflow/zzverif"
)

// VerifC16_Loads: definitions at every supported older version — a 13.0
// flow with a send_msg action (templating in the form of its version), a
// set_run_result action and a switch router with a wait, translated into one
// language, at source versions 13.0–13.5, and a legacy-format flow — are
// accepted by definition.ReadFlow (migration to the current version, then the
// real readers of nodes, actions, routers, waits and localization and
// flow.validate): the flow loads without error at the current version, keeps
// its UUID, its nodes in order and every exit's destination.
// cover: 13.x-source, legacy-source
func VerifC16_Loads() {
	if zzverif.Choice("legacy-source", 2) == 1 {
		zzverif.Cover("legacy-source")
		legacy := `{"rule_sets": [{"y": 106, "x": 100, "rules": [
		  {"test": {"test": {"base": "red"}, "type": "contains_any"}, "destination": "9e82371e-94f6-41cf-8a97-82aedc1ccadd", "uuid": "a66f3bfc-7a68-4925-a07b-a31cbc1b207a", "category": {"base": "Red"}},
		  {"test": {"test": "true", "type": "true"}, "category": {"base": "Other"}, "destination": null, "uuid": "ee85d3a5-75af-4809-94b9-661c2e731c2a"}],
		  "uuid": "80f2ae0b-492b-4bb1-9628-fb3dc191ab82", "label": "Color", "ruleset_type": "wait_message"}],
		"action_sets": [
		 {"y": 0, "x": 100, "destination": "80f2ae0b-492b-4bb1-9628-fb3dc191ab82", "uuid": "029c3266-39c1-4850-9d71-7e008dae2e65", "actions": [{"msg": {"base": "Hi @contact.first_name, pick @(SUM(1, 2) * 3)"}, "type": "reply", "uuid": "623c784f-5277-4dbc-9568-f7984dbc5c7b"}], "exit_uuid": "21eab42d-8cfd-4e1f-a4a0-cb7d069bc366"},
		 {"y": 228, "x": 118, "destination": null, "uuid": "9e82371e-94f6-41cf-8a97-82aedc1ccadd", "actions": [{"msg": {"base": "You picked @flow.color"}, "type": "reply", "uuid": "988b0715-a553-435a-bc05-76389570b70b"}], "exit_uuid": "f659aa9f-492e-4872-82ce-e752719c3559"}],
		"base_language": "base", "flow_type": "F", "entry": "029c3266-39c1-4850-9d71-7e008dae2e65",
		"metadata": {"uuid": "40730a2d-edaa-4ff0-9d2f-81ca2131ddfe", "saved_on": null, "name": "Pick a Color"}, "version": "11.11"}`
		f, err := ReadFlow([]byte(legacy), nil)
		zzverif.Assert(err == nil, "a migrated legacy definition does not load at the current version")
		zzverif.Assert(f.UUID() == "40730a2d-edaa-4ff0-9d2f-81ca2131ddfe" && len(f.Nodes()) == 3 && f.Nodes()[0].UUID() == "029c3266-39c1-4850-9d71-7e008dae2e65", "the loaded flow lost its UUID, a node or the entry position")
		zzverif.Assert(f.Nodes()[0].Exits()[0].DestinationUUID() == "80f2ae0b-492b-4bb1-9628-fb3dc191ab82", "the loaded flow lost a connection")
		return
	}
	zzverif.Cover("13.x-source")
	from := zzverif.Choice("source-version", 6)
	def := verifLoadsDefinition(from)
	f, err := ReadFlow([]byte(def), nil)
	zzverif.Assert(err == nil, "a migrated 13.x definition does not load at the current version")
	zzverif.Assert(f.UUID() == "8f6f4e8e-5d0a-4a9e-9c3a-3c1c6f1a2b3c" && len(f.Nodes()) == 2, "the loaded flow lost its UUID or a node")
	n0 := f.Nodes()[0]
	zzverif.Assert(n0.UUID() == "a58be63b-907d-4a1a-856b-0bb5579d7507" && len(n0.Exits()) == 2 &&
		n0.Exits()[0].UUID() == "d7a36118-0a38-4b35-a7e4-ae89042f0d3c" && n0.Exits()[0].DestinationUUID() == "baaf9085-1198-4b41-9a1c-cc51c6dbec99" && n0.Exits()[1].DestinationUUID() == "",
		"the loaded flow's first node lost an exit or a destination")
	zzverif.Assert(f.Nodes()[1].Exits()[0].DestinationUUID() == flows.NodeUUID("a58be63b-907d-4a1a-856b-0bb5579d7507"), "the loaded flow lost the connection back to its first node")
	zzverif.Assert(len(n0.Actions()) == 2 && n0.Router() != nil && n0.Router().Wait() != nil, "the loaded flow's first node lost an action, its router or its wait")
}

// verifLoadsDefinition: the 13.x definition of VerifC16_Loads at source version 13.<from>.
func verifLoadsDefinition(from int) string {
	versions := []string{"13.0.0", "13.1.0", "13.2.0", "13.3.0", "13.4.0", "13.5.0"}
	templating := ""
	switch {
	case from == 0:
		templating = `, "templating": {"template": {"uuid": "5722e1fd-fe32-4e74-ac78-3cf41a6adb7e", "name": "welcome"}, "variables": ["@contact.name"]}`
	case from < 4:
		templating = `, "templating": {"uuid": "1ae96956-4b34-433e-8d1a-f05fe6923d6d", "template": {"uuid": "5722e1fd-fe32-4e74-ac78-3cf41a6adb7e", "name": "welcome"}, "variables": ["@contact.name"]}`
	case from == 4:
		templating = `, "templating": {"template": {"uuid": "5722e1fd-fe32-4e74-ac78-3cf41a6adb7e", "name": "welcome"}, "components": [{"uuid": "2ae96956-4b34-433e-8d1a-f05fe6923d6d", "name": "body", "params": ["@contact.name"]}]}`
	default:
		templating = `, "template": {"uuid": "5722e1fd-fe32-4e74-ac78-3cf41a6adb7e", "name": "welcome"}, "template_variables": ["@contact.name"]`
	}
	def := `{"uuid": "8f6f4e8e-5d0a-4a9e-9c3a-3c1c6f1a2b3c", "name": "Flow", "spec_version": "` + versions[from] + `", "language": "eng", "type": "messaging", "revision": 1, "expire_after_minutes": 10,
	 "localization": {"spa": {"e7187099-7d38-4f60-955c-325957214c42": {"text": ["hola @webhook"]}}},
	 "nodes": [
	  {"uuid": "a58be63b-907d-4a1a-856b-0bb5579d7507", "actions": [
	    {"uuid": "e7187099-7d38-4f60-955c-325957214c42", "type": "send_msg", "text": "hi @webhook"` + templating + `},
	    {"uuid": "f01d693b-2af2-49fb-9e38-146eb00937e9", "type": "set_run_result", "name": "Res", "value": "v", "category": "C"}],
	   "router": {"type": "switch", "operand": "@input.text", "result_name": "Color", "wait": {"type": "msg"},
	     "cases": [{"uuid": "98503572-25bf-40ce-ad72-8836b6549a38", "type": "has_any_word", "arguments": ["red"], "category_uuid": "598ae7a5-2f81-48f1-afac-595262514aa1"}],
	     "categories": [{"uuid": "598ae7a5-2f81-48f1-afac-595262514aa1", "name": "Red", "exit_uuid": "d7a36118-0a38-4b35-a7e4-ae89042f0d3c"}, {"uuid": "78ae8f05-f92e-43b2-a886-406eaea1b8e0", "name": "Other", "exit_uuid": "744b1082-4d95-40d0-839a-89fc1bb99d30"}],
	     "default_category_uuid": "78ae8f05-f92e-43b2-a886-406eaea1b8e0"},
	   "exits": [{"uuid": "d7a36118-0a38-4b35-a7e4-ae89042f0d3c", "destination_uuid": "baaf9085-1198-4b41-9a1c-cc51c6dbec99"}, {"uuid": "744b1082-4d95-40d0-839a-89fc1bb99d30", "destination_uuid": null}]},
	  {"uuid": "baaf9085-1198-4b41-9a1c-cc51c6dbec99", "actions": [], "exits": [{"uuid": "37d8813f-1402-4ad2-9cc2-e9054a96525b", "destination_uuid": "a58be63b-907d-4a1a-856b-0bb5579d7507"}]}]}`
	return def
}
