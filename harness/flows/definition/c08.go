package definition

import (
	"errors"
	"strings"

	"github.com/nyaruka/goflow/assets"
	"github.com/nyaruka/goflow/zzverif"
)

// verifNameSource: a flow store with three flows of which two have names
// that differ only in case (the store resolves a name like goflow's static
// source: the first flow whose name matches, ignoring case).
type verifNameSource struct {
	assets.Source
}

var verifNamedFlows = []*verifFlowAsset{
	{"00000000-0000-4000-8000-0000000000a1", "Zig"},
	{"00000000-0000-4000-8000-0000000000a2", "zig"},
	{"00000000-0000-4000-8000-0000000000a3", "Other"},
}

func (s *verifNameSource) FlowByUUID(uuid assets.FlowUUID) (assets.Flow, error) {
	for _, f := range verifNamedFlows {
		if f.uuid == uuid {
			return f, nil
		}
	}
	return nil, errors.New("no such flow")
}

func (s *verifNameSource) FlowByName(name string) (assets.Flow, error) {
	for _, f := range verifNamedFlows {
		if strings.EqualFold(f.name, name) { // as goflow's static source: the first flow of the store whose name matches
			return f, nil
		}
	}
	return nil, errors.New("no such flow")
}

// VerifC08_FlowByName: which flow a name resolves to (flow = "zig" in a
// contact query or a query based group, through sessionAssets.ResolveFlow) is
// a function of the assets and the name — not of which flows earlier sessions
// happened to load into the shared flow cache, nor of the order in which the
// cache map is iterated.  Any two of the three flows are loaded first (or
// none), in either order; then the name "Zig", "zig" or "Other" is looked up,
// under an arbitrary map iteration order; the answer equals the answer of a
// fresh flow store.
// cover: cold-cache, warm-cache, both-case-variants-cached
func VerifC08_FlowByName() {
	names := []string{"Zig", "zig", "Other"}
	name := names[zzverif.Choice("name", len(names))]
	fresh, ferr := NewFlowAssets(&verifNameSource{}, nil).FindByName(name)
	zzverif.Assert(ferr == nil && fresh != nil, "a flow of the store was not found by its name")

	fa := NewFlowAssets(&verifNameSource{}, nil)
	loads := zzverif.Choice("loaded-before", 3)
	first := zzverif.Choice("first-loaded", 3)
	second := zzverif.Choice("second-loaded", 3)
	switch loads {
	case 0:
		zzverif.Cover("cold-cache")
	case 1:
		fa.Get(verifNamedFlows[first].uuid)
		zzverif.Cover("warm-cache")
	default:
		fa.Get(verifNamedFlows[first].uuid)
		fa.Get(verifNamedFlows[second].uuid)
		if first+second == 1 {
			zzverif.Cover("both-case-variants-cached")
		}
	}
	zzverif.SymbolicMapOrder(true)
	got, err := fa.FindByName(name)
	zzverif.SymbolicMapOrder(false)
	zzverif.Assert(err == nil && got != nil, "a flow of the store was not found by its name once other flows were cached")
	zzverif.Assert(got.UUID() == fresh.UUID(), "the flow a name resolves to depends on which flows were loaded before or on map iteration order")
}
