package flows

import (
	"time"

	"github.com/nyaruka/goflow/envs"
	"github.com/nyaruka/goflow/excellent/types"
	"github.com/nyaruka/goflow/zzverif"
)

// VerifC08_ResultsContext: the expression context and default rendering of a
// run's results (2-3 results, arbitrary values) are the same on every
// execution whatever the iteration order of the results map.
// cover: three-results
func VerifC08_ResultsContext() {
	env := envs.NewBuilder().Build()
	v := zzverif.String("value", 1)
	three := zzverif.Choice("three-results", 2) == 1
	build := func() Results {
		r := NewResults()
		now := time.Date(2024, 1, 1, 0, 0, 0, 0, time.UTC)
		r.Save(NewResult("Age", "7", "Child", "", "n1", "7", nil, now))
		r.Save(NewResult("Name", v, "All", "", "n2", v, nil, now))
		if three {
			zzverif.Cover("three-results")
			r.Save(NewResult("Zed", "z", "All", "", "n3", "z", nil, now))
		}
		return r
	}
	// first execution in insertion order, second under arbitrary map order
	c1 := types.NewXObject(build().Context(env))
	r1, f1 := c1.Render(), c1.Format(env)
	d1, _ := c1.Get("age")
	zzverif.SymbolicMapOrder(true)
	c2 := types.NewXObject(build().Context(env))
	zzverif.Assert(r1 == c2.Render(), "the rendering of run results differs between executions")
	zzverif.Assert(f1 == c2.Format(env), "the formatting of run results differs between executions")
	d2, _ := c2.Get("age")
	zzverif.Assert(types.Render(d1) == types.Render(d2), "a result lookup differs between executions")
}
