package flows

import (
	"github.com/nyaruka/goflow/assets"
	"time"

	"github.com/nyaruka/goflow/envs"
	"github.com/nyaruka/goflow/excellent/types"
	"github.com/nyaruka/goflow/zzverif"
)

// VerifC08_ResultsContext: the expression context and default rendering of a
// run's results (2-3 results, arbitrary values) are the same on every
// execution whatever the iteration order of the results map.
// cover: three-results
func VerifC08_ResultsContext() {
	env := envs.NewBuilder().Build()
	v := zzverif.String("value", 1)
	three := zzverif.Choice("three-results", 2) == 1
	build := func() Results {
		r := NewResults()
		now := time.Date(2024, 1, 1, 0, 0, 0, 0, time.UTC)
		r.Save(NewResult("Age", "7", "Child", "", "n1", "7", nil, now))
		r.Save(NewResult("Name", v, "All", "", "n2", v, nil, now))
		if three {
			zzverif.Cover("three-results")
			r.Save(NewResult("Zed", "z", "All", "", "n3", "z", nil, now))
		}
		return r
	}
	// first execution in insertion order, second under arbitrary map order
	c1 := types.NewXObject(build().Context(env))
	r1, f1 := c1.Render(), c1.Format(env)
	d1, _ := c1.Get("age")
	zzverif.SymbolicMapOrder(true)
	c2 := types.NewXObject(build().Context(env))
	zzverif.Assert(r1 == c2.Render(), "the rendering of run results differs between executions")
	zzverif.Assert(f1 == c2.Format(env), "the formatting of run results differs between executions")
	d2, _ := c2.Get("age")
	zzverif.Assert(types.Render(d1) == types.Render(d2), "a result lookup differs between executions")
}

type verifLocField struct {
	key string
	typ assets.FieldType
}

func (f *verifLocField) UUID() assets.FieldUUID { return assets.FieldUUID("uuid-" + f.key) }
func (f *verifLocField) Key() string            { return f.key }
func (f *verifLocField) Name() string           { return "Field " + f.key }
func (f *verifLocField) Type() assets.FieldType { return f.typ }

const verifLocations = `{"name":"Rwanda","children":[
	{"name":"Kigali City","children":[{"name":"Gasabo","children":[{"name":"Gisozi"}]},{"name":"Nyarugenge","children":[{"name":"Gitega"}]}]},
	{"name":"Eastern Province","children":[{"name":"Rwamagana","children":[{"name":"Kigabiro"}]},{"name":"Kayonza","children":[{"name":"Gitega"}]}]}]}`

// VerifC08_LocationParent: a contact with two state fields and two district
// fields holding different values (set in either order), then a district /
// ward field set from a bare name that exists under one parent only (or under
// both, or nowhere): the parsed value — which parent location was used — is
// the same on every execution whatever the iteration order of the contact's
// field values map.
// cover: district-found, district-not-found, ward-found
func VerifC08_LocationParent() {
	base := envs.NewBuilder().Build()
	h := &envs.LocationHierarchy{}
	zzverif.Assert(h.UnmarshalJSON([]byte(verifLocations)) == nil, "setup: locations did not load")
	env := NewAssetsEnvironment(base, NewLocationAssets([]assets.LocationHierarchy{h}))
	defs := []assets.Field{&verifLocField{"state_a", assets.FieldTypeState}, &verifLocField{"state_b", assets.FieldTypeState},
		&verifLocField{"district_a", assets.FieldTypeDistrict}, &verifLocField{"district_b", assets.FieldTypeDistrict}, &verifLocField{"ward", assets.FieldTypeWard},
		&verifLocField{"nick", assets.FieldTypeText}}
	if zzverif.Choice("field-order", 2) == 1 {
		defs[0], defs[1] = defs[1], defs[0]
		defs[2], defs[3] = defs[3], defs[2]
	}
	fields := NewFieldAssets(defs)
	swap := zzverif.Choice("values-swapped", 2) == 1
	reverse := zzverif.Choice("set-in-reverse", 2) == 1
	wardName := []string{"Gisozi", "Gitega", "Kigabiro", "Nowhere"}[zzverif.Choice("ward-name", 4)]
	districtName := []string{"Gasabo", "Rwamagana", "Kayonza", "Nowhere"}[zzverif.Choice("district-name", 4)]
	run := func() string {
		fv := FieldValues{}
		sa, sb := "Kigali City", "Eastern Province"
		da, db := "Rwanda > Kigali City > Nyarugenge", "Rwanda > Eastern Province > Kayonza"
		if swap {
			sa, sb = sb, sa
			da, db = db, da
		}
		set := func(key, raw string) {
			f := fields.Get(key)
			fv.Set(f, fv.Parse(env, fields, f, raw))
		}
		if reverse {
			set("nick", "x")
			set("state_b", sb)
			set("state_a", sa)
			set("district_b", db)
			set("district_a", da)
		} else {
			set("state_a", sa)
			set("state_b", sb)
			set("district_a", da)
			set("district_b", db)
			set("nick", "x")
		}
		d := fv.Parse(env, fields, fields.Get("district_a"), districtName)
		w := fv.Parse(env, fields, fields.Get("ward"), wardName)
		if d.District != "" {
			zzverif.Cover("district-found")
		} else {
			zzverif.Cover("district-not-found")
		}
		if w.Ward != "" {
			zzverif.Cover("ward-found")
		}
		return string(d.State) + "|" + string(d.District) + "|" + string(w.State) + "|" + string(w.District) + "|" + string(w.Ward)
	}
	first := run()
	zzverif.SymbolicMapOrder(true)
	// natively Go randomises every range itself: repeat the second execution
	// often enough to observe a differing order
	repeats := 1
	if !zzverif.Symbolic() {
		repeats = 500
	}
	for n := 0; n < repeats; n++ {
		zzverif.Assert(first == run(), "the location a bare district or ward name resolves to differs between executions")
	}
	zzverif.SymbolicMapOrder(false)
}
