package cases

import (
	"sort"

	"github.com/nyaruka/goflow/envs"
	"github.com/nyaruka/goflow/excellent/functions"
	"github.com/nyaruka/goflow/excellent/types"
	"github.com/nyaruka/goflow/zzverif"
)

// tests whose core is an opaque library on text (phone metadata, locations)
var verifSkipTests = map[string]bool{"has_phone": true, "has_state": true, "has_district": true, "has_ward": true}

func verifTestNames() []string {
	var names []string
	for n := range XTESTS {
		if !verifSkipTests[n] && n != "verif_test" && n != "verif_rec_test" {
			names = append(names, n)
		}
	}
	sort.Strings(names)
	return names
}

var verifKindsB = []int{0, 3, 4, 6, 10, 14, 16, 22}
var verifKindsC = []int{0, 3, 6, 16}

// VerifC04_Tests: every registered router test called with one, two and
// three arguments (operand of every kind; further arguments from a menu:
// nil, arbitrary text, "12", arbitrary integer, datetime, array, error, multi-byte text; at
// most one symbolic argument) never panics and returns what
// SwitchRouter.matchCase accepts: a result object or an error value —
// matchCase panics on anything else.
// cover: result-object, error-value, matched
func VerifC04_Tests() {
	zzverif.Unwind(1000)
	name := zzverif.ChoiceOf("test", verifTestNames())
	n := 1 + zzverif.Choice("arity", 3)
	var args []types.XValue
	nsym := 0
	for i := 0; i < n; i++ {
		var k int
		if i == 0 && (n < 3 || zzverif.Thorough()) {
			k = zzverif.Choice("arg-kind", functions.VerifNumArgKinds)
		} else if n == 3 && !zzverif.Thorough() {
			k = verifKindsC[zzverif.Choice("arg-kind", len(verifKindsC))]
		} else {
			k = verifKindsB[zzverif.Choice("arg-kind", len(verifKindsB))]
		}
		if functions.VerifIsSymbolicKind(k) {
			nsym++
		}
		zzverif.Assume(nsym <= 1)
		// unknown patterns are outside (see VerifC04_Functions2)
		zzverif.Assume(!(name == "has_pattern" && i == 1 && k == 3))
		args = append(args, functions.VerifArgValue(k))
	}
	env := envs.NewBuilder().Build()
	res := XTESTS[name].Call(env, args)
	switch typed := res.(type) {
	case *types.XError:
		zzverif.Cover("error-value")
	case *types.XObject:
		zzverif.Cover("result-object")
		if typed.Truthy() {
			zzverif.Cover("matched")
			match, _ := typed.Get("match")
			_, xerr := types.ToXText(env, match)
			_ = xerr
		}
	default:
		zzverif.Fail("a router test returned neither a result object nor an error value")
	}
}

// VerifC04_NumberFormat: "in any context": the number tests (has_number,
// has_number_eq/lt/lte/gt/gte/between) in an environment whose number format
// uses other symbols than the default — the digit grouping and the decimal
// symbol each one of: a period, a comma, an apostrophe, a space, a
// non-breaking space (the French and Russian grouping symbol), or one
// arbitrary printable ASCII character — on a text that contains a grouped
// number: no panic, a result object or an error value.
// cover: space-grouping, non-breaking-space, arbitrary-symbol, result-object
func VerifC04_NumberFormat() {
	zzverif.Unwind(2000)
	symbol := func(name string) string {
		k := zzverif.Choice(name, 6)
		switch k {
		case 3:
			zzverif.Cover("space-grouping")
		case 4:
			zzverif.Cover("non-breaking-space")
		case 5:
			zzverif.Cover("arbitrary-symbol")
			c := zzverif.Byte(name + "-character")
			zzverif.Assume(c > ' ' && c < 0x7f)
			return string([]byte{c})
		}
		return []string{".", ",", "'", " ", " ", ""}[k]
	}
	grouping := symbol("digit-grouping-symbol")
	decimalSymbol := "."
	if zzverif.Choice("vary-decimal-symbol", 2) == 1 {
		decimalSymbol, grouping = symbol("decimal-symbol"), ","
	}
	env := envs.NewBuilder().WithNumberFormat(&envs.NumberFormat{DecimalSymbol: decimalSymbol, DigitGroupingSymbol: grouping}).Build()
	names := []string{"has_number", "has_number_eq", "has_number_lt", "has_number_lte", "has_number_gt", "has_number_gte", "has_number_between"}
	name := names[zzverif.Choice("test", len(names))]
	args := []types.XValue{types.NewXText("I have 1" + grouping + "000" + decimalSymbol + "5 things")}
	switch name {
	case "has_number":
	case "has_number_between":
		args = append(args, types.NewXNumberFromInt(1), types.NewXNumberFromInt(2000))
	default:
		args = append(args, types.NewXNumberFromInt(1000))
	}
	res := XTESTS[name].Call(env, args)
	switch res.(type) {
	case *types.XError:
	case *types.XObject:
		zzverif.Cover("result-object")
	default:
		zzverif.Fail("a router test returned neither a result object nor an error value")
	}
}
