package engine

import (
	"github.com/nyaruka/goflow/flows"
	"github.com/nyaruka/goflow/flows/definition"
	"github.com/nyaruka/goflow/zzverif"
)

// VerifC08_LazyMigration: "Given the same assets, trigger, resumes, clock,
// UUID source and random source, the engine produces byte-identical events,
// segments and session JSON on every execution … never depend[ing] on …
// incidental process state."  The flows come from the real flow assets
// (definition.NewFlowAssets: read, migrated and cached on first use).  The
// same session is started twice over ONE set of session assets, each time
// with the UUID source and the clock reset to the same state: the first
// start loads (and, for an older spec version, migrates) the flow, the second
// finds it cached.  Both produce the same events, segments and session JSON.
// Source versions: the current one (nothing to migrate), 13.1 (a migration
// without new ids), 13.0 with a message template (13.2 gives the templating
// a new id).
// cover: current-version, migrated-without-ids, migrated-with-new-ids
func VerifC08_LazyMigration() {
	version, templating := definition.CurrentSpecVersion.String(), ""
	v := zzverif.Choice("source-version", 3)
	switch v {
	case 0:
		zzverif.Cover("current-version")
	case 1:
		version = "13.1.0"
		zzverif.Cover("migrated-without-ids")
	default:
		version = "13.0.0"
		templating = `,"templating":{"template":{"uuid":"5722e1fd-fe32-4e74-ac78-3cf41a6adb7e","name":"welcome"},"variables":["@contact.name"]}`
		zzverif.Cover("migrated-with-new-ids")
	}
	def := `{"uuid":"` + string(verifFlowUUID(0)) + `","name":"F0","spec_version":"` + version + `","language":"eng","type":"messaging","nodes":[{"uuid":"` + string(verifNodeUUID(0, 0)) +
		`","actions":[{"uuid":"` + verifID('b', 0, 0, 0) + `","type":"send_msg","text":"hi"` + templating + `}],"exits":[{"uuid":"` + string(verifExitUUID(0, 0, 0)) + `"}]}]}`
	sa := verifNewAssets()
	sa.realFlows = definition.NewFlowAssets(&verifFlowStore{flows: []*verifFlowDef{{verifFlowUUID(0), def}}}, nil)
	run := func() string {
		zzverif.ResetEnv()
		sess, sp, err := verifEngine(5, 10).NewSession(sa, verifManualTrigger(sa, verifContact(sa)))
		if err != nil {
			zzverif.Fail("setup: the session did not start: " + err.Error())
		}
		zzverif.Assert(sess.Status() == flows.SessionStatusCompleted, "setup: the session did not run to completion")
		return verifEventsJSON(sp) + verifMarshal(sess)
	}
	first := run()
	second := run()
	zzverif.Note("first", first)
	zzverif.Note("second", second)
	zzverif.Known("C08-lazy-migration-consumes-uuids", v == 2)
	zzverif.Assert(first == second, "the same session over the same assets gives different output once its flow is cached")
}
