package engine

import (
	"errors"
	"net/http"
	"time"

	"github.com/nyaruka/gocommon/httpx"
	"github.com/nyaruka/goflow/assets"
	"github.com/nyaruka/goflow/envs"
	"github.com/nyaruka/goflow/flows"
	"github.com/nyaruka/goflow/flows/actions"
	"github.com/nyaruka/goflow/flows/definition"
	"github.com/nyaruka/goflow/flows/routers"
	"github.com/nyaruka/goflow/flows/routers/waits"
	"github.com/nyaruka/goflow/flows/triggers"
	"github.com/nyaruka/goflow/zzverif"
)

// verifWebhookSvc answers every call with a 200 and the given body — no network
type verifWebhookSvc struct {
	body   string
	status int  // 0 = 200
	broken bool // the connection fails: a trace without a response, and an error
}

func (s *verifWebhookSvc) Call(request *http.Request) (*flows.WebhookCall, error) {
	t0 := time.Date(2020, 3, 4, 10, 0, 0, 0, time.UTC)
	if s.broken {
		return &flows.WebhookCall{Trace: &httpx.Trace{Request: request, RequestTrace: []byte(request.Method + " / HTTP/1.1\r\n\r\n"), StartTime: t0, EndTime: t0}}, errors.New("unable to connect to server")
	}
	status := s.status
	if status == 0 {
		status = 200
	}
	trace := &httpx.Trace{
		Request:       request,
		RequestTrace:  []byte(request.Method + " / HTTP/1.1\r\nHost: example.com\r\n\r\n"),
		Response:      &http.Response{StatusCode: status, Status: "200 OK", Header: http.Header{"Content-Type": []string{"application/json"}}},
		ResponseTrace: []byte("HTTP/1.1 200 OK\r\nContent-Type: application/json\r\n\r\n"),
		ResponseBody:  []byte(s.body),
		StartTime:     t0,
		EndTime:       t0.Add(time.Second),
	}
	return &flows.WebhookCall{Trace: trace, ResponseJSON: []byte(s.body)}, nil
}

// the observer: a session whose only sprint renders empty and small values of
// every container kind — trigger params that are not there, a contact without
// tickets or fields, literal empty containers
func verifObserverEvents(eng flows.Engine) string {
	sa := verifNewAssets()
	sa.add(verifFlowOf(0, verifPlainNodeWithActions(0, 0, -1,
		actions.NewSendMsg("m1", "params @trigger.params tickets @contact.tickets fields @fields urns @urns results @results", nil, nil, false),
		actions.NewSendMsg("m2", "@(json(object())) @(json(array())) @(json(object(\"a\", array()))) @(count(array())) @(default(trigger.params.x, \"none\"))", nil, nil, false))))
	zzverif.ResetEnv()
	env := envs.NewBuilder().Build()
	_, sp, err := eng.NewSession(sa, triggers.NewBuilder(env, assets.NewFlowReference(verifFlowUUID(0), "F0"), verifContact(sa)).Manual().Build())
	zzverif.Assert(err == nil, "the observer session failed to start")
	return verifEventsJSON(sp)
}

// VerifC08_ProcessState: the output of a session does not depend on what
// other sessions did earlier in the same process. An observer session is run,
// then a disturber — a session that calls a webhook (stub service, no
// network) answering one of several JSON bodies, saves the result, waits, is
// marshalled, read back and resumed, and then renders @webhook, @webhook.json
// and the result's extra (the path on which the last webhook call is
// recreated from the saved result) — and then the observer again, under the
// same clock and UUID streams: its events are byte-identical.
// cover: webhook-recreated, empty-object-body, empty-array-body, other-body
func VerifC08_ProcessState() {
	bodies := []string{`{}`, `[]`, `{"a":1}`, `""`, `0`, `null`}
	k := zzverif.Choice("webhook-body", len(bodies))
	switch k {
	case 0:
		zzverif.Cover("empty-object-body")
	case 1:
		zzverif.Cover("empty-array-body")
	default:
		zzverif.Cover("other-body")
	}
	svc := &verifWebhookSvc{body: bodies[k]}
	eng := NewBuilder().WithWebhookServiceFactory(func(flows.SessionAssets) (flows.WebhookService, error) { return svc, nil }).Build()

	first := verifObserverEvents(eng)

	// the disturber
	sa := verifNewAssets()
	cats := []flows.Category{routers.NewCategory("c0", "All", "e0")}
	router := routers.NewSwitch(waits.NewMsgWait(nil, nil), "", cats, "@input.text", nil, "c0")
	n0 := definition.NewNode("f0n0", []flows.Action{actions.NewCallWebhook("w1", "GET", "http://example.com/", nil, "", "Call")}, router, []flows.Exit{definition.NewExit("e0", "f0n1")})
	n1 := definition.NewNode("f0n1", []flows.Action{actions.NewSendMsg("m3", "webhook @webhook json @webhook.json extra @results.call.extra", nil, nil, false)}, nil, []flows.Exit{definition.NewExit("e1", "")})
	f, err := definition.NewFlow(verifFlowUUID(0), "F0", "eng", flows.FlowTypeMessaging, 1, 10, definition.NewLocalization(), []flows.Node{n0, n1}, nil, nil)
	zzverif.Assert(err == nil, "setup: flow did not validate")
	sa.add(f)
	sess, _, err := eng.NewSession(sa, verifManualTrigger(sa, verifContact(sa)))
	zzverif.Assert(err == nil && sess.Status() == flows.SessionStatusWaiting, "setup: the disturber is not waiting")
	if zzverif.Choice("restart-at-wait", 2) == 1 {
		sess, err = eng.ReadSession(sa, []byte(verifMarshal(sess)), assets.PanicOnMissing)
		zzverif.Assert(err == nil, "the disturber could not be read back")
		zzverif.Cover("webhook-recreated")
	}
	_, err = sess.Resume(verifResumeText("hi"))
	zzverif.Assert(err == nil && sess.Status() == flows.SessionStatusCompleted, "the disturber did not complete")

	second := verifObserverEvents(eng)
	zzverif.Assert(first == second, "a session's events differ after another session ran in the same process")
}
