package engine

import (
	"fmt"
	"regexp"
	"sort"
	"strconv"
	"strings"
	"time"

	"github.com/nyaruka/gocommon/jsonx"
	"github.com/nyaruka/goflow/envs"
	"github.com/nyaruka/goflow/excellent"
	"github.com/nyaruka/goflow/excellent/types"
	"github.com/nyaruka/goflow/flows"
	"github.com/nyaruka/goflow/zzverif"
	"github.com/shopspring/decimal"
)

// VerifDiff_* are concrete differential self-tests of the executor: each
// returns a string computed by real goflow / library code on fixed inputs;
// `gosym selftest` runs it in the symbolic executor (no unknowns) and
// natively and requires identical strings.

func VerifDiff_Strings() string {
	var sb strings.Builder
	for _, s := range []string{"", "héllo wörld", "a\"b\\c\n", "\xff\xfe", "日本語"} {
		sb.WriteString(strconv.Quote(s) + "|" + strings.ToUpper(s) + "|" + strings.Title(strings.TrimSpace(s)) + "|" + fmt.Sprintf("%q %v %5s|%-5s|%x", s, []byte(s), s, s, s) + "\n")
		u, err := strconv.Unquote(strconv.Quote(s))
		sb.WriteString(fmt.Sprint(u == s, err, len([]rune(s)), strings.Fields(s), strings.Split(s, "l")) + "\n")
	}
	for _, n := range []int64{0, -1, 1 << 40, -(1 << 62)} {
		sb.WriteString(strconv.FormatInt(n, 10) + " " + strconv.FormatInt(n, 16) + fmt.Sprintf(" %d %05d %+d %x %v %T", n, n, n, uint64(n), float64(n)/3, n) + "\n")
	}
	re := regexp.MustCompile(`^\+?([0-9]{2,})[-. ]?([a-z]+)?$`)
	for _, s := range []string{"+1234-abc", "12", "x12", "99 zz"} {
		sb.WriteString(fmt.Sprint(re.MatchString(s), re.FindStringSubmatch(s), re.ReplaceAllString(s, "<$1>")) + "\n")
	}
	m := map[string]int{"b": 2, "a": 1, "c": 3}
	keys := make([]string, 0)
	for k := range m {
		keys = append(keys, k)
	}
	sort.Strings(keys)
	sb.WriteString(fmt.Sprint(keys, m, len(m)) + "\n")
	return sb.String()
}

func VerifDiff_NumbersAndTime() string {
	var sb strings.Builder
	env := envs.NewBuilder().WithDateFormat(envs.DateFormatDayMonthYear).WithTimeFormat(envs.TimeFormatHourMinuteAmPm).Build()
	for _, s := range []string{"0", "-1.50", "123456789012345678901234567890.123", "0.000001", ".5"} {
		d := decimal.RequireFromString(s)
		n := types.NewXNumber(d)
		sb.WriteString(n.Render() + " " + n.Format(env) + " " + d.Mul(d).String() + " " + d.Div(decimal.New(3, 0)).StringFixed(4) + " " + fmt.Sprint(d.Cmp(decimal.Zero), d.IntPart(), d.Exponent()) + "\n")
	}
	for _, sec := range []int64{0, 951782400, 1710028799, 253402300799, -62135596800} {
		t := time.Unix(sec, 0).UTC()
		x := types.NewXDateTime(t)
		sb.WriteString(x.Render() + " | " + x.Format(env) + " | " + t.Weekday().String() + " " + fmt.Sprint(t.YearDay(), t.Add(36*time.Hour).Format(time.RFC1123)) + "\n")
		back, err := envs.DateTimeFromString(env, x.Format(env), false)
		sb.WriteString(fmt.Sprint(back.UTC(), err) + "\n")
	}
	return sb.String()
}

func VerifDiff_Evaluation() string {
	var sb strings.Builder
	env := envs.NewBuilder().Build()
	ctx := types.NewXObject(map[string]types.XValue{
		"contact": types.NewXObject(map[string]types.XValue{"name": types.NewXText("Bob Smith"), "age": types.NewXNumberFromInt(33), "__default__": types.NewXText("Bob")}),
		"items":   types.NewXArray(types.NewXText("a"), types.NewXNumberFromInt(2), nil),
	})
	for _, tpl := range []string{"Hi @contact.name!", "@(upper(contact.name) & \" \" & contact.age * 2 + 1)", "@(items[1] ^ 2 / 4 - -3)", "@(word(contact.name, 1)) @@x @contact",
		"@(if(contact.age >= 18, \"adult\", \"minor\"))", "@(1 / 0) @(foo) @(\"a\\\"b\")", "@(format_number(1234.5678, 2)) @(text_slice(\"hello\", 1, 3)) @(count(items))",
		"@(foreach(items, (x) => x & \"!\"))", "@(mod(7, 0)) @(char(65) & code(\"a\")) @(datetime(\"2024-02-29T13:00:00Z\"))"} {
		out, warnings, err := excellent.NewEvaluator().Template(env, ctx, tpl, nil)
		sb.WriteString(fmt.Sprintf("%s => %q %v %v\n", tpl, out, warnings, err))
	}
	return sb.String()
}

func VerifDiff_Engine() string {
	var sb strings.Builder
	zzverif.ResetEnv()
	sa := verifNewAssets()
	sa.add(verifBuildFlow(0, []verifNodeSpec{
		{kind: vkWaitTO, dests: [3]int{1, -1, 1}, hasDef: true},
		{kind: vkEnter, dests: [3]int{-1, -1, -1}, enter: 1},
	}))
	sa.add(verifBuildFlow(1, []verifNodeSpec{{kind: vkSwitch, dests: [3]int{-1, -1, -1}, hasDef: true}}))
	verifLazyOutcomes = false
	verifOutcomes, verifOutcomePos = []int{0, 1, 2, 1}, 0
	eng := verifEngine(10, 10)
	contact := flows.NewEmptyContact(sa, "Bob", "eng", nil)
	contact.AddURN("twitter:bob", nil)
	sess, sp, err := eng.NewSession(sa, verifManualTrigger(sa, contact))
	sb.WriteString(fmt.Sprint(err, sess.Status(), len(sp.Events())) + "\n")
	b, _ := jsonx.Marshal(sess)
	sb.WriteString(string(b) + "\n")
	sp, err = sess.Resume(verifResume(0))
	sb.WriteString(fmt.Sprint(err, sess.Status(), len(sess.Runs())) + "\n")
	for _, e := range sp.Events() {
		eb, _ := jsonx.Marshal(e)
		sb.WriteString(string(eb) + "\n")
	}
	b, _ = jsonx.Marshal(sess)
	sb.WriteString(string(b) + "\n")
	// UUID and clock sources differ between the executor's stubs and the native
	// seeded generators: compare everything else
	out := regexp.MustCompile(`[0-9a-f]{8}-[0-9a-f]{4}-[0-9a-f]{4}-[0-9a-f]{4}-[0-9a-f]{12}`).ReplaceAllString(sb.String(), "UUID")
	out = regexp.MustCompile(`[0-9]{4}-[0-9]{2}-[0-9]{2}T[0-9:.]+(Z|[+-][0-9:]+)`).ReplaceAllString(out, "TIME")
	return out
}
