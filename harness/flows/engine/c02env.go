package engine

import (
	"github.com/nyaruka/gocommon/i18n"
	"github.com/nyaruka/gocommon/urns"
	"github.com/nyaruka/goflow/assets"
	"github.com/nyaruka/goflow/envs"
	"github.com/nyaruka/goflow/flows"
	"github.com/nyaruka/goflow/flows/actions"
	"github.com/nyaruka/goflow/flows/definition"
	"github.com/nyaruka/goflow/flows/resumes"
	"github.com/nyaruka/goflow/flows/routers"
	"github.com/nyaruka/goflow/flows/routers/waits"
	"github.com/nyaruka/goflow/flows/triggers"
	"github.com/nyaruka/goflow/zzverif"
)

// VerifC02_Refreshed: a run that has already evaluated templates waits; the
// resume carries a refreshed environment (date format, number format with
// arbitrary symbols, allowed languages) and/or a refreshed contact (arbitrary
// name, another language). After the wait the flow sends text whose content
// depends on all of these (number and date formatting, the translation
// chosen, the contact's name): the session kept in memory and the session
// read back from its JSON produce the same events and the same session JSON.
// cover: environment-refreshed, contact-refreshed, neither, resumed-equal
func VerifC02_Refreshed() {
	sa := verifNewAssets()
	loc := definition.NewLocalization()
	loc.SetItemTranslation("spa", "m2", "text", []string{"despues @(format_number(1234.5)) @(format_date(\"2020-03-04T10:00:00Z\")) @contact.name"})
	cats := []flows.Category{routers.NewCategory("c0", "Any", verifExitUUID(9, 0, 0))}
	router := routers.NewSwitch(waits.NewMsgWait(nil, nil), "Reply", cats, "@input.text", nil, "c0")
	n0 := definition.NewNode(verifNodeUUID(0, 0), []flows.Action{
		actions.NewSendMsg("m1", "before @(format_number(1234.5)) @(format_date(\"2020-03-04T10:00:00Z\")) @contact.name", nil, nil, false),
	}, router, []flows.Exit{definition.NewExit(verifExitUUID(9, 0, 0), verifNodeUUID(0, 1))})
	n1 := definition.NewNode(verifNodeUUID(0, 1), []flows.Action{
		actions.NewSendMsg("m2", "after @(format_number(1234.5)) @(format_date(\"2020-03-04T10:00:00Z\")) @contact.name", nil, nil, false),
	}, nil, []flows.Exit{definition.NewExit(verifExitUUID(9, 0, 1), "")})
	f0, err := definition.NewFlow(verifFlowUUID(0), "F0", "eng", flows.FlowTypeMessaging, 1, 10, loc, []flows.Node{n0, n1}, nil, nil)
	zzverif.Assert(err == nil, "setup: flow did not validate")
	sa.add(f0)
	eng := verifEngine(10, 10)

	env := envs.NewBuilder().WithAllowedLanguages("eng").Build()
	contact := flows.NewEmptyContact(sa, "Bob", i18n.Language("spa"), nil)
	zzverif.ResetEnv()
	trig := triggers.NewBuilder(env, assets.NewFlowReference(verifFlowUUID(0), "F0"), contact).Manual().Build()
	sess, _, err := eng.NewSession(sa, trig)
	zzverif.Assert(err == nil && sess.Status() == flows.SessionStatusWaiting, "setup: session not waiting")
	m := verifMarshal(sess)
	restored, err := eng.ReadSession(sa, []byte(m), assets.PanicOnMissing)
	zzverif.Assert(err == nil, "a marshalled waiting session could not be read back")

	var newEnv envs.Environment
	switch zzverif.Choice("refreshed-environment", 4) {
	case 1:
		newEnv = envs.NewBuilder().WithAllowedLanguages("eng").WithDateFormat(envs.DateFormatMonthDayYear).Build()
	case 2:
		d, g := zzverif.Byte("decimal-symbol"), zzverif.Byte("grouping-symbol")
		zzverif.Assume(d >= 0x20 && d < 0x7f && g >= 0x20 && g < 0x7f)
		newEnv = envs.NewBuilder().WithAllowedLanguages("eng").WithNumberFormat(&envs.NumberFormat{DecimalSymbol: string([]byte{d}), DigitGroupingSymbol: string([]byte{g})}).Build()
	case 3:
		newEnv = envs.NewBuilder().WithAllowedLanguages("eng", "spa").Build()
	}
	var newContact *flows.Contact
	if zzverif.Choice("refreshed-contact", 2) == 1 {
		newContact = flows.NewEmptyContact(sa, verifAsciiName("new-name"), i18n.Language("eng"), nil)
		zzverif.Cover("contact-refreshed")
	}
	if newEnv != nil {
		zzverif.Cover("environment-refreshed")
	} else if newContact == nil {
		zzverif.Cover("neither")
	}
	resume := func() flows.Resume {
		var c *flows.Contact
		if newContact != nil {
			c = newContact.Clone()
		}
		return resumes.NewMsg(newEnv, c, flows.NewMsgIn(flows.MsgUUID("msg3"), urns.URN("twitter:bob"), nil, "hi", nil))
	}
	zzverif.ResetEnv()
	sp1, err1 := sess.Resume(resume())
	zzverif.ResetEnv()
	sp2, err2 := restored.Resume(resume())
	zzverif.Assert(err1 == nil && err2 == nil, "resume failed")
	zzverif.Assert(verifEventsJSON(sp1) == verifEventsJSON(sp2), "resuming the restored session produced different events than resuming the session kept in memory")
	zzverif.Assert(verifMarshal(sess) == verifMarshal(restored), "resuming the restored session resulted in different session JSON")
	zzverif.Cover("resumed-equal")
}

// VerifC02_ParentRun: a session started by a flow_action trigger (a parent
// session's start_session: history and the parent run's summary travel in the
// trigger) that refers to its parent (@parent.contact.name, @parent.results)
// before and after a wait: the session kept in memory and the session read
// back from its JSON at the wait resume identically (events and session
// JSON), with an arbitrary parent contact name.
// cover: resumed-equal
func VerifC02_ParentRun() {
	sa := verifNewAssets()
	// the parent's flow: saves a result, then completes
	sa.add(verifFlowOf(1, verifPlainNodeWithActions(1, 0, -1, actions.NewSetRunResult("pr", "Age", "33", ""))))
	cats := []flows.Category{routers.NewCategory("c0", "Any", verifExitUUID(9, 0, 0))}
	router := routers.NewSwitch(waits.NewMsgWait(nil, nil), "Reply", cats, "@input.text", nil, "c0")
	n0 := definition.NewNode(verifNodeUUID(0, 0), []flows.Action{
		actions.NewSendMsg("m1", "sent here by @parent.contact.name who is @parent.results.age", nil, nil, false),
	}, router, []flows.Exit{definition.NewExit(verifExitUUID(9, 0, 0), verifNodeUUID(0, 1))})
	n1 := definition.NewNode(verifNodeUUID(0, 1), []flows.Action{
		actions.NewSendMsg("m2", "still by @parent.contact.name who is @parent.results.age", nil, nil, false),
	}, nil, []flows.Exit{definition.NewExit(verifExitUUID(9, 0, 1), "")})
	f0, err := definition.NewFlow(verifFlowUUID(0), "F0", "eng", flows.FlowTypeMessaging, 1, 10, definition.NewLocalization(), []flows.Node{n0, n1}, nil, nil)
	zzverif.Assert(err == nil, "setup: flow did not validate")
	sa.add(f0)
	eng := verifEngine(10, 10)
	env := envs.NewBuilder().Build()

	zzverif.ResetEnv()
	parentContact := flows.NewEmptyContact(sa, "J"+verifAsciiName("parent-name"), i18n.Language("eng"), nil)
	parent, _, err := eng.NewSession(sa, triggers.NewBuilder(env, assets.NewFlowReference(verifFlowUUID(1), "F1"), parentContact).Manual().Build())
	zzverif.Assert(err == nil && len(parent.Runs()) == 1, "setup: parent session did not run")
	summary := verifMarshal(parent.Runs()[0].Snapshot())

	child := flows.NewEmptyContact(sa, "Bob", i18n.Language("eng"), nil)
	trig := triggers.NewBuilder(env, assets.NewFlowReference(verifFlowUUID(0), "F0"), child).FlowAction(flows.NewChildHistory(parent), []byte(summary)).Build()
	sess, sp0, err := eng.NewSession(sa, trig)
	zzverif.Assert(err == nil && sess.Status() == flows.SessionStatusWaiting, "setup: session not waiting")
	zzverif.Assert(len(verifC02Texts(sp0)) == 1, "setup: no message before the wait")
	m := verifMarshal(sess)
	restored, err := eng.ReadSession(sa, []byte(m), assets.PanicOnMissing)
	zzverif.Assert(err == nil, "a marshalled waiting session could not be read back")
	zzverif.Assert(verifMarshal(restored) == m, "a session read back from its JSON marshals to different JSON")

	resume := func() flows.Resume {
		return resumes.NewMsg(nil, nil, flows.NewMsgIn(flows.MsgUUID("msg3"), urns.URN("twitter:bob"), nil, "hi", nil))
	}
	zzverif.ResetEnv()
	sp1, err1 := sess.Resume(resume())
	zzverif.ResetEnv()
	sp2, err2 := restored.Resume(resume())
	zzverif.Assert(err1 == nil && err2 == nil, "resume failed")
	zzverif.Assert(verifEventsJSON(sp1) == verifEventsJSON(sp2), "resuming the restored session produced different events than resuming the session kept in memory")
	zzverif.Assert(verifMarshal(sess) == verifMarshal(restored), "resuming the restored session resulted in different session JSON")
	zzverif.Cover("resumed-equal")
}

func verifC02Texts(sp flows.Sprint) []string {
	var out []string
	for _, e := range sp.Events() {
		if e.Type() == "msg_created" {
			out = append(out, verifMarshal(e))
		}
	}
	return out
}
