package engine

import (
	"github.com/nyaruka/gocommon/i18n"
	"github.com/nyaruka/goflow/assets"
	"github.com/nyaruka/goflow/envs"
	"github.com/nyaruka/goflow/flows"
	"github.com/nyaruka/goflow/flows/actions"
	"github.com/nyaruka/goflow/flows/definition"
	"github.com/nyaruka/goflow/flows/events"
	"github.com/nyaruka/goflow/flows/triggers"
	"github.com/nyaruka/goflow/zzverif"
)

type verifLabel struct{ uuid, name string }

func (l *verifLabel) UUID() assets.LabelUUID { return assets.LabelUUID(l.uuid) }
func (l *verifLabel) Name() string           { return l.name }

// VerifC20_ReferenceLists: actions that carry a *list* of asset references
// (add_contact_groups, remove_contact_groups, add_input_labels,
// send_broadcast, start_session), where the list mixes fixed references with
// expression-based ones (name_match) in any of five arrangements — fixed
// alone, an expression first, an expression last, two fixed, an expression
// before two fixed.  Every fixed group or label that the run's events show
// was really added, removed, labelled with or addressed is a dependency of
// the real flow.Inspect (reflection walk over the action through the
// executor's reflect shim).
// cover: fixed-alone, expression-first, expression-last, two-fixed, expression-then-two-fixed, groups-added, groups-removed, labels-added, broadcast, session-triggered
func VerifC20_ReferenceLists() {
	env := envs.NewBuilder().WithAllowedLanguages("eng").Build()
	sa := verifNewAssets()
	sa.fields = flows.NewFieldAssets([]assets.Field{&verifFieldAsset{"gender", assets.FieldTypeText}})
	var static []*flows.Group
	sa.groups, static = flows.VerifGroupAssets(env, sa.fields,
		flows.VerifStaticGroup("b0000000-0000-4000-8000-000000000001", "Testers"), flows.VerifStaticGroup("b0000000-0000-4000-8000-000000000002", "Customers"))
	sa.labels = flows.NewLabelAssets([]assets.Label{&verifLabel{"c0000000-0000-4000-8000-000000000001", "Spam"}, &verifLabel{"c0000000-0000-4000-8000-000000000002", "Urgent"}})

	shape := zzverif.Choice("list-shape", 5)
	zzverif.Cover([]string{"fixed-alone", "expression-first", "expression-last", "two-fixed", "expression-then-two-fixed"}[shape])
	var groups []*assets.GroupReference
	var labels []*assets.LabelReference
	gx, lx := assets.NewVariableGroupReference("@fields.gender"), assets.NewVariableLabelReference("@fields.gender")
	g1, g2 := static[0].Reference(), static[1].Reference()
	l1, l2 := assets.NewLabelReference("c0000000-0000-4000-8000-000000000001", "Spam"), assets.NewLabelReference("c0000000-0000-4000-8000-000000000002", "Urgent")
	switch shape {
	case 0:
		groups, labels = []*assets.GroupReference{g1}, []*assets.LabelReference{l1}
	case 1:
		groups, labels = []*assets.GroupReference{gx, g1}, []*assets.LabelReference{lx, l1}
	case 2:
		groups, labels = []*assets.GroupReference{g1, gx}, []*assets.LabelReference{l1, lx}
	case 3:
		groups, labels = []*assets.GroupReference{g1, g2}, []*assets.LabelReference{l1, l2}
	default:
		groups, labels = []*assets.GroupReference{gx, g1, g2}, []*assets.LabelReference{lx, l1, l2}
	}
	var act flows.Action
	switch zzverif.Choice("action", 5) {
	case 0:
		act = actions.NewAddContactGroups("a1", groups)
	case 1:
		act = actions.NewRemoveContactGroups("a1", groups, false)
	case 2:
		act = actions.NewAddInputLabels("a1", labels)
	case 3:
		act = actions.NewSendBroadcast("a1", "hi", nil, nil, groups, nil, "", nil, nil)
	default:
		act = actions.NewStartSession("a1", assets.NewFlowReference(verifFlowUUID(1), "F1"), groups, nil, "", nil, nil, false)
	}
	n0 := definition.NewNode(verifNodeUUID(0, 0), []flows.Action{act}, nil, []flows.Exit{definition.NewExit(verifExitUUID(0, 0, 0), "")})
	f0, err := definition.NewFlow(verifFlowUUID(0), "F0", "eng", flows.FlowTypeMessaging, 1, 10, definition.NewLocalization(), []flows.Node{n0}, nil, nil)
	zzverif.Assert(err == nil, "setup: flow did not validate")
	sa.add(f0)
	sa.add(verifFlowOf(1, verifPlainNodeWithActions(1, 0, -1)))
	insp := f0.Inspect(sa)

	contact := flows.NewEmptyContact(sa, "Bob", i18n.Language("eng"), nil)
	contact.Groups().Add(static[0])
	contact.Groups().Add(static[1])
	if _, isAdd := act.(*actions.AddContactGroupsAction); isAdd {
		contact.Groups().Clear()
	}
	trig := triggers.NewBuilder(env, assets.NewFlowReference(verifFlowUUID(0), "F0"), contact).Msg(verifMsgIn("hello")).Build()
	_, sp, err := verifEngine(10, 10).NewSession(sa, trig)
	zzverif.Assert(err == nil, "setup: session did not start")
	checkGroups := func(refs []*assets.GroupReference, what string) {
		for _, g := range refs {
			if g.UUID != "" {
				zzverif.Assert(verifHasDependency(insp, "group", string(g.UUID)), "a run "+what+" a group that the inspection does not list as a dependency")
			}
		}
	}
	for _, e := range sp.Events() {
		switch t := e.(type) {
		case *events.ContactGroupsChangedEvent:
			if len(t.GroupsAdded) > 0 {
				zzverif.Cover("groups-added")
			}
			if len(t.GroupsRemoved) > 0 {
				zzverif.Cover("groups-removed")
			}
			checkGroups(t.GroupsAdded, "added the contact to")
			checkGroups(t.GroupsRemoved, "removed the contact from")
		case *events.InputLabelsAddedEvent:
			zzverif.Cover("labels-added")
			for _, l := range t.Labels {
				zzverif.Assert(verifHasDependency(insp, "label", string(l.UUID)), "a run labelled the input with a label that the inspection does not list as a dependency")
			}
		case *events.BroadcastCreatedEvent:
			zzverif.Cover("broadcast")
			checkGroups(t.Groups, "sent a broadcast to")
		case *events.SessionTriggeredEvent:
			zzverif.Cover("session-triggered")
			checkGroups(t.Groups, "started a session for")
		}
	}
}

// VerifC20_SingleReferences: the remaining kinds of fixed asset references —
// the channel of set_contact_channel, the topic and the assignee (user) of
// open_ticket, the classifier of call_classifier, the opt-in of
// request_optin, the template of a send_msg — alone on a node or behind
// another action of the same node, in the first or the second node of the
// flow: each is a dependency of the real flow.Inspect under its own type and
// identity.  (Static clause: the reference is what a run of that action
// resolves; the run itself needs the services of a host.)
// cover: channel, topic, user, classifier, optin, template, second-action, second-node
func VerifC20_SingleReferences() {
	sa := verifNewAssets()
	var act flows.Action
	typ, identity := "", ""
	switch zzverif.Choice("reference", 6) {
	case 0:
		act = actions.NewSetContactChannel("a1", assets.NewChannelReference("d0000000-0000-4000-8000-000000000001", "Nexmo"))
		typ, identity = "channel", "d0000000-0000-4000-8000-000000000001"
	case 1:
		act = actions.NewOpenTicket("a1", assets.NewTopicReference("d0000000-0000-4000-8000-000000000002", "Weather"), "@input", assets.NewUserReference("bob@nyaruka.com", "Bob"), "Ticket")
		typ, identity = "topic", "d0000000-0000-4000-8000-000000000002"
	case 2:
		act = actions.NewOpenTicket("a1", assets.NewTopicReference("d0000000-0000-4000-8000-000000000002", "Weather"), "@input", assets.NewUserReference("bob@nyaruka.com", "Bob"), "Ticket")
		typ, identity = "user", "bob@nyaruka.com"
	case 3:
		act = actions.NewCallClassifier("a1", assets.NewClassifierReference("d0000000-0000-4000-8000-000000000003", "Booking"), "@input.text", "Intent")
		typ, identity = "classifier", "d0000000-0000-4000-8000-000000000003"
	case 4:
		act = actions.NewRequestOptIn("a1", assets.NewOptInReference("d0000000-0000-4000-8000-000000000004", "Jokes"))
		typ, identity = "optin", "d0000000-0000-4000-8000-000000000004"
	default:
		m := actions.NewSendMsg("a1", "hi", nil, nil, false)
		m.Template = assets.NewTemplateReference("d0000000-0000-4000-8000-000000000005", "revive")
		m.TemplateVariables = []string{"@contact.name"}
		act = m
		typ, identity = "template", "d0000000-0000-4000-8000-000000000005"
	}
	zzverif.Cover(typ)
	acts := []flows.Action{act}
	if zzverif.Choice("second-action", 2) == 1 {
		acts = []flows.Action{actions.NewSetContactName("a0", "Bob"), act}
		zzverif.Cover("second-action")
	}
	var nodes []flows.Node
	if zzverif.Choice("second-node", 2) == 1 {
		nodes = []flows.Node{verifPlainNodeWithActions(0, 0, 1, actions.NewSetContactLanguage("a9", "eng")),
			definition.NewNode(verifNodeUUID(0, 1), acts, nil, []flows.Exit{definition.NewExit(verifExitUUID(0, 1, 0), "")})}
		zzverif.Cover("second-node")
	} else {
		nodes = []flows.Node{definition.NewNode(verifNodeUUID(0, 0), acts, nil, []flows.Exit{definition.NewExit(verifExitUUID(0, 0, 0), "")})}
	}
	f0, err := definition.NewFlow(verifFlowUUID(0), "F0", "eng", flows.FlowTypeMessaging, 1, 10, definition.NewLocalization(), nodes, nil, nil)
	zzverif.Assert(err == nil, "setup: flow did not validate")
	sa.add(f0)
	insp := f0.Inspect(sa)
	zzverif.Assert(verifHasDependency(insp, typ, identity), "an asset an action refers to is not listed as a dependency of the flow")
}
