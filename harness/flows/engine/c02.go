package engine

import (
	"github.com/nyaruka/gocommon/jsonx"
	"github.com/nyaruka/goflow/assets"
	"github.com/nyaruka/goflow/contactql"
	"github.com/nyaruka/goflow/envs"
	"github.com/nyaruka/goflow/flows"
	"github.com/nyaruka/goflow/flows/actions"
	"github.com/nyaruka/goflow/flows/definition"
	"github.com/nyaruka/goflow/flows/routers"
	"github.com/nyaruka/goflow/flows/routers/waits"
	"github.com/nyaruka/goflow/flows/triggers"
	"github.com/nyaruka/goflow/zzverif"
	"time"
)

func verifMarshal(v any) string {
	b, err := jsonx.Marshal(v)
	zzverif.Assert(err == nil, "marshalling failed")
	return string(b)
}

func verifEventsJSON(sp flows.Sprint) string {
	out := ""
	for _, e := range sp.Events() {
		out += verifMarshal(e) + "\n"
	}
	for _, sg := range sp.Segments() {
		out += "segment " + string(sg.Node().UUID()) + " " + string(sg.Exit().UUID()) + " " + sg.Operand() + " " + string(sg.Destination().UUID()) + "\n"
	}
	return out
}

// VerifC02_Smoke: fixed flow pair: marshal at the wait, read back, marshal again.
// cover: round-trip
func VerifC02_Smoke() {
	sa := verifNewAssets()
	sa.add(verifBuildFlow(0, []verifNodeSpec{
		{kind: vkWait, dests: [3]int{1, -1, -1}, hasDef: true},
		{kind: vkEnter, dests: [3]int{-1, -1, -1}, enter: 1},
	}))
	sa.add(verifBuildFlow(1, []verifNodeSpec{{kind: vkPlain, dests: [3]int{-1, -1, -1}, nexits: 1}}))
	eng := verifEngine(10, 10)
	verifLazyOutcomes = false
	verifOutcomes, verifOutcomePos = []int{1}, 0
	s, _, err := eng.NewSession(sa, verifManualTrigger(sa, verifContact(sa)))
	zzverif.Assert(err == nil && s.Status() == flows.SessionStatusWaiting, "setup failed")
	m1 := verifMarshal(s)
	s2, err := eng.ReadSession(sa, []byte(m1), assets.PanicOnMissing)
	zzverif.Assert(err == nil, "reading the marshalled session failed")
	m2 := verifMarshal(s2)
	zzverif.Assert(m1 == m2, "a session read back from its JSON marshals to different JSON")
	zzverif.Cover("round-trip")
}

// VerifC02_Transparent: for every flow pair within the bounds (C01's
// construction), manual or msg trigger and arbitrary router outcomes: at the
// wait the session marshals to JSON m, reading m back gives a session that
// marshals to m again, and resuming the restored session with a resume of any
// type — under the same clock and UUID streams and the same router outcomes —
// gives the same error/acceptance, the same events and segments (as JSON) and
// the same resulting session JSON as resuming the in-memory session; with a
// second restart after the first resume in the thorough tier.
// cover: restored-equal, resumed-equal, rejected-equal, child-run, waiting-again
func VerifC02_Transparent() {
	counts := []int{1, 1}
	if zzverif.Thorough() {
		counts = []int{2, 1}
	}
	sa := verifNewAssets()
	verifSymbolicFlows(sa, counts)
	verifLazyOutcomes = true
	eng := verifEngine(3, 10)
	zzverif.ResetEnv()
	sess, _, err := eng.NewSession(sa, verifTrigger(sa, verifContact(sa)))
	if err != nil || sess.Status() != flows.SessionStatusWaiting {
		return
	}
	if len(sess.Runs()) > 1 {
		zzverif.Cover("child-run")
	}
	m := verifMarshal(sess)
	restored, err := eng.ReadSession(sa, []byte(m), assets.PanicOnMissing)
	zzverif.Assert(err == nil, "a marshalled waiting session could not be read back")
	zzverif.Assert(verifMarshal(restored) == m, "a session read back from its JSON marshals to different JSON")
	zzverif.Cover("restored-equal")

	kind := zzverif.Choice("resume-type", 3)
	zzverif.ResetEnv()
	verifOutcomeRecord = nil
	sp1, err1 := sess.Resume(verifResume(kind))
	// the restored session sees the same router outcomes and the same streams
	zzverif.ResetEnv()
	verifLazyOutcomes = false
	verifOutcomes, verifOutcomePos = verifOutcomeRecord, 0
	sp2, err2 := restored.Resume(verifResume(kind))
	zzverif.Assert((err1 == nil) == (err2 == nil), "the restored session accepted a resume the in-memory session rejected, or vice versa")
	if err1 != nil {
		zzverif.Cover("rejected-equal")
		zzverif.Assert(err1.Error() == err2.Error(), "the restored session rejected the resume with a different error")
	} else {
		zzverif.Assert(verifEventsJSON(sp1) == verifEventsJSON(sp2), "resuming the restored session produced different events or segments")
		zzverif.Cover("resumed-equal")
	}
	zzverif.Assert(verifMarshal(sess) == verifMarshal(restored), "resuming the restored session resulted in different session JSON")
	if sess.Status() == flows.SessionStatusWaiting {
		zzverif.Cover("waiting-again")
	}
}

// VerifC02_Values: a session whose state carries arbitrary text — a run
// result with an arbitrary 1-byte (quick) / 2-byte (thorough) ASCII value followed by x (quotes, backslashes, control
// characters, '<', '&': JSON string escaping), a contact with name, language,
// a URN and the last-seen time of a msg trigger, the received input —
// survives marshal -> read -> marshal and resumes identically.
// cover: restored-equal, resumed-equal, escaped-character, seen-before
func VerifC02_Values() {
	n := 1
	if zzverif.Thorough() {
		n = 2
	}
	v := zzverif.String("result-value", n) + "x"
	for i := 0; i < len(v)-1; i++ {
		zzverif.Assume(v[i] != 0 && v[i] < 0x80 && v[i] != '@')
		if v[i] < 0x20 || v[i] == '"' || v[i] == '\\' {
			zzverif.Cover("escaped-character")
		}
	}
	sa := verifNewAssets()
	first := verifPlainNodeWithActions(0, 0, 1, actions.NewSetRunResult("r1", "Answer", v, "Cat"))
	wait := verifBuildNode(0, 1, verifNodeSpec{kind: vkWaitTO, dests: [3]int{-1, -1, -1}, hasDef: true})
	sa.add(verifFlowOf(0, first, wait))
	verifLazyOutcomes = true
	eng := verifEngine(10, 10)
	contact := flows.NewEmptyContact(sa, verifAsciiName("contact-name"), "eng", nil)
	contact.AddURN("twitter:bob", nil)
	if zzverif.Choice("contact-seen-before", 2) == 1 {
		// (the trigger's contact and the session's contact are clones: state shared between them diverges after a restart)
		contact.SetLastSeenOn(time.Date(2018, 6, 25, 9, 0, 0, 0, time.UTC))
		zzverif.Cover("seen-before")
	}
	zzverif.ResetEnv()
	sess, _, err := eng.NewSession(sa, verifTrigger(sa, contact))
	zzverif.Assert(err == nil && sess.Status() == flows.SessionStatusWaiting, "setup: session not waiting")
	m := verifMarshal(sess)
	restored, err := eng.ReadSession(sa, []byte(m), assets.PanicOnMissing)
	zzverif.Assert(err == nil, "a marshalled waiting session could not be read back")
	zzverif.Assert(verifMarshal(restored) == m, "a session read back from its JSON marshals to different JSON")
	zzverif.Cover("restored-equal")
	res := restored.Runs()[0].Results().Get("answer")
	zzverif.Assert(res != nil && res.Value == v, "a result value changed across the JSON round trip")
	kind := zzverif.Choice("resume-type", 2)
	zzverif.ResetEnv()
	verifOutcomeRecord = nil
	sp1, err1 := sess.Resume(verifResume(kind))
	zzverif.ResetEnv()
	verifLazyOutcomes = false
	verifOutcomes, verifOutcomePos = verifOutcomeRecord, 0
	sp2, err2 := restored.Resume(verifResume(kind))
	zzverif.Assert(err1 == nil && err2 == nil, "resume failed")
	zzverif.Assert(verifEventsJSON(sp1) == verifEventsJSON(sp2), "resuming the restored session produced different events or segments")
	zzverif.Assert(verifMarshal(sess) == verifMarshal(restored), "resuming the restored session resulted in different session JSON")
	zzverif.Cover("resumed-equal")
}

// VerifC02_ResultTexts: every text of a saved run result comes from somewhere
// with its own rules — the category's translation from the flow's
// localization (free text), the category from the action, the value from an
// evaluated template — and the persisted form must take all of them back: a
// result whose localized category is an arbitrary ASCII character followed by
// x (line breaks, quotes, control characters) or is longer than any category
// name may be, saved before a wait, survives marshal -> read -> marshal and
// resumes identically.
// cover: restored-equal, resumed-equal, long-translation, short-translation, line-break
func VerifC02_ResultTexts() {
	var tr string
	if zzverif.Choice("translation-kind", 2) == 0 {
		b := zzverif.Byte("translation")
		zzverif.Assume(b != 0 && b < 0x80 && b != '@')
		if b == '\n' {
			zzverif.Cover("line-break")
		}
		tr = string([]byte{b}) + "x"
		zzverif.Cover("short-translation")
	} else {
		tr = "una categoria con un nombre muy muy largo" // 41 characters
		zzverif.Cover("long-translation")
	}
	sa := verifNewAssets()
	loc := definition.NewLocalization()
	loc.SetItemTranslation("spa", "r1", "category", []string{tr})
	first := verifPlainNodeWithActions(0, 0, 1, actions.NewSetRunResult("r1", "Answer", "yes", "Cat"))
	wait := verifBuildNode(0, 1, verifNodeSpec{kind: vkWaitTO, dests: [3]int{-1, -1, -1}, hasDef: true})
	f0, err := definition.NewFlow(verifFlowUUID(0), "F0", "eng", flows.FlowTypeMessaging, 1, 10, loc, []flows.Node{first, wait}, nil, nil)
	zzverif.Assert(err == nil, "setup: flow did not validate")
	sa.add(f0)
	verifLazyOutcomes = true
	eng := verifEngine(10, 10)
	env := envs.NewBuilder().WithAllowedLanguages("eng", "spa").Build()
	contact := flows.NewEmptyContact(sa, "Bob", "spa", nil)
	zzverif.ResetEnv()
	sess, _, err := eng.NewSession(sa, triggers.NewBuilder(env, assets.NewFlowReference(verifFlowUUID(0), "F0"), contact).Manual().Build())
	zzverif.Assert(err == nil && sess.Status() == flows.SessionStatusWaiting, "setup: session not waiting")
	res := sess.Runs()[0].Results().Get("answer")
	zzverif.Assert(res != nil && res.CategoryLocalized == tr, "setup: the result does not carry the translated category")
	m := verifMarshal(sess)
	restored, err := eng.ReadSession(sa, []byte(m), assets.PanicOnMissing)
	zzverif.Assert(err == nil, "a marshalled waiting session could not be read back")
	zzverif.Assert(verifMarshal(restored) == m, "a session read back from its JSON marshals to different JSON")
	zzverif.Cover("restored-equal")
	zzverif.ResetEnv()
	verifOutcomeRecord = nil
	sp1, err1 := sess.Resume(verifResume(1))
	zzverif.ResetEnv()
	verifLazyOutcomes = false
	verifOutcomes, verifOutcomePos = verifOutcomeRecord, 0
	sp2, err2 := restored.Resume(verifResume(1))
	zzverif.Assert(err1 == nil && err2 == nil, "resume failed")
	zzverif.Assert(verifEventsJSON(sp1) == verifEventsJSON(sp2), "resuming the restored session produced different events or segments")
	zzverif.Assert(verifMarshal(sess) == verifMarshal(restored), "resuming the restored session resulted in different session JSON")
	zzverif.Cover("resumed-equal")
}

// VerifC02_ContactActions: a flow with a contact-changing action (any of
// VerifC03_SprintActions' eleven kinds) before a wait and another after it,
// each followed by a message that renders the contact (name, language,
// field, groups, URNs, status-dependent sending), for a contact with an
// arbitrary starting name, field and membership: the session kept in memory
// and the session read back from its JSON at the wait produce the same events
// and the same session JSON when resumed — whatever the engine remembers
// about the contact between sprints must be rebuilt on read or not matter.
// cover: restored-equal, resumed-equal
func VerifC02_ContactActions() {
	env := envs.NewBuilder().Build()
	sa := verifNewAssets()
	sa.fields = flows.NewFieldAssets([]assets.Field{&verifFieldAsset{"nick", assets.FieldTypeText}})
	gNamed := flows.VerifQueryGroup(env, sa.fields, "b0000000-0000-4000-8000-000000000001", "Named", contactql.NewCondition(contactql.PropertyTypeAttribute, contactql.AttributeName, contactql.OpEqual, "a"))
	zzverif.Assert(gNamed != nil, "setup: query group did not validate")
	var groups []*flows.Group
	sa.groups, groups = flows.VerifGroupAssets(env, sa.fields, flows.VerifStaticGroup("b0000000-0000-4000-8000-000000000002", "Static"), gNamed)
	render := "@contact.name|@contact.language|@fields.nick|@(count(contact.groups))|@urns.twitter|@contact.timezone"
	cats := []flows.Category{routers.NewCategory("c0", "All", verifExitUUID(9, 0, 0))}
	router := routers.NewSwitch(waits.NewMsgWait(nil, nil), "Reply", cats, "@input.text", nil, "c0")
	n0 := definition.NewNode(verifNodeUUID(0, 0), []flows.Action{verifContactAction("action-before-wait", "a0"), actions.NewSendMsg("m0", render, nil, nil, false)}, router,
		[]flows.Exit{definition.NewExit(verifExitUUID(9, 0, 0), verifNodeUUID(0, 1))})
	n1 := definition.NewNode(verifNodeUUID(0, 1), []flows.Action{actions.NewSendMsg("m1", render, nil, nil, false), verifContactAction("action-after-wait", "a1"), actions.NewSendMsg("m2", render, nil, nil, false)}, nil,
		[]flows.Exit{definition.NewExit(verifExitUUID(9, 0, 1), "")})
	f, err := definition.NewFlow(verifFlowUUID(0), "F0", "eng", flows.FlowTypeMessaging, 1, 10, definition.NewLocalization(), []flows.Node{n0, n1}, nil, nil)
	zzverif.Assert(err == nil, "setup: flow did not validate")
	sa.add(f)
	contact := flows.NewEmptyContact(sa, []string{"Bob", "a"}[zzverif.Choice("old-name", 2)], "eng", nil)
	contact.AddURN("twitter:bob", nil)
	if zzverif.Choice("has-nick", 2) == 1 {
		fd := sa.fields.Get("nick")
		contact.Fields().Set(fd, contact.Fields().Parse(env, sa.fields, fd, "bobby"))
	}
	if zzverif.Choice("in-static-group", 2) == 1 {
		contact.Groups().Add(groups[0])
	}
	eng := verifEngine(10, 10)
	zzverif.ResetEnv()
	sess, _, err := eng.NewSession(sa, triggers.NewBuilder(env, assets.NewFlowReference(verifFlowUUID(0), "F0"), contact).Manual().Build())
	zzverif.Assert(err == nil && sess.Status() == flows.SessionStatusWaiting, "setup: session not waiting")
	m := verifMarshal(sess)
	restored, err := eng.ReadSession(sa, []byte(m), assets.PanicOnMissing)
	zzverif.Assert(err == nil, "a marshalled waiting session could not be read back")
	zzverif.Assert(verifMarshal(restored) == m, "a session read back from its JSON marshals to different JSON")
	zzverif.Cover("restored-equal")
	zzverif.ResetEnv()
	sp1, err1 := sess.Resume(verifResumeText("hi"))
	zzverif.ResetEnv()
	sp2, err2 := restored.Resume(verifResumeText("hi"))
	zzverif.Assert(err1 == nil && err2 == nil, "resume failed")
	zzverif.Assert(verifEventsJSON(sp1) == verifEventsJSON(sp2), "resuming the restored session produced different events or segments")
	zzverif.Assert(verifMarshal(sess) == verifMarshal(restored), "resuming the restored session resulted in different session JSON")
	zzverif.Cover("resumed-equal")
}

// VerifC02_ExitedRuns: a session with runs that exited in earlier sprints:
// F0 enters a child flow F1, which waits (with a timeout); the first resume —
// a message, the timeout or a run expiration — ends the child (completed or
// expired) and the parent goes on to a wait of its own; the second resume
// leads to a terminal enter_flow (which marks every run of the session as
// completed, runs that exited sprints ago included) or to the end of the
// flow. One session is kept alive throughout — and marshalled at each wait,
// as a host persists it — the other restarts at any subset of the two waits:
// both produce the same events at each sprint and the same final session
// JSON.
// cover: child-expired, child-completed, terminal-enter, restart-at-first-wait, restart-at-second-wait, resumed-equal
func VerifC02_ExitedRuns() {
	sa := verifNewAssets()
	terminal := zzverif.Choice("second-resume-leads-to-terminal-enter", 2) == 1
	last := verifNodeSpec{kind: vkPlain, dests: [3]int{-1, -1, -1}, nexits: 1}
	if terminal {
		last = verifNodeSpec{kind: vkEnterTerm, dests: [3]int{-1, -1, -1}, enter: 2}
		zzverif.Cover("terminal-enter")
	}
	sa.add(verifBuildFlow(0, []verifNodeSpec{
		{kind: vkEnter, dests: [3]int{1, 1, 1}, enter: 1, hasDef: true},
		{kind: vkWait, dests: [3]int{2, 2, 2}, hasDef: true},
		last}))
	sa.add(verifBuildFlow(1, []verifNodeSpec{{kind: vkWaitTO, dests: [3]int{-1, -1, -1}, hasDef: true}}))
	sa.add(verifBuildFlow(2, []verifNodeSpec{{kind: vkPlain, dests: [3]int{-1, -1, -1}, nexits: 1}}))
	verifLazyOutcomes = false
	verifOutcomes, verifOutcomePos = nil, 0
	eng := verifEngine(10, 10)
	restart1 := zzverif.Choice("restart-at-first-wait", 2) == 1
	restart2 := zzverif.Choice("restart-at-second-wait", 2) == 1
	first := zzverif.Choice("first-resume", 3)

	start := func() flows.Session {
		zzverif.ResetEnv()
		sess, _, err := eng.NewSession(sa, verifManualTrigger(sa, verifContact(sa)))
		zzverif.Assert(err == nil && sess.Status() == flows.SessionStatusWaiting && len(sess.Runs()) == 2, "setup: the session is not waiting in the child flow")
		return sess
	}
	a, b := start(), start()
	step := func(restart bool, resume func() flows.Resume, what string) {
		ma := verifMarshal(a) // the host persists the live session too
		if restart {
			var err error
			b, err = eng.ReadSession(sa, []byte(verifMarshal(b)), assets.PanicOnMissing)
			zzverif.Assert(err == nil, "a marshalled waiting session could not be read back")
			zzverif.Assert(verifMarshal(b) == ma, "a session read back from its JSON marshals to different JSON")
		}
		zzverif.ResetEnv()
		sp1, err1 := a.Resume(resume())
		zzverif.ResetEnv()
		sp2, err2 := b.Resume(resume())
		zzverif.Assert(err1 == nil && err2 == nil, "resume failed")
		zzverif.Assert(verifEventsJSON(sp1) == verifEventsJSON(sp2), "the "+what+" resume of the restarted session produced different events or segments")
		zzverif.Assert(verifMarshal(a) == verifMarshal(b), "the "+what+" resume of the restarted session resulted in different session JSON")
	}
	if restart1 {
		zzverif.Cover("restart-at-first-wait")
	}
	step(restart1, func() flows.Resume {
		if first == 0 {
			return verifResumeText("hi")
		}
		return verifResume(first)
	}, "first")
	zzverif.Assert(a.Status() == flows.SessionStatusWaiting && len(a.Runs()) == 2, "setup: the parent is not waiting after its child ended")
	if a.Runs()[1].Status() == flows.RunStatusExpired {
		zzverif.Cover("child-expired")
	} else {
		zzverif.Cover("child-completed")
	}
	if restart2 {
		zzverif.Cover("restart-at-second-wait")
	}
	step(restart2, func() flows.Resume { return verifResumeText("again") }, "second")
	zzverif.Assert(a.Status() == flows.SessionStatusCompleted, "the session did not complete")
	zzverif.Cover("resumed-equal")
}
