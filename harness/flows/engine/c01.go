package engine

import (
	"github.com/nyaruka/goflow/assets"
	"github.com/nyaruka/goflow/envs"
	"github.com/nyaruka/goflow/flows"
	"github.com/nyaruka/goflow/flows/triggers"
	"github.com/nyaruka/goflow/zzverif"
)

// VerifC01_Smoke: a fixed two-node flow (wait, then terminal enter of a
// one-node flow), start and one message resume — concrete smoke test of the
// engine construction.
// cover: done
func VerifC01_Smoke() {
	sa := verifNewAssets()
	f0 := verifBuildFlow(0, []verifNodeSpec{
		{kind: vkWait, dests: [3]int{1, -1, -1}, hasDef: true},
		{kind: vkEnter, dests: [3]int{-1, -1, -1}, enter: 1},
	})
	f1 := verifBuildFlow(1, []verifNodeSpec{{kind: vkPlain, dests: [3]int{-1, -1, -1}, nexits: 1}})
	sa.add(f0)
	sa.add(f1)
	eng := verifEngine(10, 10)
	contact := verifContact(sa)
	verifLazyOutcomes = false
	verifOutcomes, verifOutcomePos = []int{1}, 0
	s, sp, err := eng.NewSession(sa, verifManualTrigger(sa, contact))
	zzverif.Assert(err == nil, "NewSession failed")
	zzverif.Assert(s.Status() == flows.SessionStatusWaiting, "not waiting after start")
	zzverif.Assert(len(sp.Events()) > 0, "no events")
	before := verifEventCounts(s.(*session))
	sp2, err := s.Resume(verifResume(0))
	zzverif.Assert(err == nil, "Resume failed")
	zzverif.Assert(s.Status() == flows.SessionStatusCompleted, "not completed after resume")
	zzverif.Assert(len(s.Runs()) == 2, "expected two runs")
	verifCheckC01(s.(*session), sp2, before)
	zzverif.Cover("done")
}

// verifEventCounts records how many events each run holds before a call.
func verifEventCounts(s *session) map[flows.RunUUID]int {
	m := map[flows.RunUUID]int{}
	for _, r := range s.runs {
		m[r.UUID()] = len(r.Events())
	}
	return m
}

func verifIsAncestor(a, r flows.Run) bool {
	for p := r.ParentInSession(); p != nil; p = p.ParentInSession() {
		if p == a {
			return true
		}
	}
	return false
}

// verifCheckC01 is the invariant of property C01, asserted after every engine
// call that returned a nil error.
func verifCheckC01(s *session, sp flows.Sprint, before map[flows.RunUUID]int) {
	st := s.status
	zzverif.Assert(st == flows.SessionStatusWaiting || st == flows.SessionStatusCompleted || st == flows.SessionStatusFailed,
		"session is neither waiting, completed nor failed after the call")

	var waiting []flows.Run
	var active []flows.Run
	for _, r := range s.runs {
		switch r.Status() {
		case flows.RunStatusWaiting:
			waiting = append(waiting, r)
		case flows.RunStatusActive:
			active = append(active, r)
		}
	}
	if st == flows.SessionStatusWaiting {
		zzverif.Cover("waiting")
		zzverif.Assert(len(waiting) == 1, "waiting session does not have exactly one waiting run")
		w := waiting[0]
		path := w.Path()
		zzverif.Assert(len(path) > 0, "waiting run has an empty path")
		node := w.Flow().GetNode(path[len(path)-1].NodeUUID())
		zzverif.Assert(node != nil && node.Router() != nil && node.Router().Wait() != nil, "waiting run is not on a node whose router has a wait")
		for _, a := range active {
			zzverif.Assert(verifIsAncestor(a, w), "an active run is not an ancestor of the waiting run")
		}
		if len(active) > 0 {
			zzverif.Cover("waiting-with-active-parent")
		}
	} else {
		zzverif.Assert(len(waiting) == 0 && len(active) == 0, "session is not waiting but a run is still active or waiting")
		if st == flows.SessionStatusFailed {
			zzverif.Cover("failed")
		} else {
			zzverif.Cover("completed")
		}
	}

	for _, r := range s.runs {
		// exited_on is set exactly for completed, failed and expired runs
		ended := r.Status() == flows.RunStatusCompleted || r.Status() == flows.RunStatusFailed || r.Status() == flows.RunStatusExpired
		zzverif.Assert((r.ExitedOn() != nil) == ended, "exited_on is not set exactly for completed, failed and expired runs")

		// the path is a walk in the flow's graph
		path := r.Path()
		for i, step := range path {
			node := r.Flow().GetNode(step.NodeUUID())
			zzverif.Assert(node != nil, "a step is on a node that is not in the run's flow")
			if step.ExitUUID() == "" {
				zzverif.Assert(i == len(path)-1, "a step other than the last has no exit")
				continue
			}
			var exit flows.Exit
			for _, e := range node.Exits() {
				if e.UUID() == step.ExitUUID() {
					exit = e
				}
			}
			zzverif.Assert(exit != nil, "a step's exit does not belong to the step's node")
			if i+1 < len(path) {
				zzverif.Assert(exit.DestinationUUID() == path[i+1].NodeUUID(), "a step's exit does not lead to the next step's node")
			}
		}
		if len(path) > 1 {
			zzverif.Cover("multi-step-path")
		}

		// events recorded during this sprint name a step of this run and are,
		// in order, a subsequence of the sprint's events
		evs := r.Events()[before[r.UUID()]:]
		all := sp.Events()
		pos := 0
		for _, e := range evs {
			if e.StepUUID() != "" {
				found := false
				for _, step := range path {
					if step.UUID() == e.StepUUID() {
						found = true
					}
				}
				zzverif.Assert(found, "a run event names a step that is not a step of that run")
			}
			j := pos
			for j < len(all) && all[j] != e {
				j++
			}
			zzverif.Assert(j < len(all), "a run event is missing from the sprint's events or out of order")
			pos = j + 1
		}
	}
}

// verifSymbolicFlows builds nflows flows with the given node counts whose node
// kinds are arbitrary and whose exits are lazy.
func verifSymbolicFlows(sa *verifAssets, counts []int) {
	for f, n := range counts {
		specs := make([]verifNodeSpec, n)
		for k := range specs {
			sp := verifNodeSpec{kind: zzverif.Choice("node-kind", vkNumKinds), nexits: 1}
			switch sp.kind {
			case vkSwitch, vkWait, vkWaitTO:
				sp.hasDef = zzverif.Choice("router-has-default", 2) == 1
			case vkEnter, vkEnterTerm, vkEnterFail:
				sp.enter = zzverif.Choice("enter-target", len(counts))
			}
			specs[k] = sp
		}
		sa.add(verifBuildLazyFlow(f, specs))
	}
}

func verifTrigger(sa flows.SessionAssets, contact *flows.Contact) flows.Trigger {
	env := envs.NewBuilder().Build()
	ref := assets.NewFlowReference(verifFlowUUID(0), "F0")
	if zzverif.Choice("trigger", 2) == 1 {
		return triggers.NewBuilder(env, ref, contact).Msg(verifMsgIn("hello")).Build()
	}
	return triggers.NewBuilder(env, ref, contact).Manual().Build()
}

// VerifC01_Unroll: every flow graph within the bounds (arbitrary node kinds,
// arbitrary exit destinations incl. cycles, self- and mutually-entering
// sub-flows, terminal enters, routers without default), manual or msg
// trigger, arbitrary router-test outcomes, and every history of up to H
// resumes of every type: the invariant holds after every call that returns
// without error.
// cover: waiting, completed, failed, waiting-with-active-parent, multi-step-path, step-limit, resume-rejected, resumed, child-run, terminal-enter, resume-limit, resume-limit-with-child-run
func VerifC01_Unroll() {
	counts, hist, maxSteps := []int{2, 1}, 1, 3
	if zzverif.Thorough() {
		counts, hist = []int{2, 2}, 2
		if zzverif.Choice("max-steps", 2) == 1 {
			maxSteps = 2
		}
	}
	sa := verifNewAssets()
	verifSymbolicFlows(sa, counts)
	verifLazyOutcomes = true
	// the resume limit: out of reach, or hit by the first (thorough: also the second) resume
	limits := []int{10, 0}
	if zzverif.Thorough() {
		limits = []int{10, 0, 1}
	}
	maxResumes := limits[zzverif.Choice("max-resumes", len(limits))]
	eng := verifEngine(maxSteps, maxResumes)
	contact := verifContact(sa)
	sess, sp, err := eng.NewSession(sa, verifTrigger(sa, contact))
	if err != nil {
		return
	}
	s := sess.(*session)
	verifCheckC01(s, sp, map[flows.RunUUID]int{})
	verifCoverShape(s, sp)
	for h := 0; h < hist; h++ {
		if s.status != flows.SessionStatusWaiting {
			break
		}
		before := verifEventCounts(s)
		sp, err := s.Resume(verifResume(zzverif.Choice("resume-type", 4)))
		if err != nil {
			zzverif.Cover("resume-rejected")
			continue
		}
		zzverif.Cover("resumed")
		if h >= maxResumes {
			zzverif.Cover("resume-limit")
			if len(s.runs) > 1 {
				zzverif.Cover("resume-limit-with-child-run")
			}
		}
		verifCheckC01(s, sp, before)
		verifCoverShape(s, sp)
	}
}

func verifCoverShape(s *session, sp flows.Sprint) {
	if len(s.runs) > 1 {
		zzverif.Cover("child-run")
		for _, r := range s.runs[1:] {
			if r.ParentInSession() != nil && r.ParentInSession().Status() == flows.RunStatusCompleted && r.Status() != flows.RunStatusCompleted {
				zzverif.Cover("terminal-enter")
			}
		}
	}
	for _, e := range sp.Events() {
		if e.Type() == "failure" {
			zzverif.Cover("step-limit")
		}
	}
}
