package engine

import (
	"strconv"

	"github.com/nyaruka/goflow/envs"
	"github.com/nyaruka/goflow/flows"
	"github.com/nyaruka/goflow/flows/definition"
	"github.com/nyaruka/goflow/flows/events"
	"github.com/nyaruka/goflow/flows/resumes"
	"github.com/nyaruka/goflow/flows/runs"
	"github.com/nyaruka/goflow/zzverif"
)

// verifSnapshot renders the persisted projection of a session — exactly the
// fields session.MarshalJSON / run.MarshalJSON / step / event envelopes
// serialise — as a list of strings; transient fields are left out.
func verifSnapshot(s *session) []string {
	var out []string
	add := func(parts ...string) {
		for _, p := range parts {
			out = append(out, p)
		}
	}
	add("uuid", string(s.uuid), "type", string(s.type_), "status", string(s.status))
	if s.env != nil {
		add("env", s.env.DateFormat().String(), string(s.env.DefaultCountry()), string(s.env.RedactionPolicy()))
	}
	if s.input != nil {
		add("input", string(s.input.UUID()), s.input.CreatedOn().String())
	} else {
		add("no-input")
	}
	if s.contact != nil {
		c := s.contact
		add("contact", string(c.UUID()), c.Name(), string(c.Language()), string(c.Status()), strconv.Itoa(len(c.URNs())), strconv.Itoa(c.Groups().Count()))
		if c.LastSeenOn() != nil {
			add("last-seen", c.LastSeenOn().String())
		}
	}
	add("runs", strconv.Itoa(len(s.runs)))
	for _, r := range s.runs {
		add("run", string(r.UUID()), string(r.FlowReference().UUID), string(r.Status()), r.CreatedOn().String(), r.ModifiedOn().String())
		if r.ParentInSession() != nil {
			add("parent", string(r.ParentInSession().UUID()))
		}
		if r.ExitedOn() != nil {
			add("exited", r.ExitedOn().String())
		}
		for _, st := range r.Path() {
			add("step", string(st.UUID()), string(st.NodeUUID()), string(st.ExitUUID()), st.ArrivedOn().String())
		}
		for _, e := range r.Events() {
			add("event", e.Type(), string(e.StepUUID()), e.CreatedOn().String())
		}
		add("results", strconv.Itoa(len(r.Results())))
		for _, k := range []string{"res", "x"} {
			if res := r.Results().Get(k); res != nil {
				add("result", k, res.Value, res.Category, res.Input)
			}
		}
	}
	return out
}

func verifSameSnapshot(a, b []string) bool {
	if len(a) != len(b) {
		return false
	}
	same := true
	for i := range a {
		if a[i] != b[i] {
			same = false
		}
	}
	return same
}

func verifHasFailure(sp flows.Sprint) bool {
	if sp == nil {
		return false
	}
	for _, e := range sp.Events() {
		if e.Type() == events.TypeFailure {
			return true
		}
	}
	return false
}

// VerifC10_Rejected: from every session state reachable within the bounds
// (waiting on any wait kind with or without active ancestors; completed;
// failed), a resume of every type that is rejected with an engine error
// leaves the persisted state unchanged, produces no events, and a following
// acceptable resume still works.
// cover: rejected-by-wait, rejected-not-waiting, accepted, retry-accepted, carries-environment, carries-contact
func VerifC10_Rejected() {
	counts := []int{1, 1}
	if zzverif.Thorough() {
		counts = []int{2, 1}
	}
	sa := verifNewAssets()
	verifSymbolicFlows(sa, counts)
	verifLazyOutcomes = true
	eng := verifEngine(3, 10)
	sess, _, err := eng.NewSession(sa, verifTrigger(sa, verifContact(sa)))
	if err != nil {
		return
	}
	s := sess.(*session)
	if zzverif.Thorough() && s.status == flows.SessionStatusWaiting && zzverif.Choice("resume-first", 2) == 1 {
		if _, err := s.Resume(verifResume(0)); err != nil {
			return
		}
	}
	before := verifSnapshot(s)
	wasWaiting := s.status == flows.SessionStatusWaiting
	// the resume may carry a refreshed environment and / or a refreshed contact
	// (as a host sends them along with every resume): a rejected one must not
	// have installed them
	var renv envs.Environment
	var rcontact *flows.Contact
	carries := zzverif.Choice("resume-carries", 4)
	if carries&1 == 1 {
		renv = envs.NewBuilder().WithDateFormat(envs.DateFormatMonthDayYear).WithDefaultCountry("RW").Build()
		zzverif.Cover("carries-environment")
	}
	if carries&2 == 2 {
		rcontact = s.contact.Clone()
		rcontact.SetName("Roberta")
		zzverif.Cover("carries-contact")
	}
	var resume flows.Resume
	switch zzverif.Choice("resume-type", 4) {
	case 0:
		resume = resumes.NewMsg(renv, rcontact, verifMsgIn("hi"))
	case 1:
		resume = resumes.NewWaitTimeout(renv, rcontact)
	case 2:
		resume = resumes.NewRunExpiration(renv, rcontact)
	default:
		resume = resumes.NewDial(renv, rcontact, flows.NewDial(flows.DialStatusAnswered, 5))
	}
	sp, err := s.Resume(resume)
	if err == nil {
		zzverif.Cover("accepted")
		zzverif.Assert(wasWaiting, "a session that was not waiting accepted a resume")
		return
	}
	ee, isEngineErr := err.(*Error)
	zzverif.Assert(isEngineErr, "resume returned a Go error that is not an engine error")
	if wasWaiting {
		zzverif.Cover("rejected-by-wait")
		zzverif.Assert(ee.Code() == ErrorResumeRejectedByWait, "waiting session rejected a resume with the wrong code")
	} else {
		zzverif.Cover("rejected-not-waiting")
		zzverif.Assert(ee.Code() == ErrorResumeNonWaitingSession, "non-waiting session rejected a resume with the wrong code")
	}
	zzverif.Assert(sp == nil || len(sp.Events()) == 0, "a rejected resume produced events")
	zzverif.Assert(verifSameSnapshot(before, verifSnapshot(s)), "a rejected resume changed the session")
	if wasWaiting {
		verifLazyOutcomes = false // the retry only has to be accepted: fix the router outcome
		_, err := s.Resume(verifResume(0))
		zzverif.Assert(err == nil, "retrying with a msg resume after a rejection failed")
		zzverif.Cover("retry-accepted")
	}
}

// VerifC10_AssetFaults: a waiting session whose assets changed between
// sprints (flow deleted, waiting node deleted, node lost its router or its
// wait) cannot be resumed: every resume type ends it as failed with a
// failure event and every run exited — nil Go error, no panic.
// cover: flow-missing, node-gone, no-router, no-wait, parent-flow-missing, parent-node-gone
func VerifC10_AssetFaults() {
	sa := verifNewAssets()
	// F0: wait node, then a node entering F1; F1: one wait node
	child := zzverif.Choice("wait-in-child", 2) == 1
	var waitingFlow int
	if child {
		sa.add(verifBuildFlow(0, []verifNodeSpec{{kind: vkEnter, dests: [3]int{-1, -1, -1}, enter: 1}}))
		sa.add(verifBuildFlow(1, []verifNodeSpec{{kind: vkWaitTO, dests: [3]int{-1, -1, -1}, hasDef: true}}))
		waitingFlow = 1
	} else {
		sa.add(verifBuildFlow(0, []verifNodeSpec{{kind: vkWaitTO, dests: [3]int{-1, -1, -1}, hasDef: true}}))
	}
	verifLazyOutcomes = true
	eng := verifEngine(5, 10)
	sess, _, err := eng.NewSession(sa, verifManualTrigger(sa, verifContact(sa)))
	zzverif.Assert(err == nil && sess.Status() == flows.SessionStatusWaiting, "setup: session not waiting")
	s := sess.(*session)
	w := s.waitingRun()
	fault := zzverif.Choice("fault", 6)
	switch fault {
	case 0:
		zzverif.Cover("flow-missing")
		runs.VerifSetFlow(w, nil)
	case 1:
		zzverif.Cover("node-gone")
		runs.VerifSetFlow(w, verifBuildFlow(waitingFlow, []verifNodeSpec{}))
	case 2:
		zzverif.Cover("no-router")
		runs.VerifSetFlow(w, verifBuildFlow(waitingFlow, []verifNodeSpec{{kind: vkPlain, dests: [3]int{-1, -1, -1}, nexits: 1}}))
	case 3:
		zzverif.Cover("no-wait")
		runs.VerifSetFlow(w, verifBuildFlow(waitingFlow, []verifNodeSpec{{kind: vkSwitch, dests: [3]int{-1, -1, -1}, hasDef: true}}))
	case 4:
		// the waiting run is fine but its parent's flow is gone
		if !child {
			return
		}
		zzverif.Cover("parent-flow-missing")
		runs.VerifSetFlow(s.runs[0], nil)
	default:
		// the waiting run is fine, its parent's flow is still there, but the node the parent is paused on is gone
		if !child {
			return
		}
		zzverif.Cover("parent-node-gone")
		runs.VerifSetFlow(s.runs[0], verifFlowOf(0, verifPlainNodeWithActions(0, 5, -1)))
	}
	kind := zzverif.Choice("resume-type", 3)
	sp, err := s.Resume(verifResume(kind))
	zzverif.Assert(err == nil, "resuming against changed assets returned a Go error")
	if fault == 5 && kind == 0 {
		// the child leaves its wait and exits; its parent cannot be resumed
		zzverif.Assert(s.status == flows.SessionStatusFailed && verifHasFailure(sp), "a session whose parent run cannot be resumed (its node is gone) did not end as failed with a failure event")
	}
	if fault < 4 {
		zzverif.Assert(s.status == flows.SessionStatusFailed, "session whose resumption is impossible did not fail")
		zzverif.Assert(verifHasFailure(sp), "impossible resumption did not produce a failure event")
	}
	if s.status == flows.SessionStatusFailed {
		for _, r := range s.runs {
			zzverif.Assert(r.ExitedOn() != nil, "failed session has a run that has not exited")
		}
	}
	verifCheckC01Statuses(s)
}

// verifCheckC01Statuses: the status part of the C01 invariant.
func verifCheckC01Statuses(s *session) {
	zzverif.Assert(s.status == flows.SessionStatusWaiting || s.status == flows.SessionStatusCompleted || s.status == flows.SessionStatusFailed, "session left active")
	if s.status != flows.SessionStatusWaiting {
		for _, r := range s.runs {
			zzverif.Assert(r.Status() != flows.RunStatusActive && r.Status() != flows.RunStatusWaiting, "ended session has an active or waiting run")
		}
	}
}

var _ = definition.NewLocalization

// VerifC10_ResumeLimit: the "impossible resumption" clause for the resume
// limit: the harness of VerifC05_ResumeLimit (sessions with several runs whose
// waits count towards MaxResumesPerSession wherever they happened) — the
// resume that hits the limit ends the session as failed with a failure event
// and every run exited, with a nil Go error.
// cover: limit-reached, several-runs, limit-reached-across-runs
func VerifC10_ResumeLimit() {
	VerifC05_ResumeLimit()
}
