package engine

import (
	"github.com/nyaruka/gocommon/urns"
	"github.com/nyaruka/goflow/assets"
	"github.com/nyaruka/goflow/envs"
	"github.com/nyaruka/goflow/excellent/types"
	"github.com/nyaruka/goflow/flows"
	"github.com/nyaruka/goflow/flows/actions"
	"github.com/nyaruka/goflow/flows/events"
	"github.com/nyaruka/goflow/flows/resumes"
	"github.com/nyaruka/goflow/flows/triggers"
	"github.com/nyaruka/goflow/zzverif"
)

// verifSecretURN: a telegram URN whose path (4 digits) and display (2 letters)
// are arbitrary: the identifying part that redaction must hide.
//
// shape 0: path and display; 1: path, a query (as URNs loaded from a database
// carry: id, priority) and display; 2: path and query only
func verifSecretURN(name string, shape int) urns.URN {
	b := []byte("telegram:")
	for i := 0; i < 4; i++ {
		d := zzverif.Byte(name + "-path")
		zzverif.Assume(d >= '0' && d <= '9')
		b = append(b, d)
	}
	if shape > 0 {
		b = append(b, "?id=20121&priority=50"...)
	}
	if shape < 2 {
		b = append(b, '#')
		for i := 0; i < 2; i++ {
			d := zzverif.Byte(name + "-display")
			zzverif.Assume(d >= 'a' && d <= 'z')
			b = append(b, d)
		}
	}
	return urns.URN(string(b))
}

// verifWalkContext renders everything reachable from an expression context
// value down to the given depth: canonical text, pretty text, every
// property, every array item.
func verifWalkContext(env envs.Environment, path string, v types.XValue, depth int, out *[]string) {
	if types.IsNil(v) {
		*out = append(*out, path+" = nil")
		return
	}
	*out = append(*out, path+" render: "+types.Render(v), path+" format: "+types.Format(env, v))
	if depth == 0 {
		return
	}
	switch t := v.(type) {
	case *types.XObject:
		for _, k := range t.Properties() {
			val, _ := t.Get(k)
			verifWalkContext(env, path+"."+k, val, depth-1, out)
		}
		if d := t.Default(); d != t {
			verifWalkContext(env, path+".__default__", d, depth-1, out)
		}
	case *types.XArray:
		for i := 0; i < t.Count(); i++ {
			verifWalkContext(env, path+"["+string(rune('0'+i))+"]", t.Get(i), depth-1, out)
		}
	}
}

// the expression context is walked to depth 3 (quick) / 5 (thorough)
func verifC19Depth() int {
	if zzverif.Thorough() {
		return 5
	}
	return 3
}

// verifC19Run builds and runs one session whose contact and messages carry
// the given URN, and returns the rendering of its whole expression context
// after the start and after one msg resume.
func verifC19Run(policy envs.RedactionPolicy, urn urns.URN, named bool) []string {
	return verifC19RunRefreshed(policy, urn, named, false)
}

// the texts of the messages a sprint created (evaluated templates)
func verifC19Messages(sp flows.Sprint) []string {
	var out []string
	for _, e := range sp.Events() {
		if mc, ok := e.(*events.MsgCreatedEvent); ok {
			out = append(out, "msg: "+mc.Msg.Text())
		}
	}
	zzverif.Assert(len(out) > 0, "setup: no message was sent after the wait")
	return out
}

// with redactOnResume the session starts under the given policy and the
// resume carries a refreshed environment with the URN redaction policy; only
// what is reachable after the resume is returned
func verifC19RunRefreshed(policy envs.RedactionPolicy, urn urns.URN, named bool, redactOnResume bool) []string {
	zzverif.ResetEnv()
	sa := verifNewAssets()
	// F0 enters F1; F1 saves a result from the input and waits; so the waiting
	// run has a parent, the parent has a child, and input/results are populated
	sa.add(verifBuildFlow(0, []verifNodeSpec{{kind: vkEnter, dests: [3]int{-1, -1, -1}, enter: 1}}))
	// … and after the wait sends a message built from everything URN related
	wait := verifBuildNode(1, 1, verifNodeSpec{kind: vkWait, dests: [3]int{2, 2, 2}, hasDef: true})
	first := verifPlainNodeWithActions(1, 0, 1, actions.NewSetRunResult("r1", "Who", "x", ""))
	last := verifPlainNodeWithActions(1, 2, -1, actions.NewSendMsg("m9", "to @contact @contact.urn @urns.telegram @input.urn @(format_urn(contact.urn)) @(urn_parts(contact.urn).path) @parent.contact.urn", nil, nil, false))
	sa.add(verifFlowOf(1, first, wait, last))
	verifLazyOutcomes = false
	verifOutcomes, verifOutcomePos = nil, 0
	env := envs.NewBuilder().WithRedactionPolicy(policy).Build()
	name := ""
	if named {
		name = "Bob"
	}
	contact := flows.NewEmptyContact(sa, name, "eng", nil)
	contact.AddURN(urn, nil)
	msg := flows.NewMsgIn("msg1", urn, nil, "hello", nil)
	trig := triggers.NewBuilder(env, assets.NewFlowReference(verifFlowUUID(0), "F0"), contact).Msg(msg).Build()
	sess, _, err := verifEngine(10, 10).NewSession(sa, trig)
	zzverif.Assert(err == nil && sess.Status() == flows.SessionStatusWaiting, "setup: session not waiting")
	var out []string
	menv := sess.MergedEnvironment()
	verifWalkContext(menv, "@start", sess.CurrentContext(), verifC19Depth(), &out)
	if redactOnResume {
		renv := envs.NewBuilder().WithRedactionPolicy(envs.RedactionPolicyURNs).Build()
		sp, err := sess.Resume(resumes.NewMsg(renv, nil, flows.NewMsgIn(flows.MsgUUID("msg2"), urn, nil, "again", nil)))
		zzverif.Assert(err == nil, "setup: resume failed")
		out = nil
		verifWalkContext(sess.MergedEnvironment(), "@resumed", sess.CurrentContext(), verifC19Depth(), &out)
		return append(out, verifC19Messages(sp)...)
	}
	sp, err := sess.Resume(verifResumeMsg(urn))
	zzverif.Assert(err == nil, "setup: resume failed")
	verifWalkContext(menv, "@resumed", sess.CurrentContext(), verifC19Depth(), &out)
	return append(out, verifC19Messages(sp)...)
}

// VerifC19_Context: two sessions that differ only in the path and display of
// the contact's / messages' URN: under the URN redaction policy every
// rendering reachable from the expression context (depth 3: contact, urns,
// fields, input, parent, child, run, trigger, resume, results, node, …) is
// equal for every pair of secrets; without the policy a difference is
// reachable (non-vacuity witness).
// cover: redacted-equal, unredacted-differs, unnamed-contact, redaction-switched-on-at-resume, urn-with-query-and-display
func VerifC19_Context() {
	zzverif.Unwind(4000) // the comparison loops below run once per rendered value
	shape := zzverif.Choice("urn-shape", 3)
	if shape == 1 {
		zzverif.Cover("urn-with-query-and-display")
	}
	a, b := verifSecretURN("secret-a", shape), verifSecretURN("secret-b", shape)
	named := zzverif.Choice("contact-has-name", 2) == 1
	if !named {
		zzverif.Cover("unnamed-contact")
	}
	policy := zzverif.Choice("policy", 3)
	if policy == 2 {
		// redaction switched on by an environment refresh while the session is waiting
		zzverif.Cover("redaction-switched-on-at-resume")
		ra := verifC19RunRefreshed(envs.RedactionPolicyNone, a, named, true)
		rb := verifC19RunRefreshed(envs.RedactionPolicyNone, b, named, true)
		zzverif.Assert(len(ra) == len(rb), "redacted contexts have different shapes")
		for i := range ra {
			zzverif.Assert(ra[i] == rb[i], "a value reachable from the expression context depends on the redacted URN")
		}
		return
	}
	if policy == 0 {
		ra := verifC19Run(envs.RedactionPolicyURNs, a, named)
		rb := verifC19Run(envs.RedactionPolicyURNs, b, named)
		zzverif.Assert(len(ra) == len(rb), "redacted contexts have different shapes")
		for i := range ra {
			zzverif.Assert(ra[i] == rb[i], "a value reachable from the expression context depends on the redacted URN")
		}
		zzverif.Cover("redacted-equal")
		return
	}
	ra := verifC19Run(envs.RedactionPolicyNone, a, named)
	rb := verifC19Run(envs.RedactionPolicyNone, b, named)
	// without the policy the same expressions do see the URNs: it suffices
	// that some rendering can differ
	for i := range ra {
		if i < len(rb) && ra[i] != rb[i] {
			zzverif.Cover("unredacted-differs")
			zzverif.Note("differs without redaction: ", ra[i], " / ", rb[i])
			return
		}
	}
}
