package engine

import (
	"strings"
	"unicode/utf8"

	"github.com/nyaruka/goflow/assets"
	"github.com/nyaruka/goflow/envs"
	"github.com/nyaruka/goflow/flows"
	"github.com/nyaruka/goflow/flows/actions"
	"github.com/nyaruka/goflow/flows/definition"
	"github.com/nyaruka/goflow/flows/events"
	"github.com/nyaruka/goflow/flows/triggers"
	"github.com/nyaruka/goflow/zzverif"
)

func verifPathLens(s *session) map[flows.RunUUID]int {
	m := map[flows.RunUUID]int{}
	for _, r := range s.runs {
		m[r.UUID()] = len(r.Path())
	}
	return m
}

// verifCheckStepLimit: a sprint created at most max steps; if it ended the
// session as failed there is a failure event and every run has exited.
func verifCheckStepLimit(s *session, sp flows.Sprint, before map[flows.RunUUID]int, max int) {
	steps := 0
	for _, r := range s.runs {
		steps += len(r.Path()) - before[r.UUID()]
	}
	zzverif.Assert(steps <= max, "a sprint created more steps than MaxStepsPerSprint")
	if steps == max {
		zzverif.Cover("at-limit")
	}
	failure := false
	for _, e := range sp.Events() {
		if e.Type() == events.TypeFailure {
			failure = true
		}
	}
	// "hitting the limit ends the session as failed with a failure event": a
	// sprint that carries a failure event (the step limit's included) leaves
	// the session failed, whichever run the failure stopped
	zzverif.Assert(!failure || s.status == flows.SessionStatusFailed, "a sprint carries a failure event but the session did not end as failed")
	if s.status == flows.SessionStatusFailed {
		zzverif.Assert(failure, "session failed without a failure event")
		for _, r := range s.runs {
			zzverif.Assert(r.ExitedOn() != nil, "session failed but a run has not exited")
		}
		zzverif.Cover("failed-with-event")
	}
}

// VerifC05_StepLimit: for every flow graph within the bounds (self loops,
// A enters B enters A, terminal loops, default routes back to themselves),
// every MaxStepsPerSprint in [1,4] and every resume, an engine call returns
// without a Go error, creates at most the configured number of steps, and a
// session it fails carries a failure event with every run exited.
// hang: violation
// cover: at-limit, failed-with-event, resumed
func VerifC05_StepLimit() {
	counts, hi := []int{1, 1}, 3
	if zzverif.Thorough() {
		counts, hi = []int{2, 1}, 4
	}
	max := zzverif.Int("max-steps", 1, hi)
	sa := verifNewAssets()
	verifSymbolicFlows(sa, counts)
	verifLazyOutcomes = true
	eng := verifEngine(max, 10)
	contact := verifContact(sa)
	sess, sp, err := eng.NewSession(sa, verifTrigger(sa, contact))
	zzverif.Assert(err == nil, "starting a session over loadable flows returned a Go error")
	s := sess.(*session)
	verifCheckStepLimit(s, sp, map[flows.RunUUID]int{}, max)
	if s.status != flows.SessionStatusWaiting {
		return
	}
	before := verifPathLens(s)
	sp, err = s.Resume(verifResume(zzverif.Choice("resume-type", 3)))
	if err != nil {
		_, isEngineErr := err.(*Error)
		zzverif.Assert(isEngineErr, "resume returned a Go error that is not an engine error")
		return
	}
	zzverif.Cover("resumed")
	verifCheckStepLimit(s, sp, before, max)
}

// VerifC05_ResumeLimit: with MaxResumesPerSession = R a session is never
// successfully resumed more than R times; the resume that hits the limit ends
// the session as failed with a failure event and every run exited, with a nil
// Go error.
// hang: violation
// cover: limit-reached, R=0, R=2, resumed-twice, several-runs, limit-reached-across-runs
func VerifC05_ResumeLimit() {
	maxR := 3
	if zzverif.Thorough() {
		maxR = 4
	}
	r := zzverif.Choice("max-resumes", maxR+1)
	sa := verifNewAssets()
	if zzverif.Choice("waits-spread-over-runs", 2) == 0 {
		// one run: a wait node whose every exit may lead back to itself or to a second wait node
		specs := []verifNodeSpec{{kind: vkWait, hasDef: true}, {kind: zzverif.Choice("second-node-kind", 2) + vkWait, hasDef: true}}
		sa.add(verifBuildLazyFlow(0, specs))
	} else {
		// waits spread over many short-lived runs: arbitrary two-node flows that
		// may enter each other or themselves (terminal or not) around their waits
		zzverif.Cover("several-runs")
		zzverif.Assume(r >= 1 && r <= 2)
		counts := []int{1, 1}
		if zzverif.Thorough() {
			counts = []int{2, 1}
		}
		verifSymbolicFlows(sa, counts)
	}
	verifLazyOutcomes = true
	eng := verifEngine(5, r)
	sess, _, err := eng.NewSession(sa, verifManualTrigger(sa, verifContact(sa)))
	zzverif.Assert(err == nil, "NewSession failed")
	s := sess.(*session)
	accepted := 0
	for k := 0; k <= maxR+1; k++ {
		if s.status != flows.SessionStatusWaiting {
			return
		}
		sp, err := s.Resume(verifResume(0))
		zzverif.Assert(err == nil, "msg resume of a msg wait returned an error")
		limitHit := false
		for _, e := range sp.Events() {
			if f, ok := e.(*events.FailureEvent); ok && strings.Contains(f.Text, "maximum number of resumes") {
				limitHit = true
			}
		}
		if limitHit {
			zzverif.Cover("limit-reached")
			if len(s.runs) > 1 {
				zzverif.Cover("limit-reached-across-runs")
			}
			if r == 0 {
				zzverif.Cover("R=0")
			}
			if r == 2 {
				zzverif.Cover("R=2")
			}
			zzverif.Assert(s.status == flows.SessionStatusFailed, "resume limit reached but the session did not fail")
			for _, run := range s.runs {
				zzverif.Assert(run.ExitedOn() != nil, "resume limit reached but a run has not exited")
			}
			return
		}
		accepted++
		if accepted == 2 {
			zzverif.Cover("resumed-twice")
		}
		zzverif.Assert(accepted <= r, "session resumed more often than MaxResumesPerSession")
	}
	zzverif.Assert(s.status != flows.SessionStatusWaiting || accepted <= r, "session still resumable beyond the limit")
}

// verifLongText returns a text of exactly n bytes: a concrete filler followed
// by `tail` arbitrary bytes (valid or invalid UTF-8, no NUL, no '@' so that the
// template is expression-free).
func verifLongText(name string, n, tail int) string {
	if tail > n {
		tail = n
	}
	b := []byte(strings.Repeat("a", n-tail))
	t := zzverif.BytesN(name, tail)
	for _, c := range t {
		zzverif.Assume(c != 0 && c != '@')
	}
	return string(append(b, t...))
}

func verifOneNodeFlow(sa *verifAssets, acts ...flows.Action) {
	node := definition.NewNode("f0n0", acts, nil, []flows.Exit{definition.NewExit("f0n0e0", "")})
	f, err := definition.NewFlow(verifFlowUUID(0), "F0", "eng", flows.FlowTypeMessaging, 1, 10, definition.NewLocalization(), []flows.Node{node}, nil, nil)
	zzverif.Assert(err == nil, "flow did not validate")
	sa.add(f)
}

// VerifC05_ResultTruncation: a run result value evaluated from arbitrary
// expression-free text never exceeds MaxResultChars characters, for every
// limit in [0,3] and every text up to 2 bytes beyond it, with arbitrary
// (multi-byte, invalid) bytes at the cut; no panic.
// cover: truncated, not-truncated, multibyte-at-cut
func VerifC05_ResultTruncation() {
	limit := zzverif.Choice("max-result-chars", 4)
	n := limit + 1 + zzverif.Choice("excess", 2)
	text := verifLongText("value", n, 3)
	sa := verifNewAssets()
	verifOneNodeFlow(sa, actions.NewSetRunResult("a1", "Res", text, ""))
	eng := NewBuilder().WithMaxResultChars(limit).Build()
	sess, _, err := eng.NewSession(sa, verifManualTrigger(sa, verifContact(sa)))
	zzverif.Assert(err == nil, "NewSession failed")
	res := sess.Runs()[0].Results().Get("res")
	zzverif.Assert(res != nil, "result not saved")
	got := utf8.RuneCountInString(res.Value)
	zzverif.Assert(got <= limit, "saved result value is longer than MaxResultChars")
	if res.Value != text {
		zzverif.Cover("truncated")
	} else {
		zzverif.Cover("not-truncated")
	}
	if len(text) > utf8.RuneCountInString(text) {
		zzverif.Cover("multibyte-at-cut")
	}
}

// VerifC05_NameTruncation: the contact name set by a flow never exceeds
// MaxFieldChars characters (limits 0..3, text up to 2 bytes beyond, arbitrary
// bytes at the cut).
// cover: name-set, truncated
func VerifC05_NameTruncation() {
	limit := zzverif.Choice("max-field-chars", 4)
	n := limit + zzverif.Choice("excess", 3)
	name := verifLongText("name", n, 3)
	sa := verifNewAssets()
	verifOneNodeFlow(sa, actions.NewSetContactName("a1", name))
	eng := NewBuilder().WithMaxFieldChars(limit).Build()
	sess, _, err := eng.NewSession(sa, verifManualTrigger(sa, flows.NewEmptyContact(sa, "", "eng", nil)))
	zzverif.Assert(err == nil, "NewSession failed")
	zzverif.Assert(utf8.RuneCountInString(sess.Contact().Name()) <= limit, "contact name is longer than MaxFieldChars")
	zzverif.Cover("name-set")
	if sess.Contact().Name() != strings.TrimSpace(name) {
		zzverif.Cover("truncated")
	}
}

// VerifC05_MsgTextTruncation: evaluated message text and quick replies never
// exceed MaxTemplateChars characters, for every limit in [0,5], whether the
// template is plain text, contains an evaluated expression, or contains an
// expression that fails to evaluate (the rest of the template is still
// produced); no panic.
// cover: msg-created, truncated, evaluated-expression, failing-expression
func VerifC05_MsgTextTruncation() {
	limit := zzverif.Choice("max-template-chars", 6)
	n := limit + zzverif.Choice("excess", 3)
	text := verifLongText("text", n, 3)
	tpl := text
	switch zzverif.Choice("template-shape", 3) {
	case 1:
		tpl = "@contact.name " + text
		zzverif.Cover("evaluated-expression")
	case 2:
		tpl = "@(1 / 0) " + text
		zzverif.Cover("failing-expression")
	}
	sa := verifNewAssets()
	verifOneNodeFlow(sa, actions.NewSendMsg("a2", tpl, nil, []string{tpl}, false))
	eng := NewBuilder().WithMaxTemplateChars(limit).Build()
	sess, sp, err := eng.NewSession(sa, verifManualTrigger(sa, verifContact(sa)))
	zzverif.Assert(err == nil && sess != nil, "NewSession failed")
	for _, e := range sp.Events() {
		if mc, ok := e.(*events.MsgCreatedEvent); ok {
			zzverif.Cover("msg-created")
			zzverif.Assert(utf8.RuneCountInString(mc.Msg.Text()) <= limit, "message text is longer than MaxTemplateChars")
			for _, q := range mc.Msg.QuickReplies() {
				zzverif.Assert(utf8.RuneCountInString(q) <= limit, "quick reply is longer than MaxTemplateChars")
			}
			if mc.Msg.Text() != tpl {
				zzverif.Cover("truncated")
			}
		}
	}
}

// VerifC05_QuickReplyTruncation: quick replies never exceed 64 characters
// (text of 63..66 bytes with arbitrary bytes at the cut).
// cover: msg-created, broadcast-created, truncated, not-truncated
func VerifC05_QuickReplyTruncation() {
	qr := verifLongText("qr", 63+zzverif.Choice("qr-excess", 4), 3)
	sa := verifNewAssets()
	// the quick reply of a message to the contact, or of a broadcast to others
	if zzverif.Choice("broadcast", 2) == 1 {
		verifOneNodeFlow(sa, actions.NewSendBroadcast("a2", "hi", nil, []string{qr}, nil, []*flows.ContactReference{flows.NewContactReference("5d76d86b-3bb9-4d5a-b822-c9d86f5d8e4f", "Ann")}, "", nil, nil))
	} else {
		verifOneNodeFlow(sa, actions.NewSendMsg("a2", "hi", nil, []string{qr}, false))
	}
	eng := NewBuilder().Build()
	_, sp, err := eng.NewSession(sa, verifManualTrigger(sa, verifContact(sa)))
	zzverif.Assert(err == nil, "NewSession failed")
	for _, e := range sp.Events() {
		if mc, ok := e.(*events.MsgCreatedEvent); ok {
			zzverif.Cover("msg-created")
			for _, q := range mc.Msg.QuickReplies() {
				zzverif.Assert(utf8.RuneCountInString(q) <= flows.MaxQuickReplyLength, "quick reply is longer than the limit")
				if q != qr {
					zzverif.Cover("truncated")
				} else {
					zzverif.Cover("not-truncated")
				}
			}
		}
		if bc, ok := e.(*events.BroadcastCreatedEvent); ok {
			zzverif.Cover("broadcast-created")
			for _, tr := range bc.Translations {
				for _, q := range tr.QuickReplies {
					zzverif.Assert(utf8.RuneCountInString(q) <= flows.MaxQuickReplyLength, "quick reply of a broadcast is longer than the limit")
				}
			}
		}
	}
}

var _ = assets.NewFlowReference
var _ = envs.NewBuilder
var _ = triggers.NewBuilder

// VerifC05_AttachmentLimit: an evaluated attachment (content type, colon,
// URL) longer than MaxAttachmentLength (2048) is skipped with an error event
// and never sent: content types of 9 and 40 characters, totals of 2046..2052
// bytes with arbitrary bytes at the end.
// cover: sent, skipped, at-limit
func VerifC05_AttachmentLimit() {
	ctype := []string{"image/png", "application/vnd.openxmlformats-officedoc"}[zzverif.Choice("content-type", 2)]
	total := 2046 + zzverif.Choice("total-length", 7)
	tail := zzverif.BytesN("url-end", 2)
	for _, c := range tail {
		zzverif.Assume(c > ' ' && c < 0x7f && c != '@')
	}
	att := ctype + ":http://x/" + strings.Repeat("a", total-len(ctype)-len(":http://x/")-len(tail)) + string(tail)
	zzverif.Assert(len(att) == total, "setup: attachment length")
	sa := verifNewAssets()
	verifOneNodeFlow(sa, actions.NewSendMsg("a2", "hi", []string{att}, nil, false))
	_, sp, err := NewBuilder().Build().NewSession(sa, verifManualTrigger(sa, verifContact(sa)))
	zzverif.Assert(err == nil, "NewSession failed")
	sent, errors := 0, 0
	for _, e := range sp.Events() {
		switch t := e.(type) {
		case *events.MsgCreatedEvent:
			for _, a := range t.Msg.Attachments() {
				sent++
				zzverif.Assert(len(a) <= flows.MaxAttachmentLength, "an attachment longer than the limit was sent")
			}
		case *events.ErrorEvent:
			errors++
		}
	}
	if total > flows.MaxAttachmentLength {
		zzverif.Cover("skipped")
		zzverif.Assert(sent == 0 && errors == 1, "an over-long attachment was not skipped with an error event")
	} else {
		zzverif.Cover("sent")
		zzverif.Assert(sent == 1 && errors == 0, "an attachment within the limit was not sent")
		if total == flows.MaxAttachmentLength {
			zzverif.Cover("at-limit")
		}
	}
}
