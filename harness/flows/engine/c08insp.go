package engine

import (
	"github.com/nyaruka/goflow/assets"
	"github.com/nyaruka/goflow/envs"
	"github.com/nyaruka/goflow/flows"
	"github.com/nyaruka/goflow/flows/actions"
	"github.com/nyaruka/goflow/flows/definition"
	"github.com/nyaruka/goflow/flows/routers"
	"github.com/nyaruka/goflow/zzverif"
)

// VerifC08_Inspect: the inspection of one flow definition (the real
// reflection walk, dependencies, merged result specs, issues, waiting exits,
// parent references) marshals to the same JSON on every execution whatever
// the iteration order of the maps involved: a flow translated into two
// languages whose two nodes save the same result with overlapping category
// lists of arbitrary lengths (the second node adding up to three new ones),
// actions with asset dependencies (one of them missing) and templates that
// refer to fields, globals and the parent run.
// cover: categories-merged, two-new-categories, missing-dependency, two-issue-types-on-one-node
func VerifC08_Inspect() {
	env := envs.NewBuilder().WithAllowedLanguages("eng", "spa", "fra").Build()
	sa := verifNewAssets()
	sa.fields = flows.NewFieldAssets([]assets.Field{&verifFieldAsset{"gender", assets.FieldTypeText}})
	sa.globals = flows.NewGlobalAssets([]assets.Global{&verifGlobal{"org_name", "Nyaruka"}})
	sa.groups, _ = flows.VerifGroupAssets(env, sa.fields, flows.VerifStaticGroup("b0000000-0000-4000-8000-000000000001", "Testers"))
	names := []string{"Red", "Green", "Blue", "Yellow", "Pink"}
	n1 := 1 + zzverif.Choice("first-node-categories", 2)
	extra := zzverif.Choice("second-node-new-categories", 4)
	build := func() flows.Flow {
		loc := definition.NewLocalization()
		loc.SetItemTranslation("spa", "a1", "text", []string{"hola @fields.gender @parent.fields.age"})
		loc.SetItemTranslation("fra", "a1", "text", []string{"salut @globals.org_name @fields.missing"})
		loc.SetItemTranslation("fra", "a1", "quick_replies", []string{"@globals.other", "oui"})
		router := func(node int, from, to int) (flows.Router, []flows.Exit) {
			var cats []flows.Category
			var exits []flows.Exit
			for k := from; k < to; k++ {
				e := verifExitUUID(node, 1, k)
				cats = append(cats, routers.NewCategory(flows.CategoryUUID("c"+names[k]+string(rune('0'+node))), names[k], e))
				exits = append(exits, definition.NewExit(e, ""))
			}
			return routers.NewSwitch(nil, "Color", cats, "@input.text", nil, cats[0].UUID()), exits
		}
		r0, e0 := router(0, 0, n1)
		r1, e1 := router(1, n1-1, n1+extra) // overlaps the first node's last category
		node0 := definition.NewNode(verifNodeUUID(0, 0), []flows.Action{
			actions.NewSendMsg("a1", "hi @fields.gender @globals.org_name", nil, []string{"yes", "@fields.gender"}, false),
			actions.NewAddContactGroups("a2", []*assets.GroupReference{assets.NewGroupReference("b0000000-0000-4000-8000-000000000001", "Testers"), assets.NewGroupReference("b0000000-0000-4000-8000-000000000009", "Gone")}),
			actions.NewSetContactField("a3", assets.NewFieldReference("gender", "Gender"), "@parent.results.x"),
			// a second kind of issue on the same node as the missing dependency: legacy variables
			actions.NewStartSession("a5", assets.NewFlowReference(verifFlowUUID(0), "F0"), nil, nil, "", nil, []string{"@contact.groups"}, false),
		}, r0, e0)
		node1 := definition.NewNode(verifNodeUUID(0, 1), []flows.Action{actions.NewSetRunResult("a4", "Color", "x", "Pink")}, r1, e1)
		f, err := definition.NewFlow(verifFlowUUID(0), "F0", "eng", flows.FlowTypeMessaging, 1, 10, loc, []flows.Node{node0, node1}, nil, nil)
		zzverif.Assert(err == nil, "setup: flow did not validate")
		return f
	}
	if extra >= 2 {
		zzverif.Cover("two-new-categories")
	}
	first := verifMarshal(build().Inspect(sa))
	zzverif.SymbolicMapOrder(true)
	// natively Go randomises every range itself: repeat the second execution
	repeats := 1
	if !zzverif.Symbolic() {
		repeats = 300
	}
	for n := 0; n < repeats; n++ {
		zzverif.Assert(verifMarshal(build().Inspect(sa)) == first, "inspecting the same definition gives different output on different executions")
	}
	zzverif.SymbolicMapOrder(false)
	insp := build().Inspect(sa)
	for _, r := range insp.Results {
		if len(r.NodeUUIDs) > 1 {
			zzverif.Cover("categories-merged")
		}
	}
	types := map[string]bool{}
	for _, is := range insp.Issues {
		if is.NodeUUID() == verifNodeUUID(0, 0) {
			types[is.Type()] = true
		}
	}
	if len(types) >= 2 {
		zzverif.Cover("two-issue-types-on-one-node")
	}
	for _, d := range insp.Dependencies {
		if d.Missing() {
			zzverif.Cover("missing-dependency")
		}
	}
}
