package engine

import (
	"math/rand"

	"github.com/nyaruka/gocommon/random"
	"github.com/nyaruka/goflow/flows"
	"github.com/nyaruka/goflow/flows/definition"
	"github.com/nyaruka/goflow/flows/routers"
	"github.com/nyaruka/goflow/zzverif"
)

// verifSource is a random source whose every draw is the same 63-bit number
type verifSource struct{ v int64 }

func (s *verifSource) Int63() int64    { return s.v }
func (s *verifSource) Seed(seed int64) {}

// VerifC07_Random: a random router with n = 1..5 categories and a draw
// r = m / 2^53 for m at the bucket boundaries k·2^53/n (k = 0..n, each with
// its two neighbours, where they are draws at all) and at both ends of the
// unit interval: the router's draw r is the decimal it records as the operand
// (the shortest decimal reading back as that float); the run leaves by the
// exit of category floor(r·n) — decided here in integer arithmetic on r's
// digits — and saves that category.
// cover: first-bucket, last-bucket, on-boundary, below-boundary, result-saved
func VerifC07_Random() {
	n := 1 + zzverif.Choice("categories", 5)
	k := zzverif.Choice("boundary", n+1)
	off := zzverif.Choice("offset", 3) - 1
	const unit = int64(1) << 53
	// the smallest draw m with m·n >= k·2^53, i.e. the first draw of bucket k
	m := (int64(k)*unit + int64(n) - 1) / int64(n)
	m += int64(off)
	zzverif.Assume(m >= 0 && m < unit)
	var cats []flows.Category
	var exits []flows.Exit
	for c := 0; c < n; c++ {
		cats = append(cats, routers.NewCategory(flows.CategoryUUID("c"+string(rune('0'+c))), "Bucket "+string(rune('0'+c)), flows.ExitUUID("e"+string(rune('0'+c)))))
		exits = append(exits, definition.NewExit(flows.ExitUUID("e"+string(rune('0'+c))), ""))
	}
	n0 := definition.NewNode("f0n0", nil, routers.NewRandom(nil, "Draw", cats), exits)
	f, err := definition.NewFlow(verifFlowUUID(0), "F0", "eng", flows.FlowTypeMessaging, 1, 10, definition.NewLocalization(), []flows.Node{n0}, nil, nil)
	zzverif.Assert(err == nil, "flow did not validate")
	sa := verifNewAssets()
	sa.add(f)
	random.SetGenerator(rand.New(&verifSource{m << 10})) // Float64 is float64(Int63()) / 2^63
	sess, _, err := verifEngine(10, 10).NewSession(sa, verifManualTrigger(sa, verifContact(sa)))
	random.SetGenerator(random.DefaultGenerator)
	zzverif.Assert(err == nil, "NewSession failed")

	// the draw is the decimal the router saw — the shortest decimal that reads
	// back as the float m / 2^53 — which it records as the operand
	res := sess.Runs()[0].Results().Get("draw")
	zzverif.Assert(res != nil, "random router with a result name saved no result")
	digits, scale := int64(0), int64(1)
	seenPoint := false
	for i := 0; i < len(res.Input); i++ {
		c := res.Input[i]
		if c == '.' {
			seenPoint = true
			continue
		}
		zzverif.Assert(c >= '0' && c <= '9', "the recorded draw is not a plain decimal")
		if scale == 1000000000000000000 {
			// (a draw with more than 18 fraction digits is below 0.1 — it has 17
			// significant digits — so the digits dropped here cannot move floor(r·n))
			continue
		}
		digits = digits*10 + int64(c-'0')
		if seenPoint {
			scale *= 10
		}
	}
	zzverif.Assert(digits < scale, "the recorded draw is not below 1")
	want := int(digits * int64(n) / scale) // floor(r·n): n <= 5, digits < 10^18
	if want == 0 {
		zzverif.Cover("first-bucket")
	}
	if want == n-1 {
		zzverif.Cover("last-bucket")
	}
	if off == 0 && k > 0 && k < n {
		zzverif.Cover("on-boundary")
	}
	if off < 0 {
		zzverif.Cover("below-boundary")
	}
	step := sess.Runs()[0].Path()[0]
	zzverif.Assert(step.ExitUUID() == flows.ExitUUID("e"+string(rune('0'+want))), "random router did not leave by the exit of category floor(r*n)")
	zzverif.Assert(res.Category == "Bucket "+string(rune('0'+want)), "random router did not save the category floor(r*n)")
	zzverif.Cover("result-saved")
}
