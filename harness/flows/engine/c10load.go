package engine

import (
	"encoding/json"
	"errors"

	"github.com/nyaruka/goflow/assets"
	"github.com/nyaruka/goflow/flows"
	"github.com/nyaruka/goflow/flows/definition"
	"github.com/nyaruka/goflow/zzverif"
)

type verifFlowDef struct {
	uuid assets.FlowUUID
	def  string
}

func (f *verifFlowDef) UUID() assets.FlowUUID       { return f.uuid }
func (f *verifFlowDef) Name() string                { return "F0" }
func (f *verifFlowDef) Definition() json.RawMessage { return json.RawMessage(f.def) }

// verifFlowStore is an asset store which only has flows
type verifFlowStore struct {
	assets.Source
	flows []*verifFlowDef
}

func (s *verifFlowStore) FlowByUUID(uuid assets.FlowUUID) (assets.Flow, error) {
	for _, f := range s.flows {
		if f.uuid == uuid {
			return f, nil
		}
	}
	return nil, errors.New("no such flow")
}

func (s *verifFlowStore) FlowByName(name string) (assets.Flow, error) {
	for _, f := range s.flows {
		if f.Name() == name {
			return f, nil
		}
	}
	return nil, errors.New("no such flow")
}

func verifWaitFlowJSON(version string, exitDestination string) string {
	dest := ""
	if exitDestination != "" {
		dest = `,"destination_uuid":"` + exitDestination + `"`
	}
	return `{"uuid":"` + string(verifFlowUUID(0)) + `","name":"F0","spec_version":"` + version + `","language":"eng","type":"messaging","nodes":[{"uuid":"` + string(verifNodeUUID(0, 0)) +
		`","router":{"type":"switch","wait":{"type":"msg"},"operand":"@input.text","categories":[{"uuid":"` + verifID('c', 0, 0, 0) + `","name":"All","exit_uuid":"` + string(verifExitUUID(0, 0, 0)) +
		`"}],"default_category_uuid":"` + verifID('c', 0, 0, 0) + `","cases":[]},"exits":[{"uuid":"` + string(verifExitUUID(0, 0, 0)) + `"` + dest + `}]}]}`
}

// VerifC10_UnloadableFlow: the flows come from the real flow assets
// (definition.NewFlowAssets: JSON definitions from an asset store, read and
// cached on demand). A session waits, is marshalled, and is read back against
// a store in which its flow has since become unusable — deleted, saved by a
// newer engine (spec version 99), with an exit pointing at a node that is
// gone, or no longer a JSON object: every resume type ends the session as
// failed with a failure event and every run exited — nil Go error, no panic —
// and an untouched store resumes normally.
// cover: flow-deleted, newer-spec-version, dangling-exit, not-an-object, untouched
func VerifC10_UnloadableFlow() {
	current := definition.CurrentSpecVersion.String()
	good := verifWaitFlowJSON(current, "")
	sa := verifNewAssets()
	sa.realFlows = definition.NewFlowAssets(&verifFlowStore{flows: []*verifFlowDef{{verifFlowUUID(0), good}}}, nil)
	eng := verifEngine(5, 10)
	sess, _, err := eng.NewSession(sa, verifManualTrigger(sa, verifContact(sa)))
	zzverif.Assert(err == nil && sess.Status() == flows.SessionStatusWaiting, "setup: session not waiting")
	m := verifMarshal(sess)

	store := &verifFlowStore{}
	fault := zzverif.Choice("fault", 5)
	switch fault {
	case 0:
		zzverif.Cover("flow-deleted")
	case 1:
		zzverif.Cover("newer-spec-version")
		store.flows = []*verifFlowDef{{verifFlowUUID(0), verifWaitFlowJSON("99.0.0", "")}}
	case 2:
		zzverif.Cover("dangling-exit")
		store.flows = []*verifFlowDef{{verifFlowUUID(0), verifWaitFlowJSON(current, string(verifNodeUUID(0, 7)))}}
	case 3:
		zzverif.Cover("not-an-object")
		store.flows = []*verifFlowDef{{verifFlowUUID(0), `[]`}}
	default:
		zzverif.Cover("untouched")
		store.flows = []*verifFlowDef{{verifFlowUUID(0), good}}
	}
	sa2 := verifNewAssets()
	sa2.realFlows = definition.NewFlowAssets(store, nil)
	restored, err := eng.ReadSession(sa2, []byte(m), func(assets.Reference, error) {})
	zzverif.Assert(err == nil, "a session whose flow is missing could not be read back")
	s := restored.(*session)
	resume := verifResumeText("hi")
	if fault < 4 {
		// (an untouched flow only accepts what its wait accepts: a message)
		if kind := zzverif.Choice("resume-type", 3); kind > 0 {
			resume = verifResume(kind)
		}
	}
	sp, err := s.Resume(resume)
	zzverif.Assert(err == nil, "resuming against changed assets returned a Go error")
	if fault < 4 {
		zzverif.Assert(s.status == flows.SessionStatusFailed, "a session whose flow can no longer be loaded did not fail")
		zzverif.Assert(verifHasFailure(sp), "impossible resumption did not produce a failure event")
		for _, r := range s.runs {
			zzverif.Assert(r.ExitedOn() != nil, "failed session has a run that has not exited")
		}
	} else {
		zzverif.Assert(s.status == flows.SessionStatusCompleted, "a session whose assets did not change did not resume normally after a restart")
	}
	verifCheckC01Statuses(s)
}
