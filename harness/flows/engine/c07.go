package engine

import (
	"github.com/nyaruka/gocommon/i18n"
	"github.com/nyaruka/gocommon/uuids"
	"github.com/nyaruka/goflow/assets"
	"github.com/nyaruka/goflow/envs"
	"github.com/nyaruka/goflow/excellent/types"
	"github.com/nyaruka/goflow/flows"
	"github.com/nyaruka/goflow/flows/actions"
	"github.com/nyaruka/goflow/flows/definition"
	"github.com/nyaruka/goflow/flows/events"
	"github.com/nyaruka/goflow/flows/routers"
	"github.com/nyaruka/goflow/flows/routers/cases"
	"github.com/nyaruka/goflow/flows/routers/waits"
	"github.com/nyaruka/goflow/flows/triggers"
	"github.com/nyaruka/goflow/zzverif"
)

// record of the stubbed router test's calls during one Route
var verifTestCalls []verifTestCall

type verifTestCall struct {
	outcome int // 0 no match, 1 match, 2 error
	args    []string
	match   string
}

func init() {
	cases.XTESTS["verif_rec_test"] = types.NewXFunction("verif_rec_test", func(env envs.Environment, args ...types.XValue) types.XValue {
		o := zzverif.Choice("test-outcome", 3)
		call := verifTestCall{outcome: o}
		for _, a := range args[1:] {
			t, _ := types.ToXText(env, a)
			call.args = append(call.args, t.Native())
		}
		if o == 1 && zzverif.Choice("match-text-empty", 2) == 0 {
			// (a test may match with an empty match text: has_pattern with a pattern matching "", has_phrase with an empty phrase)
			call.match = "match" + string(rune('0'+len(verifTestCalls)))
		}
		verifTestCalls = append(verifTestCalls, call)
		switch o {
		case 1:
			return cases.NewTrueResult(types.NewXText(call.match))
		case 2:
			return types.NewXErrorf("stub test error")
		}
		return cases.FalseResult
	})
}

// VerifC07_Switch: a switch router with up to 3 cases over up to 3
// categories (arbitrary case→category mapping, duplicates allowed), with or
// without default category, result name and wait/timeout, arbitrary test
// outcomes (no match / match / error), localized case arguments of the same
// or a different length: the run leaves by the exit of the category of the
// first matching case, else the default's, else fails; the saved result has
// that category's name, the test's match text — possibly empty — (operand for the default) as value and the
// operand as input; a timeout resume leaves by the timeout category; the
// step's exit, the returned exit and the logged segment agree.
// cover: case-of-default-category, first-case, later-case, default, no-category, timeout, result-saved, test-error, localized-args, mismatched-args, evaluated-args, empty-match
func VerifC07_Switch() {
	maxCases := 3
	if zzverif.Thorough() {
		maxCases = 4
	}
	ncases := 1 + zzverif.Choice("ncases", maxCases)
	ncats := 3
	hasDefault := zzverif.Choice("has-default", 2) == 1
	hasResult := zzverif.Choice("has-result-name", 2) == 1
	waitKind := zzverif.Choice("wait", 3)               // 0 none, 1 msg wait, 2 msg wait with timeout
	locKind := zzverif.Choice("localized-arguments", 4) // 0 none, 1 same length, 2 different length, 3 same length and an expression

	var cats []flows.Category
	var exits []flows.Exit
	catName := []string{"Red", "Green", "Blue"}
	for c := 0; c < ncats; c++ {
		cats = append(cats, routers.NewCategory(flows.CategoryUUID("c"+string(rune('0'+c))), catName[c], flows.ExitUUID("e"+string(rune('0'+c)))))
		exits = append(exits, definition.NewExit(flows.ExitUUID("e"+string(rune('0'+c))), "f0n1"))
	}
	def := flows.CategoryUUID("")
	if hasDefault {
		cats = append(cats, routers.NewCategory("cd", "Other", "ed"))
		exits = append(exits, definition.NewExit("ed", "f0n1"))
		def = "cd"
	}
	var wait flows.Wait
	switch waitKind {
	case 1:
		wait = waits.NewMsgWait(nil, nil)
	case 2:
		cats = append(cats, routers.NewCategory("ct", "No Response", "et"))
		exits = append(exits, definition.NewExit("et", "f0n1"))
		wait = waits.NewMsgWait(waits.NewTimeout(60, "ct"), nil)
	}
	// arbitrary case → category mapping
	var cs []*routers.Case
	caseCat := make([]byte, ncases)
	for k := 0; k < ncases; k++ {
		// a case may also point at the category that is the default (nothing
		// forbids it: "Other" reached by a test as well as by no test)
		caseCat[k] = zzverif.Byte("case-category")
		limit := ncats
		if hasDefault {
			limit = ncats + 1
		}
		zzverif.Assume(int(caseCat[k]) < limit)
		cu := flows.CategoryUUID(string([]byte{'c', '0' + caseCat[k]}))
		if int(caseCat[k]) == ncats {
			cu = "cd"
		}
		cs = append(cs, routers.NewCase(uuids.UUID("k"+string(rune('0'+k))), "verif_rec_test", []string{"arg" + string(rune('0'+k))}, cu))
	}
	resultName := ""
	if hasResult {
		resultName = "Color"
	}
	router := routers.NewSwitch(wait, resultName, cats, "x", cs, def)
	loc := definition.NewLocalization()
	switch locKind {
	case 1:
		loc.SetItemTranslation("spa", "k0", "arguments", []string{"spa-arg0"})
	case 2:
		loc.SetItemTranslation("spa", "k0", "arguments", []string{"spa-arg0", "extra"})
	case 3:
		loc.SetItemTranslation("spa", "k0", "arguments", []string{"@(upper(contact.name) & 1 + 1)"})
	}
	n0 := definition.NewNode("f0n0", nil, router, exits)
	n1 := definition.NewNode("f0n1", nil, nil, []flows.Exit{definition.NewExit("f0n1e", "")})
	f, err := definition.NewFlow(verifFlowUUID(0), "F0", "eng", flows.FlowTypeMessaging, 1, 10, loc, []flows.Node{n0, n1}, nil, nil)
	zzverif.Assert(err == nil, "router did not validate")
	sa := verifNewAssets()
	sa.add(f)

	env := envs.NewBuilder().WithAllowedLanguages("eng", "spa").Build()
	contact := flows.NewEmptyContact(sa, "Bob", i18n.Language("spa"), nil)
	trig := triggers.NewBuilder(env, assets.NewFlowReference(verifFlowUUID(0), "F0"), contact).Manual().Build()
	verifTestCalls = nil
	sess, sp, err := verifEngine(10, 10).NewSession(sa, trig)
	zzverif.Assert(err == nil, "NewSession returned an error")
	s := sess.(*session)
	timeout := false
	if waitKind != 0 {
		zzverif.Assert(s.status == flows.SessionStatusWaiting, "router with a wait did not wait")
		zzverif.Assert(len(verifTestCalls) == 0, "cases were tested before the wait was resumed")
		if waitKind == 2 && zzverif.Choice("resume-is-timeout", 2) == 1 {
			timeout = true
			sp, err = s.Resume(verifResume(1))
		} else {
			sp, err = s.Resume(verifResume(0))
		}
		zzverif.Assert(err == nil, "resume returned an error")
	}

	// reference model
	wantCat := -2 // -2 none, -1 default, 100 timeout, else category index
	wantMatch := ""
	ncalls := 0
	if timeout {
		wantCat = 100
		zzverif.Cover("timeout")
	} else {
		for k := 0; k < ncases && wantCat == -2; k++ {
			ncalls++
			if k < len(verifTestCalls) {
				if verifTestCalls[k].outcome == 1 {
					wantCat = int(caseCat[k])
					wantMatch = verifTestCalls[k].match
					if wantMatch == "" {
						zzverif.Cover("empty-match")
					}
					if k == 0 {
						zzverif.Cover("first-case")
					} else {
						zzverif.Cover("later-case")
					}
				} else if verifTestCalls[k].outcome == 2 {
					zzverif.Cover("test-error")
				}
			}
		}
		zzverif.Assert(len(verifTestCalls) == ncalls, "cases were not tested in definition order up to the first match")
		if wantCat == -2 && hasDefault {
			wantCat = -1
			wantMatch = "x"
			zzverif.Cover("default")
		}
		// localized arguments of the first case
		if len(verifTestCalls) > 0 {
			a := verifTestCalls[0].args
			switch locKind {
			case 1:
				zzverif.Cover("localized-args")
				zzverif.Assert(len(a) == 1 && a[0] == "spa-arg0", "case arguments were not localized")
			case 3:
				zzverif.Cover("evaluated-args")
				zzverif.Assert(len(a) == 1 && a[0] == "BOB2", "localized case arguments were not evaluated")
			default:
				if locKind == 2 {
					zzverif.Cover("mismatched-args")
				}
				zzverif.Assert(len(a) == 1 && a[0] == "arg0", "case arguments of a different length than the definition's were used")
			}
		}
	}
	wantExit, wantName := flows.ExitUUID(""), ""
	switch {
	case wantCat == 100:
		wantExit, wantName = "et", "No Response"
	case wantCat == -1:
		wantExit, wantName = "ed", "Other"
	case wantCat == ncats:
		wantExit, wantName = "ed", "Other" // a case whose category is the default one: its exit and name, the test's match as value
		zzverif.Cover("case-of-default-category")
	case wantCat >= 0:
		wantExit, wantName = flows.ExitUUID("e"+string(rune('0'+wantCat))), catName[wantCat]
	}
	run := s.runs[0]
	step := run.Path()[0]
	if wantCat == -2 {
		zzverif.Cover("no-category")
		zzverif.Assert(run.Status() == flows.RunStatusFailed && s.status == flows.SessionStatusFailed, "router that selected no category did not fail the run")
		zzverif.Assert(step.ExitUUID() == "" && len(run.Path()) == 1, "router that selected no category still took an exit")
		zzverif.Assert(run.Results().Get("color") == nil, "router that selected no category saved a result")
		return
	}
	zzverif.Assert(step.ExitUUID() == wantExit, "router left by an exit other than the selected category's")
	zzverif.Assert(len(run.Path()) == 2 && run.Path()[1].NodeUUID() == "f0n1", "run did not continue to the exit's destination")
	segs := sp.Segments()
	zzverif.Assert(len(segs) >= 1 && segs[0].Exit().UUID() == wantExit && segs[0].Node().UUID() == "f0n0" && segs[0].Destination().UUID() == "f0n1", "logged segment disagrees with the exit taken")
	if !timeout {
		zzverif.Assert(segs[0].Operand() == "x", "logged segment does not carry the operand")
	}
	res := run.Results().Get("color")
	if !hasResult {
		zzverif.Assert(res == nil, "router without a result name saved a result")
		return
	}
	zzverif.Cover("result-saved")
	zzverif.Assert(res != nil && res.Category == wantName, "saved result does not carry the selected category's name")
	if !timeout {
		zzverif.Assert(res.Value == wantMatch, "saved result value is not the test's match (the operand for the default category)")
		zzverif.Assert(res.Input == "x", "saved result input is not the operand")
	}
	changed := false
	for _, e := range sp.Events() {
		if rc, ok := e.(*events.RunResultChangedEvent); ok && rc.Name == "Color" && rc.Category == wantName {
			changed = true
		}
	}
	zzverif.Assert(changed, "no run_result_changed event for the saved result")
}

// VerifC07_NoRouter: a node without a router leaves by its first exit (or
// ends the run when it has none).
// cover: first-exit, no-exits
func VerifC07_NoRouter() {
	nexits := zzverif.Choice("nexits", 3)
	var exits []flows.Exit
	for e := 0; e < nexits; e++ {
		d := flows.NodeUUID("")
		if zzverif.Choice("has-destination", 2) == 1 {
			d = "f0n1"
		}
		exits = append(exits, definition.NewExit(flows.ExitUUID("e"+string(rune('0'+e))), d))
	}
	n0 := definition.NewNode("f0n0", nil, nil, exits)
	n1 := definition.NewNode("f0n1", nil, nil, nil)
	f, err := definition.NewFlow(verifFlowUUID(0), "F0", "eng", flows.FlowTypeMessaging, 1, 10, definition.NewLocalization(), []flows.Node{n0, n1}, nil, nil)
	zzverif.Assert(err == nil, "flow did not validate")
	sa := verifNewAssets()
	sa.add(f)
	sess, _, err := verifEngine(10, 10).NewSession(sa, verifManualTrigger(sa, verifContact(sa)))
	zzverif.Assert(err == nil, "NewSession failed")
	step := sess.Runs()[0].Path()[0]
	if nexits == 0 {
		zzverif.Cover("no-exits")
		zzverif.Assert(step.ExitUUID() == "", "node without exits left by an exit")
	} else {
		zzverif.Cover("first-exit")
		zzverif.Assert(step.ExitUUID() == "e0", "node without a router did not leave by its first exit")
	}
	zzverif.Assert(sess.Status() == flows.SessionStatusCompleted, "session did not complete")
}

// VerifC07_RepeatedResult: two switch routers in one run save the same result
// name, with different operands and arbitrary test outcomes (so that the
// second routing may save exactly the value and category the first saved):
// after the run the result is the one the *second* routing prescribes — the
// category of its first matching case or the default, the match text (the
// operand for the default) as value and its own operand as input.
// cover: same-value-and-category, different-category
func VerifC07_RepeatedResult() {
	sa := verifNewAssets()
	mk := func(n int, operand string, dest flows.NodeUUID) flows.Node {
		id := func(s string) string { return string(verifNodeUUID(0, n)) + s }
		cats := []flows.Category{
			routers.NewCategory(flows.CategoryUUID(id("c0")), "Match", verifExitUUID(0, n, 0)),
			routers.NewCategory(flows.CategoryUUID(id("c1")), "Other", verifExitUUID(0, n, 1)),
		}
		cs := []*routers.Case{routers.NewCase(uuids.UUID(id("k0")), "verif_test", nil, flows.CategoryUUID(id("c0")))}
		router := routers.NewSwitch(nil, "Color", cats, operand, cs, flows.CategoryUUID(id("c1")))
		return definition.NewNode(verifNodeUUID(0, n), nil, router, []flows.Exit{definition.NewExit(verifExitUUID(0, n, 0), dest), definition.NewExit(verifExitUUID(0, n, 1), dest)})
	}
	sa.add(verifFlowOf(0, mk(0, "first operand", verifNodeUUID(0, 1)), mk(1, "second operand", "")))
	verifLazyOutcomes = true
	verifOutcomeRecord = nil
	sess, _, err := verifEngine(10, 10).NewSession(sa, verifManualTrigger(sa, verifContact(sa)))
	zzverif.Assert(err == nil, "NewSession returned an error")
	zzverif.Assert(len(verifOutcomeRecord) == 2, "setup: both routers were not evaluated")
	want := func(outcome int, operand string) (string, string) {
		if outcome == 1 {
			return "Match", "m"
		}
		return "Other", operand
	}
	c1, v1 := want(verifOutcomeRecord[0], "first operand")
	c2, v2 := want(verifOutcomeRecord[1], "second operand")
	if c1 == c2 && v1 == v2 {
		zzverif.Cover("same-value-and-category")
	} else if c1 != c2 {
		zzverif.Cover("different-category")
	}
	res := sess.Runs()[0].Results().Get("color")
	zzverif.Assert(res != nil, "no result was saved")
	zzverif.Assert(res.Category == c2 && res.Value == v2, "the saved result is not the one the last routing prescribes")
	zzverif.Assert(res.Input == "second operand", "the saved result does not have the last routing's operand as input")
	zzverif.Assert(res.NodeUUID == verifNodeUUID(0, 1), "the saved result does not name the node that saved it last")
}

// VerifC07_ParentRouter: a parent run paused on a node that enters a child
// flow and then routes with a switch router (no wait of its own); the child
// waits for a message with a timeout and ends when resumed — by a message or
// by the timeout. The parent's router is then evaluated in the same sprint as
// the child's: whatever resumed the child, the parent leaves by the exit of
// the category of its first matching case, else the default's, and saves
// that category; only the child's router — the one whose wait timed out —
// takes its timeout category.
// cover: child-timed-out, child-got-message, parent-case, parent-default
func VerifC07_ParentRouter() {
	sa := verifNewAssets()
	pcats := []flows.Category{routers.NewCategory("c0", "Red", "e0"), routers.NewCategory("cd", "Other", "ed")}
	prouter := routers.NewSwitch(nil, "Color", pcats, "x", []*routers.Case{routers.NewCase("k0", "verif_rec_test", []string{"arg0"}, "c0")}, "cd")
	p0 := definition.NewNode("f0n0", []flows.Action{actions.NewEnterFlow("a0", assets.NewFlowReference(verifFlowUUID(1), "F1"), false)}, prouter,
		[]flows.Exit{definition.NewExit("e0", "f0n1"), definition.NewExit("ed", "f0n1")})
	p1 := definition.NewNode("f0n1", nil, nil, []flows.Exit{definition.NewExit("f0n1e", "")})
	f0, err := definition.NewFlow(verifFlowUUID(0), "F0", "eng", flows.FlowTypeMessaging, 1, 10, definition.NewLocalization(), []flows.Node{p0, p1}, nil, nil)
	zzverif.Assert(err == nil, "setup: parent flow did not validate")
	ccats := []flows.Category{routers.NewCategory("xd", "All", "xe"), routers.NewCategory("xt", "No Response", "xte")}
	crouter := routers.NewSwitch(waits.NewMsgWait(waits.NewTimeout(60, "xt"), nil), "Reply", ccats, "@input.text", nil, "xd")
	c0 := definition.NewNode("f1n0", nil, crouter, []flows.Exit{definition.NewExit("xe", ""), definition.NewExit("xte", "")})
	f1, err := definition.NewFlow(verifFlowUUID(1), "F1", "eng", flows.FlowTypeMessaging, 1, 10, definition.NewLocalization(), []flows.Node{c0}, nil, nil)
	zzverif.Assert(err == nil, "setup: child flow did not validate")
	sa.add(f0)
	sa.add(f1)

	verifTestCalls = nil
	sess, _, err := verifEngine(10, 10).NewSession(sa, verifManualTrigger(sa, verifContact(sa)))
	zzverif.Assert(err == nil && sess.Status() == flows.SessionStatusWaiting, "setup: session not waiting in the child")
	s := sess.(*session)
	timeout := zzverif.Choice("resume-is-timeout", 2) == 1
	var sp flows.Sprint
	if timeout {
		zzverif.Cover("child-timed-out")
		sp, err = s.Resume(verifResume(1))
	} else {
		zzverif.Cover("child-got-message")
		sp, err = s.Resume(verifResumeText("hi"))
	}
	zzverif.Assert(err == nil, "resume returned an error")
	parent, child := s.runs[0], s.runs[1]
	// the child: its own wait's category
	wantChild := flows.ExitUUID("xe")
	if timeout {
		wantChild = "xte"
	}
	zzverif.Assert(child.Status() == flows.RunStatusCompleted && child.Path()[0].ExitUUID() == wantChild, "the child's router did not take the exit its resume prescribes")
	// the parent: its cases, then its default
	zzverif.Assert(len(verifTestCalls) == 1, "the parent's case was not tested exactly once")
	wantExit, wantName, wantValue := flows.ExitUUID("ed"), "Other", "x"
	if verifTestCalls[0].outcome == 1 {
		zzverif.Cover("parent-case")
		wantExit, wantName, wantValue = "e0", "Red", verifTestCalls[0].match
	} else {
		zzverif.Cover("parent-default")
	}
	zzverif.Assert(parent.Status() == flows.RunStatusCompleted && s.status == flows.SessionStatusCompleted, "the parent run did not complete after its child ended")
	zzverif.Assert(parent.Path()[0].ExitUUID() == wantExit, "the parent's router left by an exit other than the selected category's")
	res := parent.Results().Get("color")
	zzverif.Assert(res != nil && res.Category == wantName && res.Value == wantValue && res.Input == "x", "the parent's saved result does not carry the selected category, match and operand")
	var seg flows.Segment
	for _, sg := range sp.Segments() {
		if sg.Flow().UUID() == verifFlowUUID(0) {
			seg = sg
		}
	}
	zzverif.Assert(seg != nil && seg.Exit().UUID() == wantExit && seg.Operand() == "x" && seg.Destination().UUID() == "f0n1", "no logged segment for the parent's routing, or it disagrees with the exit taken")
	// (last: everything else about the routing has been checked by now)
	zzverif.Known("C07-parent-segment-node", true)
	zzverif.Assert(seg.Node().UUID() == "f0n0", "the segment logged for the routing of a parent run resumed after its child names a node of the child's flow")
}
