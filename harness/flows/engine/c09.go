package engine

import (
	"github.com/nyaruka/gocommon/urns"
	"github.com/nyaruka/goflow/assets"
	"github.com/nyaruka/goflow/contactql"
	"github.com/nyaruka/goflow/envs"
	"github.com/nyaruka/goflow/excellent/types"
	"github.com/nyaruka/goflow/flows"
	"github.com/nyaruka/goflow/flows/actions"
	"github.com/nyaruka/goflow/flows/definition"
	"github.com/nyaruka/goflow/flows/routers"
	"github.com/nyaruka/goflow/flows/routers/waits"
	"github.com/nyaruka/goflow/flows/triggers"
	"github.com/nyaruka/goflow/zzverif"
	"time"
)

// VerifC09_SharedAssets: one set of session assets — two flows (actions that
// change the contact, save results and send localized messages; a switch
// router with a wait and translated categories; a sub-flow), a query based
// group, fields — is built once and from then on is shared: every path of
// starting a session, marshalling and reading it back, resuming it,
// evaluating templates and walking its expression context writes nothing
// into the shared assets outside a held mutex.  If no session writes shared
// state, sessions cannot race with one another and each computes what it
// computes alone.  Natively 8 goroutines run the same operations under the
// race detector.
// cover: inspected, started, resumed, restored, context-walked
func verifSpareContacts() []*flows.ContactReference {
	refs := make([]*flows.ContactReference, 3, 4)
	for k := range refs {
		refs[k] = flows.NewContactReference(flows.ContactUUID(verifID('c', 0, 0, k)), "C")
	}
	return refs
}

func verifSpareURNs() []urns.URN {
	list := make([]urns.URN, 3, 4)
	for k := range list {
		list[k] = urns.URN("mailto:a" + string(rune('0'+k)) + "@example.com")
	}
	return list
}

func VerifC09_SharedAssets() {
	// (every input collation: each has its own text transform, which the router tests of all sessions go through)
	collation := []envs.Collation{envs.CollationDefault, envs.CollationConfusables, envs.CollationArabicVariants}[zzverif.Choice("input-collation", 3)]
	env := envs.NewBuilder().WithAllowedLanguages("eng", "spa").WithInputCollation(collation).Build()
	sa := verifNewAssets()
	sa.fields = flows.NewFieldAssets([]assets.Field{&verifFieldAsset{"nick", assets.FieldTypeText}})
	g := flows.VerifQueryGroup(env, sa.fields, "b0000000-0000-4000-8000-000000000001", "Named", contactql.NewCondition(contactql.PropertyTypeAttribute, contactql.AttributeName, contactql.OpNotEqual, ""))
	sa.groups, _ = flows.VerifGroupAssets(env, sa.fields, g, flows.VerifStaticGroup("b0000000-0000-4000-8000-000000000002", "Static"))
	loc := definition.NewLocalization()
	loc.SetItemTranslation("spa", "a2", "text", []string{"hola @contact.name"})
	loc.SetItemTranslation("spa", "c0", "name", []string{"Rojo"})
	cats := []flows.Category{routers.NewCategory("c0", "Red", verifExitUUID(9, 0, 0)), routers.NewCategory("c1", "Other", verifExitUUID(9, 0, 1))}
	router := routers.NewSwitch(waits.NewMsgWait(nil, nil), "Color", cats, "@input.text", []*routers.Case{routers.NewCase("k0", "has_any_word", []string{"red"}, "c0")}, "c1")
	n0 := definition.NewNode(verifNodeUUID(0, 0), []flows.Action{
		actions.NewSetContactName("a1", "Bob @(1+1)"),
		actions.NewSendMsg("a2", "hi @contact.name", nil, []string{"yes"}, false),
		actions.NewSetRunResult("a3", "Greeted", "yes", "Done"),
		// recipients lists with spare capacity (as encoding/json leaves for 3 entries) plus legacy variables resolved at run time
		actions.NewSendBroadcast("a6", "news for @contact.name", nil, nil, nil, verifSpareContacts(), "", verifSpareURNs(), []string{"8f6f4e8e-5d0a-4a9e-9c3a-3c1c6f1a2b3c", "mailto:foo@bar.com"}),
		actions.NewStartSession("a7", assets.NewFlowReference(verifFlowUUID(1), "F1"), nil, verifSpareContacts(), "", verifSpareURNs(), []string{"8f6f4e8e-5d0a-4a9e-9c3a-3c1c6f1a2b3c", "mailto:foo@bar.com"}, false),
	}, router, []flows.Exit{definition.NewExit(verifExitUUID(9, 0, 0), verifNodeUUID(0, 1)), definition.NewExit(verifExitUUID(9, 0, 1), "")})
	n1 := definition.NewNode(verifNodeUUID(0, 1), []flows.Action{actions.NewEnterFlow("a4", assets.NewFlowReference(verifFlowUUID(1), "F1"), false)}, nil, []flows.Exit{definition.NewExit(verifExitUUID(9, 0, 2), "")})
	f0, err := definition.NewFlow(verifFlowUUID(0), "F0", "eng", flows.FlowTypeMessaging, 1, 10, loc, []flows.Node{n0, n1}, nil, nil)
	zzverif.Assert(err == nil, "flow 0 did not validate")
	f1, err := definition.NewFlow(verifFlowUUID(1), "F1", "eng", flows.FlowTypeMessaging, 1, 10, definition.NewLocalization(),
		[]flows.Node{definition.NewNode(verifNodeUUID(1, 0), []flows.Action{actions.NewSetRunResult("a5", "Child", "1", "")}, nil, []flows.Exit{definition.NewExit(verifExitUUID(9, 0, 3), "")})}, nil, nil)
	zzverif.Assert(err == nil, "flow 1 did not validate")
	sa.add(f0)
	sa.add(f1)
	eng := verifEngine(10, 10)
	zzverif.Freeze("session assets", sa)
	zzverif.Freeze("engine", eng)
	zzverif.FreezeGlobals()
	lang := []string{"eng", "spa"}[zzverif.Choice("contact-language", 2)]
	restart := zzverif.Choice("restart-at-wait", 2) == 1
	// the reply: an arbitrary ASCII character followed by "ed" (it decides the route taken after the wait)
	first := zzverif.Byte("reply-first-character")
	zzverif.Assume(first != 0 && first < 0x80)
	text := string([]byte{first}) + "ed"
	zzverif.Parallel(8, func(w int) {
		contact := flows.NewEmptyContact(sa, "", "", nil)
		contact.SetLanguage(envLang(lang))
		trig := triggers.NewBuilder(env, assets.NewFlowReference(verifFlowUUID(0), "F0"), contact).Manual().Build()
		sess, _, err := eng.NewSession(sa, trig)
		zzverif.Assert(err == nil && sess.Status() == flows.SessionStatusWaiting, "session did not start")
		zzverif.Cover("started")
		// flow inspection (reflection walk over the shared definition) from every session's goroutine
		insp := f0.Inspect(sa)
		zzverif.Assert(len(insp.Dependencies) > 0 && len(f0.ExtractTemplates()) > 0 && len(f0.ExtractLocalizables()) > 0, "inspection found nothing")
		zzverif.Cover("inspected")
		var out []string
		verifWalkContext(sess.MergedEnvironment(), "@", sess.CurrentContext(), 2, &out)
		zzverif.Cover("context-walked")
		if restart {
			m := verifMarshal(sess)
			sess, err = eng.ReadSession(sa, []byte(m), assets.PanicOnMissing)
			zzverif.Assert(err == nil, "read failed")
			zzverif.Cover("restored")
		}
		_, err = sess.Resume(verifResumeText(text))
		zzverif.Assert(err == nil && sess.Status() == flows.SessionStatusCompleted, "session did not complete")
		zzverif.Cover("resumed")
	})
}

// VerifC09_SessionsIndependent: two sessions over the same session assets —
// a query based group whose date condition reads differently under the two
// sessions' environments (joined > 03-04-2020 day-first / month-first) —
// started one after the other in either order: each contact ends up in the
// group exactly when the query matches under its own session's environment,
// as it would if its session ran alone (whatever an earlier session left
// behind in the shared assets).
// cover: day-first-then-month-first, month-first-then-day-first
func VerifC09_SessionsIndependent() {
	dayFirst := envs.NewBuilder().WithDateFormat(envs.DateFormatDayMonthYear).Build()
	monthFirst := envs.NewBuilder().WithDateFormat(envs.DateFormatMonthDayYear).Build()
	sa := verifNewAssets()
	sa.fields = flows.NewFieldAssets([]assets.Field{&verifFieldAsset{"joined", assets.FieldTypeDatetime}})
	g := flows.VerifQueryGroup(dayFirst, sa.fields, "b0000000-0000-4000-8000-000000000001", "Late", contactql.NewCondition(contactql.PropertyTypeField, "joined", contactql.OpGreaterThan, "03-04-2020"))
	zzverif.Assert(g != nil, "setup: query group did not validate")
	var groups []*flows.Group
	sa.groups, groups = flows.VerifGroupAssets(dayFirst, sa.fields, g)
	sa.add(verifFlowOf(0, verifPlainNodeWithActions(0, 0, -1, actions.NewSetContactName("a1", "Ann"))))
	eng := verifEngine(10, 10)
	order := []envs.Environment{dayFirst, monthFirst}
	if zzverif.Choice("month-first-session-first", 2) == 1 {
		order = []envs.Environment{monthFirst, dayFirst}
		zzverif.Cover("month-first-then-day-first")
	} else {
		zzverif.Cover("day-first-then-month-first")
	}
	for _, env := range order {
		contact := flows.NewEmptyContact(sa, "Bob", "eng", nil)
		joined := time.Date(2020, 3, 15, 12, 0, 0, 0, time.UTC) // after the fourth of March, before the third of April
		contact.Fields().Set(sa.fields.Get("joined"), flows.NewValue(types.NewXText("2020-03-15T12:00:00Z"), types.NewXDateTime(joined), nil, "", "", ""))
		trig := triggers.NewBuilder(env, assets.NewFlowReference(verifFlowUUID(0), "F0"), contact).Manual().Build()
		sess, _, err := eng.NewSession(sa, trig)
		zzverif.Assert(err == nil, "setup: session did not start")
		in := sess.Contact().Groups().FindByUUID(groups[0].UUID()) != nil
		want := env == monthFirst // 15 March is after 4 March (month-first reading) and before 3 April (day-first reading)
		zzverif.Assert(in == want, "a session's contact is not in the query based group it would be in if the session ran alone")
	}
}
