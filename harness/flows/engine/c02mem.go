package engine

import (
	"time"
	"github.com/nyaruka/gocommon/urns"
	"github.com/nyaruka/goflow/assets"
	"github.com/nyaruka/goflow/assets/static"
	"github.com/nyaruka/goflow/envs"
	"github.com/nyaruka/goflow/flows"
	"github.com/nyaruka/goflow/flows/actions"
	"github.com/nyaruka/goflow/flows/definition"
	"github.com/nyaruka/goflow/flows/resumes"
	"github.com/nyaruka/goflow/flows/routers"
	"github.com/nyaruka/goflow/flows/routers/waits"
	"github.com/nyaruka/goflow/flows/triggers"
	"github.com/nyaruka/goflow/zzverif"
)

// VerifC02_SessionMemory: what a session object remembers *besides* its
// runs — how it was started (a batch start or not), whether and when input
// was received — must be rebuilt on read or not matter.  A flow with three
// waits (message or timeout) and then an action whose behaviour depends on
// that memory: open_ticket, send_broadcast to a group and start_session for a
// group (refused during batch starts; start_session also records how many
// sessions lie between it and the last input of the contact).  The session is
// started by a message of the contact or by a manual trigger, as a batch
// start or not; each wait is resumed
// by a message or by its timeout; one session is kept alive (and marshalled
// at each wait, as a host persists it), the other is read back from its JSON
// at any subset of the waits: both produce the same events at each sprint
// and the same session JSON.
// cover: batch-start, single-start, msg-trigger, open-ticket, send-broadcast, start-session, message-then-timeout, timeout-then-timeout, restart-at-first-wait, restart-at-second-wait, resumed-equal
func VerifC02_SessionMemory() {
	env := envs.NewBuilder().Build()
	sa := verifNewAssets()
	sa.fields = flows.NewFieldAssets(nil)
	var static_ []*flows.Group
	sa.groups, static_ = flows.VerifGroupAssets(env, sa.fields, flows.VerifStaticGroup("b0000000-0000-4000-8000-000000000001", "Testers"))
	sa.topics = flows.NewTopicAssets([]assets.Topic{static.NewTopic(verifTopicA, "Weather")})
	groups := []*assets.GroupReference{static_[0].Reference()}
	var act flows.Action
	switch zzverif.Choice("action-after-the-waits", 3) {
	case 0:
		act = actions.NewOpenTicket("a1", assets.NewTopicReference(verifTopicA, "Weather"), "help", nil, "Ticket")
		zzverif.Cover("open-ticket")
	case 1:
		act = actions.NewSendBroadcast("a1", "hi", nil, nil, groups, nil, "", nil, nil)
		zzverif.Cover("send-broadcast")
	default:
		act = actions.NewStartSession("a1", assets.NewFlowReference(verifFlowUUID(1), "F1"), groups, nil, "", nil, nil, false)
		zzverif.Cover("start-session")
	}
	wait := func(n int) flows.Node {
		cats := []flows.Category{routers.NewCategory(flows.CategoryUUID(verifID('c', 0, n, 0)), "All", verifExitUUID(0, n, 0)), routers.NewCategory(flows.CategoryUUID(verifID('c', 0, n, 1)), "No Response", verifExitUUID(0, n, 1))}
		router := routers.NewSwitch(waits.NewMsgWait(waits.NewTimeout(60, flows.CategoryUUID(verifID('c', 0, n, 1))), nil), "", cats, "@input.text", nil, flows.CategoryUUID(verifID('c', 0, n, 0)))
		return definition.NewNode(verifNodeUUID(0, n), nil, router, []flows.Exit{definition.NewExit(verifExitUUID(0, n, 0), verifNodeUUID(0, n+1)), definition.NewExit(verifExitUUID(0, n, 1), verifNodeUUID(0, n+1))})
	}
	n3 := definition.NewNode(verifNodeUUID(0, 3), []flows.Action{act}, nil, []flows.Exit{definition.NewExit(verifExitUUID(0, 3, 0), "")})
	f, err := definition.NewFlow(verifFlowUUID(0), "F0", "eng", flows.FlowTypeMessaging, 1, 10, definition.NewLocalization(), []flows.Node{wait(0), wait(1), wait(2), n3}, nil, nil)
	zzverif.Assert(err == nil, "setup: flow did not validate")
	sa.add(f)
	sa.add(verifFlowOf(1, verifPlainNodeWithActions(1, 0, -1)))

	// started by a message of the contact, or manually: as a batch start or not
	start_ := zzverif.Choice("trigger", 3)
	batch, byMsg := start_ == 1, start_ == 2
	switch {
	case batch:
		zzverif.Cover("batch-start")
	case byMsg:
		zzverif.Cover("msg-trigger")
	default:
		zzverif.Cover("single-start")
	}
	eng := verifEngine(10, 10)
	start := func() flows.Session {
		zzverif.ResetEnv()
		var trig flows.Trigger
		if byMsg {
			trig = triggers.NewBuilder(env, assets.NewFlowReference(verifFlowUUID(0), "F0"), verifContact(sa)).Msg(flows.NewMsgIn(flows.MsgUUID("msg0"), urns.URN("twitter:bob"), nil, "hello", nil)).Build()
		} else {
			b := triggers.NewBuilder(env, assets.NewFlowReference(verifFlowUUID(0), "F0"), verifContact(sa)).Manual()
			if batch {
				b = b.AsBatch()
			}
			trig = b.Build()
		}
		sess, _, err := eng.NewSession(sa, trig)
		zzverif.Assert(err == nil && sess.Status() == flows.SessionStatusWaiting, "setup: the session is not waiting")
		return sess
	}
	a, b := start(), start()
	step := func(restart bool, timeout bool, what string) {
		ma := verifMarshal(a) // the host persists the live session too
		if restart {
			var err error
			b, err = eng.ReadSession(sa, []byte(verifMarshal(b)), assets.PanicOnMissing)
			zzverif.Assert(err == nil, "a marshalled waiting session could not be read back")
			zzverif.Assert(verifMarshal(b) == ma, "a session read back from its JSON marshals to different JSON")
		}
		resume := func() flows.Resume {
			if timeout {
				return resumes.NewWaitTimeout(nil, nil)
			}
			return verifResumeText("hi")
		}
		zzverif.ResetEnv()
		sp1, err1 := a.Resume(resume())
		zzverif.ResetEnv()
		sp2, err2 := b.Resume(resume())
		zzverif.Assert(err1 == nil && err2 == nil, "resume failed")
		zzverif.Assert(verifEventsJSON(sp1) == verifEventsJSON(sp2), "the "+what+" resume of the restarted session produced different events or segments")
		zzverif.Assert(verifMarshal(a) == verifMarshal(b), "the "+what+" resume of the restarted session resulted in different session JSON")
	}
	// three waits (a message that starts the session answers the first one)
	names := []string{"first", "second", "third"}
	sawMessage, timeouts := byMsg, 0
	for k := 0; k < 3; k++ {
		if k == 0 && byMsg {
			continue
		}
		zzverif.Assert(a.Status() == flows.SessionStatusWaiting, "setup: the session is not at its next wait")
		timeout := zzverif.Choice("resume-is-timeout", 2) == 1
		restart := zzverif.Choice("restart-at-wait", 2) == 1
		if restart {
			zzverif.Cover([]string{"restart-at-first-wait", "restart-at-second-wait", "restart-at-second-wait"}[k])
		}
		if timeout {
			timeouts++
			if sawMessage && timeouts == 2 {
				zzverif.Cover("message-then-timeout")
			}
			if !sawMessage && timeouts == 2 {
				zzverif.Cover("timeout-then-timeout")
			}
		} else {
			sawMessage, timeouts = true, 0
		}
		step(restart, timeout, names[k])
	}
	zzverif.Assert(a.Status() == flows.SessionStatusCompleted, "the session did not complete")
	zzverif.Cover("resumed-equal")
}

// VerifC02_DatetimeField: a datetime the engine holds in memory and the same
// datetime read back from the session JSON must behave alike.  In an
// environment with a timezone that has daylight saving time (America/New_York)
// or without (UTC, Africa/Kigali), a set_contact_field action stores a date
// and time in a datetime field the day before, on, or long before the change
// of clocks; after the wait a message renders the field, the field plus one
// day and plus 36 hours (datetime_add), and formats it: the session kept in
// memory and the one read back at the wait send the same message.
// cover: zone-with-dst, zone-without-dst, day-before-the-clock-change, resumed-equal
func VerifC02_DatetimeField() {
	zone := []string{"America/New_York", "UTC", "Africa/Kigali"}[zzverif.Choice("timezone", 3)]
	tz, err := time.LoadLocation(zone)
	zzverif.Assert(err == nil, "setup: zone not loaded")
	dst := zone == "America/New_York"
	if dst {
		zzverif.Cover("zone-with-dst")
	} else {
		zzverif.Cover("zone-without-dst")
	}
	when := []string{"2024-03-09 10:00", "2024-03-10 10:00", "2024-01-15 23:30"}[zzverif.Choice("appointment", 3)]
	zzverif.Known("C02-restored-datetime-zone", dst && when == "2024-03-09 10:00")
	if when == "2024-03-09 10:00" {
		zzverif.Cover("day-before-the-clock-change")
	}
	env := envs.NewBuilder().WithTimezone(tz).Build()
	sa := verifNewAssets()
	sa.fields = flows.NewFieldAssets([]assets.Field{&verifFieldAsset{"appointment", assets.FieldTypeDatetime}})
	sa.groups = flows.VerifGroupAssetsOf(env, sa.fields)
	render := `@fields.appointment|@(datetime_add(fields.appointment, 1, "D"))|@(datetime_add(fields.appointment, 36, "h"))|@(format_datetime(fields.appointment, "YYYY-MM-DD tt:mm"))`
	cats := []flows.Category{routers.NewCategory("c0", "All", verifExitUUID(9, 0, 0))}
	router := routers.NewSwitch(waits.NewMsgWait(nil, nil), "", cats, "@input.text", nil, "c0")
	n0 := definition.NewNode(verifNodeUUID(0, 0), []flows.Action{actions.NewSetContactField("a0", assets.NewFieldReference("appointment", "Appointment"), when)}, router,
		[]flows.Exit{definition.NewExit(verifExitUUID(9, 0, 0), verifNodeUUID(0, 1))})
	n1 := definition.NewNode(verifNodeUUID(0, 1), []flows.Action{actions.NewSendMsg("m1", render, nil, nil, false)}, nil, []flows.Exit{definition.NewExit(verifExitUUID(9, 0, 1), "")})
	f, ferr := definition.NewFlow(verifFlowUUID(0), "F0", "eng", flows.FlowTypeMessaging, 1, 10, definition.NewLocalization(), []flows.Node{n0, n1}, nil, nil)
	zzverif.Assert(ferr == nil, "setup: flow did not validate")
	sa.add(f)
	eng := verifEngine(10, 10)
	zzverif.ResetEnv()
	sess, _, err := eng.NewSession(sa, triggers.NewBuilder(env, assets.NewFlowReference(verifFlowUUID(0), "F0"), verifContact(sa)).Manual().Build())
	zzverif.Assert(err == nil && sess.Status() == flows.SessionStatusWaiting, "setup: session not waiting")
	m := verifMarshal(sess)
	restored, err := eng.ReadSession(sa, []byte(m), assets.PanicOnMissing)
	zzverif.Assert(err == nil, "a marshalled waiting session could not be read back")
	zzverif.Assert(verifMarshal(restored) == m, "a session read back from its JSON marshals to different JSON")
	zzverif.ResetEnv()
	sp1, err1 := sess.Resume(verifResumeText("hi"))
	zzverif.ResetEnv()
	sp2, err2 := restored.Resume(verifResumeText("hi"))
	zzverif.Assert(err1 == nil && err2 == nil, "resume failed")
	zzverif.Note("kept in memory: ", verifC02Texts(sp1), " restored: ", verifC02Texts(sp2))
	zzverif.Assert(verifEventsJSON(sp1) == verifEventsJSON(sp2), "resuming the restored session produced different events or segments")
	zzverif.Assert(verifMarshal(sess) == verifMarshal(restored), "resuming the restored session resulted in different session JSON")
	zzverif.Cover("resumed-equal")
}
