package engine

import (
	"github.com/nyaruka/gocommon/i18n"
	"github.com/nyaruka/gocommon/uuids"
	"github.com/nyaruka/goflow/assets"
	"github.com/nyaruka/goflow/envs"
	"github.com/nyaruka/goflow/flows"
	"github.com/nyaruka/goflow/flows/actions"
	"github.com/nyaruka/goflow/flows/definition"
	"github.com/nyaruka/goflow/flows/events"
	"github.com/nyaruka/goflow/flows/routers"
	"github.com/nyaruka/goflow/flows/routers/waits"
	"github.com/nyaruka/goflow/flows/triggers"
	"github.com/nyaruka/goflow/zzverif"
)

var verifLangs = []i18n.Language{"aaa", "bbb", "ccc"}

// translations exist in two languages (quick) / in all three (thorough)
func verifNumTranslated() int {
	if zzverif.Thorough() {
		return 3
	}
	return 2
}

// verifLang returns an arbitrary language among n candidates as a symbolic
// value (one solver variable, no fork).
func verifLang(name string, n int) i18n.Language {
	c := zzverif.Byte(name)
	zzverif.Assume(int(c) < n)
	return i18n.Language(string([]byte{'a' + c, 'a' + c, 'a' + c}))
}

// verifTranslationKinds: absent, [], [""], one value, two values
func verifTranslation(name string, lang i18n.Language, prop string, kinds int) ([]string, bool) {
	switch zzverif.Choice(name, kinds) {
	case 1:
		return []string{string(lang) + "-" + prop + "-1"}, true
	case 2:
		return []string{string(lang) + "-" + prop + "-1", string(lang) + "-" + prop + "-2"}, true
	case 3:
		return []string{}, true
	case 4:
		return []string{""}, true
	}
	return nil, false
}

func verifNonEmpty(t []string) bool {
	return len(t) > 0 && !(len(t) == 1 && t[0] == "")
}

// verifRefChain is the documented preference order: the contact's language if
// it is one of the environment's allowed languages, then the environment's
// default (first allowed) language, then the flow's base language.
func verifRefChain(contactLang i18n.Language, allowed []i18n.Language, base i18n.Language) []i18n.Language {
	var chain []i18n.Language
	for _, a := range allowed {
		if contactLang != "" && a == contactLang {
			chain = append(chain, contactLang)
		}
	}
	if len(allowed) > 0 && (len(chain) == 0 || chain[0] != allowed[0]) {
		chain = append(chain, allowed[0])
	}
	return append(chain, base)
}

// verifRefPick: the first language of the chain that is the base language or
// has a non-empty translation wins; otherwise the base text.
func verifRefPick(chain []i18n.Language, base i18n.Language, trans map[i18n.Language][]string, native []string) ([]string, i18n.Language) {
	for _, l := range chain {
		if l == base {
			return native, base
		}
		if t := trans[l]; verifNonEmpty(t) {
			return t, l
		}
	}
	return native, base
}

func verifAllowed(name string) []i18n.Language {
	if zzverif.Thorough() {
		switch zzverif.Choice(name+"-3", 4) {
		case 1:
			return []i18n.Language{"ccc", "aaa"}
		case 2:
			return []i18n.Language{"bbb", "ccc", "aaa"}
		case 3:
			return []i18n.Language{"ccc"}
		}
	}
	switch zzverif.Choice(name, 5) {
	case 1:
		return []i18n.Language{"aaa"}
	case 2:
		return []i18n.Language{"bbb"}
	case 3:
		return []i18n.Language{"aaa", "bbb"}
	case 4:
		return []i18n.Language{"bbb", "aaa"}
	}
	return nil
}

func verifSameStrings(a, b []string) bool {
	if len(a) != len(b) {
		return false
	}
	same := true
	for i := range a {
		if a[i] != b[i] {
			same = false
		}
	}
	return same
}

// verifC18Msg runs a one-node flow with a send_msg action under the given
// translation kinds per property and checks text, attachments, quick replies
// and locale against the documented fallback.
func verifC18Msg(kText, kAtt, kQR int) {
	var contactLang i18n.Language
	if zzverif.Choice("contact-has-language", 2) == 1 {
		contactLang = verifLang("contact-language", 3)
	}
	allowed := verifAllowed("allowed-languages")
	base := verifLang("base-language", 3)
	baseText := "base text"
	if zzverif.Choice("base-text-empty", 2) == 1 {
		baseText = ""
	}
	baseAtt := []string{"image/jpeg:http://x/base.jpg"}
	baseQR := []string{"base-qr"}

	loc := definition.NewLocalization()
	trText, trAtt, trQR := map[i18n.Language][]string{}, map[i18n.Language][]string{}, map[i18n.Language][]string{}
	for _, l := range verifLangs[:verifNumTranslated()] {
		if t, ok := verifTranslation("text-translation", l, "text", kText); ok {
			trText[l] = t
			loc.SetItemTranslation(l, "a1", "text", t)
		}
		if t, ok := verifTranslation("attachments-translation", l, "att", kAtt); ok {
			for i := range t {
				if t[i] != "" {
					t[i] = "image/png:http://x/" + t[i]
				}
			}
			trAtt[l] = t
			loc.SetItemTranslation(l, "a1", "attachments", t)
		}
		if t, ok := verifTranslation("quick-replies-translation", l, "qr", kQR); ok {
			trQR[l] = t
			loc.SetItemTranslation(l, "a1", "quick_replies", t)
		}
	}
	act := actions.NewSendMsg("a1", baseText, baseAtt, baseQR, false)
	node := definition.NewNode("f0n0", []flows.Action{act}, nil, []flows.Exit{definition.NewExit("e0", "")})
	f, err := definition.NewFlow(verifFlowUUID(0), "F0", base, flows.FlowTypeMessaging, 1, 10, loc, []flows.Node{node}, nil, nil)
	zzverif.Assert(err == nil, "flow did not validate")
	sa := verifNewAssets()
	sa.add(f)
	env := envs.NewBuilder().WithAllowedLanguages(allowed...).Build()
	contact := flows.NewEmptyContact(sa, "Bob", contactLang, nil)
	trig := triggers.NewBuilder(env, assets.NewFlowReference(verifFlowUUID(0), "F0"), contact).Manual().Build()
	_, sp, err := verifEngine(10, 10).NewSession(sa, trig)
	zzverif.Assert(err == nil, "NewSession failed")

	chain := verifRefChain(contactLang, allowed, base)
	wantText, textLang := verifRefPick(chain, base, trText, []string{baseText})
	wantAtt, attLang := verifRefPick(chain, base, trAtt, baseAtt)
	wantQR, qrLang := verifRefPick(chain, base, trQR, baseQR)
	if textLang != base {
		zzverif.Cover("text-translated")
	}
	if len(chain) == 3 && chain[0] != chain[1] {
		zzverif.Cover("contact-language-allowed")
	}
	if contactLang != "" && (len(chain) < 3 || chain[0] != contactLang) {
		zzverif.Cover("contact-language-not-allowed")
	}
	var msg *flows.MsgOut
	for _, e := range sp.Events() {
		if mc, ok := e.(*events.MsgCreatedEvent); ok {
			msg = mc.Msg
		}
	}
	zzverif.Assert(msg != nil, "no msg_created event")
	zzverif.Assert(msg.Text() == wantText[0], "message text was not chosen by the documented language fallback")
	var gotAtt []string
	for _, a := range msg.Attachments() {
		gotAtt = append(gotAtt, string(a))
	}
	var wantAttValid []string
	for _, a := range wantAtt {
		if a != "" {
			wantAttValid = append(wantAttValid, a)
		}
	}
	zzverif.Assert(verifSameStrings(gotAtt, wantAttValid), "attachments were not chosen by the documented language fallback")
	var wantQRNonEmpty []string
	for _, q := range wantQR {
		if q != "" {
			wantQRNonEmpty = append(wantQRNonEmpty, q)
		}
	}
	zzverif.Assert(verifSameStrings(msg.QuickReplies(), wantQRNonEmpty), "quick replies were not chosen by the documented language fallback")
	// the locale names the language used for the text; for a text-less
	// message its attachments', then its quick replies'
	wantLocale := textLang
	if wantText[0] == "" {
		zzverif.Cover("text-less")
		wantLocale = attLang
		if len(wantAtt) == 0 {
			wantLocale = qrLang
		}
	}
	zzverif.Assert(string(msg.Locale()) == string(wantLocale), "msg locale does not name the language actually used")
}

// VerifC18_Text: text translations of every kind (absent, empty list, [""],
// one value, two values) in two languages; attachments/quick replies untranslated.
// cover: text-translated, contact-language-allowed, contact-language-not-allowed, text-less
func VerifC18_Text() { verifC18Msg(5, 1, 1) }

// VerifC18_Attachments: attachment translations of every kind.
// cover: contact-language-allowed, text-less
func VerifC18_Attachments() { verifC18Msg(1, 5, 1) }

// VerifC18_QuickReplies: quick-reply translations of every kind.
// cover: contact-language-allowed
func VerifC18_QuickReplies() { verifC18Msg(1, 1, 5) }

// VerifC18_Independent: text, attachments and quick replies translated or
// not independently of one another (kinds absent / one value).
// cover: text-translated, text-less
func VerifC18_Independent() { verifC18Msg(2, 2, 2) }

// VerifC18_Category: the localized category name saved with a router result
// and the localized category of set_run_result follow the same fallback.
// cover: category-translated, category-base
func VerifC18_Category() {
	var contactLang i18n.Language
	if zzverif.Choice("contact-has-language", 2) == 1 {
		contactLang = verifLang("contact-language", 3)
	}
	allowed := verifAllowed("allowed-languages")
	base := verifLang("base-language", 3)
	loc := definition.NewLocalization()
	trName, trCat := map[i18n.Language][]string{}, map[i18n.Language][]string{}
	for _, l := range verifLangs[:verifNumTranslated()] {
		if t, ok := verifTranslation("name-translation", l, "name", 5); ok {
			trName[l] = t
			loc.SetItemTranslation(l, "cd", "name", t)
		}
		if t, ok := verifTranslation("category-translation", l, "category", 2); ok {
			trCat[l] = t
			loc.SetItemTranslation(l, "a1", "category", t)
		}
	}
	cats := []flows.Category{routers.NewCategory("cd", "Other", "e0")}
	router := routers.NewSwitch(nil, "Color", cats, "x", nil, "cd")
	act := actions.NewSetRunResult("a1", "Size", "big", "Large")
	node := definition.NewNode("f0n0", []flows.Action{act}, router, []flows.Exit{definition.NewExit("e0", "")})
	f, err := definition.NewFlow(verifFlowUUID(0), "F0", base, flows.FlowTypeMessaging, 1, 10, loc, []flows.Node{node}, nil, nil)
	zzverif.Assert(err == nil, "flow did not validate")
	sa := verifNewAssets()
	sa.add(f)
	env := envs.NewBuilder().WithAllowedLanguages(allowed...).Build()
	contact := flows.NewEmptyContact(sa, "Bob", contactLang, nil)
	trig := triggers.NewBuilder(env, assets.NewFlowReference(verifFlowUUID(0), "F0"), contact).Manual().Build()
	sess, _, err := verifEngine(10, 10).NewSession(sa, trig)
	zzverif.Assert(err == nil, "NewSession failed")
	chain := verifRefChain(contactLang, allowed, base)
	wantName, nameLang := verifRefPick(chain, base, trName, []string{""})
	wantCat, _ := verifRefPick(chain, base, trCat, []string{"Large"})
	res := sess.Runs()[0].Results().Get("color")
	zzverif.Assert(res != nil && res.Category == "Other", "router result not saved under the category's name")
	zzverif.Assert(res.CategoryLocalized == wantName[0], "category_localized was not chosen by the documented language fallback")
	if nameLang != base {
		zzverif.Cover("category-translated")
	} else {
		zzverif.Cover("category-base")
	}
	res2 := sess.Runs()[0].Results().Get("size")
	want2 := wantCat[0]
	if want2 == "Large" {
		want2 = ""
	}
	zzverif.Assert(res2 != nil && res2.Category == "Large" && res2.CategoryLocalized == want2, "set_run_result category_localized was not chosen by the documented language fallback")
}

var _ = uuids.UUID("")

// VerifC18_LanguageChanges: the language in force is the contact's language
// at the moment a text is chosen. One node sends a message, changes the
// contact's language (set_contact_language, to any of the three languages or
// to none) and sends a second message, then its router saves a result with a
// localized category: the first message follows the fallback for the old
// language, the second message, its locale and the localized category the
// fallback for the new one.
// cover: language-changed, second-text-translated, first-text-translated, category-translated
func VerifC18_LanguageChanges() {
	var oldLang, newLang i18n.Language
	if zzverif.Choice("contact-has-language", 2) == 1 {
		oldLang = verifLang("contact-language", 3)
	}
	if k := zzverif.Choice("new-language", 4); k > 0 {
		newLang = verifLangs[k-1]
	}
	allowed := verifAllowed("allowed-languages")
	base := verifLang("base-language", 3)
	loc := definition.NewLocalization()
	tr1, tr2, trName := map[i18n.Language][]string{}, map[i18n.Language][]string{}, map[i18n.Language][]string{}
	for _, l := range verifLangs[:verifNumTranslated()] {
		if t, ok := verifTranslation("first-text-translation", l, "first", 2); ok {
			tr1[l] = t
			loc.SetItemTranslation(l, "a1", "text", t)
		}
		if t, ok := verifTranslation("second-text-translation", l, "second", 2); ok {
			tr2[l] = t
			loc.SetItemTranslation(l, "a3", "text", t)
		}
		if t, ok := verifTranslation("name-translation", l, "name", 2); ok {
			trName[l] = t
			loc.SetItemTranslation(l, "cd", "name", t)
		}
	}
	cats := []flows.Category{routers.NewCategory("cd", "Other", "e0")}
	router := routers.NewSwitch(nil, "Color", cats, "x", nil, "cd")
	node := definition.NewNode("f0n0", []flows.Action{
		actions.NewSendMsg("a1", "first base", nil, nil, false),
		actions.NewSetContactLanguage("a2", string(newLang)),
		actions.NewSendMsg("a3", "second base", nil, nil, false),
	}, router, []flows.Exit{definition.NewExit("e0", "")})
	f, err := definition.NewFlow(verifFlowUUID(0), "F0", base, flows.FlowTypeMessaging, 1, 10, loc, []flows.Node{node}, nil, nil)
	zzverif.Assert(err == nil, "flow did not validate")
	sa := verifNewAssets()
	sa.add(f)
	env := envs.NewBuilder().WithAllowedLanguages(allowed...).Build()
	contact := flows.NewEmptyContact(sa, "Bob", oldLang, nil)
	trig := triggers.NewBuilder(env, assets.NewFlowReference(verifFlowUUID(0), "F0"), contact).Manual().Build()
	sess, sp, err := verifEngine(10, 10).NewSession(sa, trig)
	zzverif.Assert(err == nil, "NewSession failed")
	zzverif.Assert(sess.Contact().Language() == newLang, "set_contact_language did not set the language")
	if oldLang != newLang {
		zzverif.Cover("language-changed")
	}

	want1, lang1 := verifRefPick(verifRefChain(oldLang, allowed, base), base, tr1, []string{"first base"})
	chain2 := verifRefChain(newLang, allowed, base)
	want2, lang2 := verifRefPick(chain2, base, tr2, []string{"second base"})
	wantName, nameLang := verifRefPick(chain2, base, trName, []string{""})
	if lang1 != base {
		zzverif.Cover("first-text-translated")
	}
	if lang2 != base {
		zzverif.Cover("second-text-translated")
	}
	if nameLang != base {
		zzverif.Cover("category-translated")
	}
	var msgs []*flows.MsgOut
	for _, e := range sp.Events() {
		if mc, ok := e.(*events.MsgCreatedEvent); ok {
			msgs = append(msgs, mc.Msg)
		}
	}
	zzverif.Assert(len(msgs) == 2, "two messages expected")
	zzverif.Assert(msgs[0].Text() == want1[0] && string(msgs[0].Locale()) == string(lang1), "the message sent before the language change was not chosen by the fallback for the old language")
	zzverif.Assert(msgs[1].Text() == want2[0] && string(msgs[1].Locale()) == string(lang2), "the message sent after the language change was not chosen by the fallback for the new language")
	res := sess.Runs()[0].Results().Get("color")
	zzverif.Assert(res != nil && res.CategoryLocalized == wantName[0], "the category localized after the language change was not chosen by the fallback for the new language")
}

// VerifC18_CategoryAfterLanguageChange: the language in force when a text is
// chosen is the contact's at that moment, also for the localized category
// name saved with a result: a router that saves the result Color is passed
// twice with the same answer (same value, same category), the contact's
// language being changed to one with a translation of the category in
// between (or not): after the second pass the saved result carries the
// category name in the language then in force.
// cover: language-changed, language-kept
func VerifC18_CategoryAfterLanguageChange() {
	loc := definition.NewLocalization()
	loc.SetItemTranslation("spa", "cr", "name", []string{"Rojo"})
	cats := []flows.Category{routers.NewCategory("cr", "Red", "e0")}
	router := routers.NewSwitch(waits.NewMsgWait(nil, nil), "Color", cats, "@input.text", nil, "cr")
	n0 := definition.NewNode("f0n0", nil, router, []flows.Exit{definition.NewExit("e0", "f0n1")})
	var acts []flows.Action
	changed := zzverif.Choice("language-changed-between", 2) == 1
	if changed {
		acts = append(acts, actions.NewSetContactLanguage("a1", "spa"))
		zzverif.Cover("language-changed")
	} else {
		zzverif.Cover("language-kept")
	}
	n1 := definition.NewNode("f0n1", acts, nil, []flows.Exit{definition.NewExit("e1", "f0n0")})
	f, err := definition.NewFlow(verifFlowUUID(0), "F0", "eng", flows.FlowTypeMessaging, 1, 10, loc, []flows.Node{n0, n1}, nil, nil)
	zzverif.Assert(err == nil, "flow did not validate")
	sa := verifNewAssets()
	sa.add(f)
	env := envs.NewBuilder().WithAllowedLanguages("eng", "spa").Build()
	contact := flows.NewEmptyContact(sa, "Bob", "eng", nil)
	sess, _, err := verifEngine(10, 10).NewSession(sa, triggers.NewBuilder(env, assets.NewFlowReference(verifFlowUUID(0), "F0"), contact).Manual().Build())
	zzverif.Assert(err == nil && sess.Status() == flows.SessionStatusWaiting, "setup: session not waiting")
	_, err = sess.Resume(verifResumeText("red"))
	zzverif.Assert(err == nil && sess.Status() == flows.SessionStatusWaiting, "setup: session not waiting at the second pass")
	first := sess.Runs()[0].Results().Get("color")
	zzverif.Assert(first != nil && first.Category == "Red" && first.CategoryLocalized == "", "the first pass did not save the category in the base language")
	_, err = sess.Resume(verifResumeText("red"))
	zzverif.Assert(err == nil, "second resume failed")
	second := sess.Runs()[0].Results().Get("color")
	want := ""
	if changed {
		want = "Rojo"
	}
	zzverif.Assert(second != nil && second.Category == "Red" && second.CategoryLocalized == want, "the localized category of a result saved again is not in the language in force when it was saved")
}
