package engine

import (
	"github.com/nyaruka/goflow/assets"
	"github.com/nyaruka/goflow/contactql"
	"github.com/nyaruka/goflow/envs"
	"github.com/nyaruka/goflow/flows"
	"github.com/nyaruka/goflow/flows/actions"
	"github.com/nyaruka/goflow/flows/definition"
	"github.com/nyaruka/goflow/flows/events"
	"github.com/nyaruka/goflow/flows/routers"
	"github.com/nyaruka/goflow/flows/routers/waits"
	"github.com/nyaruka/goflow/zzverif"
)

type verifFieldAsset struct {
	key string
	typ assets.FieldType
}

func (f *verifFieldAsset) UUID() assets.FieldUUID { return assets.FieldUUID("uuid-" + f.key) }
func (f *verifFieldAsset) Key() string            { return f.key }
func (f *verifFieldAsset) Name() string           { return f.key }
func (f *verifFieldAsset) Type() assets.FieldType { return f.typ }

// VerifC06_Engine: whenever the engine hands back a session — after a manual
// or msg trigger and after a msg resume, with flows that change the name —
// the contact is in each query based group (on last_seen_on, on the name)
// exactly when it is active and the query matches, and the
// contact_groups_changed events of the sprint add up to the difference.
// cover: msg-trigger, manual-trigger, resumed, last-seen-group-joined, name-group-joined, name-group-left
func VerifC06_Engine() {
	env := envs.NewBuilder().Build()
	sa := verifNewAssets()
	sa.fields = flows.NewFieldAssets([]assets.Field{&verifFieldAsset{"nick", assets.FieldTypeText}})
	gSeen := flows.VerifQueryGroup(env, sa.fields, "g-seen", "Seen", contactql.NewCondition(contactql.PropertyTypeAttribute, contactql.AttributeLastSeenOn, contactql.OpNotEqual, ""))
	gName := flows.VerifQueryGroup(env, sa.fields, "g-name", "Named", contactql.NewCondition(contactql.PropertyTypeAttribute, contactql.AttributeName, contactql.OpEqual, "a"))
	zzverif.Assert(gSeen != nil && gName != nil, "query groups did not validate")
	var groups []*flows.Group
	sa.groups, groups = flows.VerifGroupAssets(env, sa.fields, gSeen, gName)

	// node 0: optionally set the name, then wait for a message; node 1: optionally set the name
	var acts0, acts1 []flows.Action
	if zzverif.Choice("set-name-before-wait", 2) == 1 {
		acts0 = append(acts0, actions.NewSetContactName("a0", verifAsciiName("name-0")))
	}
	if zzverif.Choice("set-name-after-wait", 2) == 1 {
		acts1 = append(acts1, actions.NewSetContactName("a1", verifAsciiName("name-1")))
	}
	cats := []flows.Category{routers.NewCategory("c0", "All", "e0")}
	router := routers.NewSwitch(waits.NewMsgWait(nil, nil), "", cats, "x", nil, "c0")
	n0 := definition.NewNode("f0n0", acts0, router, []flows.Exit{definition.NewExit("e0", "f0n1")})
	n1 := definition.NewNode("f0n1", acts1, nil, []flows.Exit{definition.NewExit("e1", "")})
	f, err := definition.NewFlow(verifFlowUUID(0), "F0", "eng", flows.FlowTypeMessaging, 1, 10, definition.NewLocalization(), []flows.Node{n0, n1}, nil, nil)
	zzverif.Assert(err == nil, "flow did not validate")
	sa.add(f)

	contact := flows.NewEmptyContact(sa, verifAsciiName("old-name"), "eng", nil)
	// arbitrary stored membership
	for _, g := range groups {
		if zzverif.Choice("member-of-"+g.Name(), 2) == 1 {
			contact.Groups().Add(g)
		}
	}
	before := verifGroupView(contact, groups)
	trig := verifTrigger(sa, contact)
	if trig.Type() == "msg" {
		zzverif.Cover("msg-trigger")
	} else {
		zzverif.Cover("manual-trigger")
	}
	sess, sp, err := verifEngine(10, 10).NewSession(sa, trig)
	zzverif.Assert(err == nil, "NewSession failed")
	verifCheckGroups(env, sess.Contact(), groups, before, sp)
	if sess.Status() != flows.SessionStatusWaiting {
		return
	}
	before = verifGroupView(sess.Contact(), groups)
	sp, err = sess.Resume(verifResume(0))
	zzverif.Assert(err == nil, "Resume failed")
	zzverif.Cover("resumed")
	verifCheckGroups(env, sess.Contact(), groups, before, sp)
}

func verifAsciiName(name string) string {
	s := zzverif.String(name, 1)
	for i := 0; i < len(s); i++ {
		zzverif.Assume(s[i] > ' ' && s[i] < 0x7f && s[i] != '@')
	}
	return s
}

func verifGroupView(c *flows.Contact, groups []*flows.Group) map[string]bool {
	m := map[string]bool{}
	for _, g := range groups {
		m[string(g.UUID())] = c.Groups().FindByUUID(g.UUID()) != nil
	}
	return m
}

func verifCheckGroups(env envs.Environment, c *flows.Contact, groups []*flows.Group, before map[string]bool, sp flows.Sprint) {
	for _, g := range groups {
		in := c.Groups().FindByUUID(g.UUID()) != nil
		want := c.Status() == flows.ContactStatusActive && g.CheckQueryBasedMembership(env, c)
		zzverif.Assert(in == want, "query based group membership does not match the contact when the engine hands back the session")
	}
	view := map[string]bool{}
	for k, v := range before {
		view[k] = v
	}
	for _, e := range sp.Events() {
		if gc, ok := e.(*events.ContactGroupsChangedEvent); ok {
			for _, g := range gc.GroupsAdded {
				view[string(g.UUID)] = true
				if g.UUID == "g-seen" {
					zzverif.Cover("last-seen-group-joined")
				} else {
					zzverif.Cover("name-group-joined")
				}
			}
			for _, g := range gc.GroupsRemoved {
				view[string(g.UUID)] = false
				if g.UUID == "g-name" {
					zzverif.Cover("name-group-left")
				}
			}
		}
	}
	for _, g := range groups {
		zzverif.Assert(view[string(g.UUID())] == (c.Groups().FindByUUID(g.UUID()) != nil), "a membership change was not reported in a contact_groups_changed event")
	}
}
