package engine

import (
	"github.com/nyaruka/gocommon/urns"
	"github.com/nyaruka/goflow/assets"
	"github.com/nyaruka/goflow/contactql"
	"github.com/nyaruka/goflow/envs"
	"github.com/nyaruka/goflow/excellent/types"
	"github.com/nyaruka/goflow/flows"
	"github.com/nyaruka/goflow/flows/actions"
	"github.com/nyaruka/goflow/flows/definition"
	"github.com/nyaruka/goflow/flows/events"
	"github.com/nyaruka/goflow/flows/resumes"
	"github.com/nyaruka/goflow/flows/routers"
	"github.com/nyaruka/goflow/flows/routers/waits"
	"github.com/nyaruka/goflow/flows/triggers"
	"github.com/nyaruka/goflow/zzverif"
	"time"
)

type verifFieldAsset struct {
	key string
	typ assets.FieldType
}

func (f *verifFieldAsset) UUID() assets.FieldUUID { return assets.FieldUUID("uuid-" + f.key) }
func (f *verifFieldAsset) Key() string            { return f.key }
func (f *verifFieldAsset) Name() string           { return f.key }
func (f *verifFieldAsset) Type() assets.FieldType { return f.typ }

// VerifC06_Engine: whenever the engine hands back a session — after a manual
// or msg trigger and after a msg resume, with flows that change the name —
// the contact is in each query based group (on last_seen_on, on the name)
// exactly when it is active and the query matches, and the
// contact_groups_changed events of the sprint add up to the difference.
// cover: msg-trigger, manual-trigger, resumed, last-seen-group-joined, name-group-joined, name-group-left
func VerifC06_Engine() {
	env := envs.NewBuilder().Build()
	sa := verifNewAssets()
	sa.fields = flows.NewFieldAssets([]assets.Field{&verifFieldAsset{"nick", assets.FieldTypeText}})
	gSeen := flows.VerifQueryGroup(env, sa.fields, "g-seen", "Seen", contactql.NewCondition(contactql.PropertyTypeAttribute, contactql.AttributeLastSeenOn, contactql.OpNotEqual, ""))
	gName := flows.VerifQueryGroup(env, sa.fields, "g-name", "Named", contactql.NewCondition(contactql.PropertyTypeAttribute, contactql.AttributeName, contactql.OpEqual, "a"))
	zzverif.Assert(gSeen != nil && gName != nil, "query groups did not validate")
	var groups []*flows.Group
	sa.groups, groups = flows.VerifGroupAssets(env, sa.fields, gSeen, gName)

	// node 0: optionally set the name, then wait for a message; node 1: optionally set the name
	var acts0, acts1 []flows.Action
	if zzverif.Choice("set-name-before-wait", 2) == 1 {
		acts0 = append(acts0, actions.NewSetContactName("a0", verifAsciiName("name-0")))
	}
	if zzverif.Choice("set-name-after-wait", 2) == 1 {
		acts1 = append(acts1, actions.NewSetContactName("a1", verifAsciiName("name-1")))
	}
	cats := []flows.Category{routers.NewCategory("c0", "All", "e0")}
	router := routers.NewSwitch(waits.NewMsgWait(nil, nil), "", cats, "x", nil, "c0")
	n0 := definition.NewNode("f0n0", acts0, router, []flows.Exit{definition.NewExit("e0", "f0n1")})
	n1 := definition.NewNode("f0n1", acts1, nil, []flows.Exit{definition.NewExit("e1", "")})
	f, err := definition.NewFlow(verifFlowUUID(0), "F0", "eng", flows.FlowTypeMessaging, 1, 10, definition.NewLocalization(), []flows.Node{n0, n1}, nil, nil)
	zzverif.Assert(err == nil, "flow did not validate")
	sa.add(f)

	contact := flows.NewEmptyContact(sa, verifAsciiName("old-name"), "eng", nil)
	// arbitrary stored membership
	for _, g := range groups {
		if zzverif.Choice("member-of-"+g.Name(), 2) == 1 {
			contact.Groups().Add(g)
		}
	}
	before := verifGroupView(contact, groups)
	trig := verifTrigger(sa, contact)
	if trig.Type() == "msg" {
		zzverif.Cover("msg-trigger")
	} else {
		zzverif.Cover("manual-trigger")
	}
	sess, sp, err := verifEngine(10, 10).NewSession(sa, trig)
	zzverif.Assert(err == nil, "NewSession failed")
	verifCheckGroups(env, sess.Contact(), groups, before, sp)
	if sess.Status() != flows.SessionStatusWaiting {
		return
	}
	before = verifGroupView(sess.Contact(), groups)
	sp, err = sess.Resume(verifResume(0))
	zzverif.Assert(err == nil, "Resume failed")
	zzverif.Cover("resumed")
	verifCheckGroups(env, sess.Contact(), groups, before, sp)
}

func verifAsciiName(name string) string {
	s := zzverif.String(name, 1)
	for i := 0; i < len(s); i++ {
		zzverif.Assume(s[i] > ' ' && s[i] < 0x7f && s[i] != '@')
	}
	return s
}

func verifGroupView(c *flows.Contact, groups []*flows.Group) map[string]bool {
	m := map[string]bool{}
	for _, g := range groups {
		m[string(g.UUID())] = c.Groups().FindByUUID(g.UUID()) != nil
	}
	return m
}

func verifCheckGroups(env envs.Environment, c *flows.Contact, groups []*flows.Group, before map[string]bool, sp flows.Sprint) {
	for _, g := range groups {
		in := c.Groups().FindByUUID(g.UUID()) != nil
		want := c.Status() == flows.ContactStatusActive && g.CheckQueryBasedMembership(env, c)
		zzverif.Assert(in == want, "query based group membership does not match the contact when the engine hands back the session")
	}
	view := map[string]bool{}
	for k, v := range before {
		view[k] = v
	}
	for _, e := range sp.Events() {
		if gc, ok := e.(*events.ContactGroupsChangedEvent); ok {
			for _, g := range gc.GroupsAdded {
				view[string(g.UUID)] = true
				if g.UUID == "g-seen" {
					zzverif.Cover("last-seen-group-joined")
				} else {
					zzverif.Cover("name-group-joined")
				}
			}
			for _, g := range gc.GroupsRemoved {
				view[string(g.UUID)] = false
				if g.UUID == "g-name" {
					zzverif.Cover("name-group-left")
				}
			}
		}
	}
	for _, g := range groups {
		zzverif.Assert(view[string(g.UUID())] == (c.Groups().FindByUUID(g.UUID()) != nil), "a membership change was not reported in a contact_groups_changed event")
	}
}

// VerifC06_RefreshedEnvironment: a query based group whose condition reads
// differently under the environment's date format (joined > 03-04-2020: the
// third of April day-first, the fourth of March month-first), a contact whose
// field value lies between the two readings, a session that starts under one
// date format, waits, and is resumed with an environment refresh to the other
// format (or none), with or without a contact-modifying action before and
// after the wait: whenever the engine hands the session back the contact is
// in the group exactly when the query matches under the session's current
// environment.
// cover: environment-refreshed, modified-after-refresh, membership-flipped
func VerifC06_RefreshedEnvironment() {
	dayFirst := envs.NewBuilder().WithDateFormat(envs.DateFormatDayMonthYear).Build()
	monthFirst := envs.NewBuilder().WithDateFormat(envs.DateFormatMonthDayYear).Build()
	sa := verifNewAssets()
	sa.fields = flows.NewFieldAssets([]assets.Field{&verifFieldAsset{"joined", assets.FieldTypeDatetime}})
	g := flows.VerifQueryGroup(dayFirst, sa.fields, "b0000000-0000-4000-8000-000000000001", "Late", contactql.NewCondition(contactql.PropertyTypeField, "joined", contactql.OpGreaterThan, "03-04-2020"))
	zzverif.Assert(g != nil, "setup: query group did not validate")
	var groups []*flows.Group
	sa.groups, groups = flows.VerifGroupAssets(dayFirst, sa.fields, g)

	var acts0, acts1 []flows.Action
	if zzverif.Choice("set-name-before-wait", 2) == 1 {
		acts0 = append(acts0, actions.NewSetContactName("a0", "Ann"))
	}
	modifiesAfter := zzverif.Choice("set-name-after-wait", 2) == 1
	if modifiesAfter {
		acts1 = append(acts1, actions.NewSetContactName("a1", "Bea"))
	}
	acts0 = append(acts0, actions.NewSendMsg("m0", "joined @fields.joined", nil, nil, false)) // (a template is evaluated before the wait)
	cats := []flows.Category{routers.NewCategory("c0", "All", verifExitUUID(9, 0, 0))}
	router := routers.NewSwitch(waits.NewMsgWait(nil, nil), "", cats, "x", nil, "c0")
	n0 := definition.NewNode(verifNodeUUID(0, 0), acts0, router, []flows.Exit{definition.NewExit(verifExitUUID(9, 0, 0), verifNodeUUID(0, 1))})
	n1 := definition.NewNode(verifNodeUUID(0, 1), acts1, nil, []flows.Exit{definition.NewExit(verifExitUUID(9, 0, 1), "")})
	f, err := definition.NewFlow(verifFlowUUID(0), "F0", "eng", flows.FlowTypeMessaging, 1, 10, definition.NewLocalization(), []flows.Node{n0, n1}, nil, nil)
	zzverif.Assert(err == nil, "setup: flow did not validate")
	sa.add(f)

	start, other := dayFirst, monthFirst
	if zzverif.Choice("starts-month-first", 2) == 1 {
		start, other = monthFirst, dayFirst
	}
	contact := flows.NewEmptyContact(sa, "Bob", "eng", nil)
	joined := time.Date(2020, 3, 15, 12, 0, 0, 0, time.UTC) // after the fourth of March, before the third of April
	contact.Fields().Set(sa.fields.Get("joined"), flows.NewValue(types.NewXText("2020-03-15T12:00:00Z"), types.NewXDateTime(joined), nil, "", "", ""))
	trig := triggers.NewBuilder(start, assets.NewFlowReference(verifFlowUUID(0), "F0"), contact).Manual().Build()
	sess, _, err := verifEngine(10, 10).NewSession(sa, trig)
	zzverif.Assert(err == nil && sess.Status() == flows.SessionStatusWaiting, "setup: session not waiting")
	check := func() {
		c := sess.Contact()
		in := c.Groups().FindByUUID(groups[0].UUID()) != nil
		want := groups[0].CheckQueryBasedMembership(sess.Environment(), c)
		zzverif.Assert(in == want, "query based group membership does not match the contact under the session's environment when the engine hands back the session")
	}
	check()
	wasIn := sess.Contact().Groups().FindByUUID(groups[0].UUID()) != nil
	var renv envs.Environment
	if zzverif.Choice("environment-refreshed", 2) == 1 {
		renv = other
		zzverif.Cover("environment-refreshed")
		if modifiesAfter {
			zzverif.Cover("modified-after-refresh")
		}
	}
	_, err = sess.Resume(resumes.NewMsg(renv, nil, flows.NewMsgIn(flows.MsgUUID("msg3"), urns.URN("twitter:bob"), nil, "hi", nil)))
	zzverif.Assert(err == nil, "setup: resume failed")
	check()
	if wasIn != (sess.Contact().Groups().FindByUUID(groups[0].UUID()) != nil) {
		zzverif.Cover("membership-flipped")
	}
}

// VerifC06_SprintActions: the scenario of VerifC03_SprintActions — one
// contact-changing action of eleven kinds (name, language, field, static
// groups, URN, status, timezone) before a wait and one after it, a contact
// with arbitrary starting name, field, status and possibly stale stored
// membership, manual or msg trigger, a msg resume — with this property's
// check after each sprint: the contact is in the query based group exactly
// when it is active and the query matches, and a non-active contact is in no
// static group.
// cover: first-sprint, second-sprint, blocked-contact
func VerifC06_SprintActions() { verifSprintActions(true) }

// VerifC06_ContactTimezone: the contact's own timezone is part of the
// environment a session evaluates in (the merged environment: dates in
// queries are compared by calendar day in it).  A contact created at 20:00Z, with no timezone of its own or one in which that instant falls on
// another calendar day, and a group on `created_on = <that UTC day>`: whenever
// the engine hands back the session — after the trigger, after a name-changing
// action before the wait, after the resume — membership is what the query
// gives in the session's merged environment, the same at every hand-back (the
// contact does not change in any way the query can see), and the
// contact_groups_changed events add up.
// cover: no-timezone, other-calendar-day, action-before-wait, resumed, member, not-member
func VerifC06_ContactTimezone() {
	env := envs.NewBuilder().Build()
	sa := verifNewAssets()
	sa.fields = flows.NewFieldAssets(nil)
	var tz *time.Location
	if zzverif.Choice("contact-timezone", 2) == 1 {
		tz, _ = time.LoadLocation("Asia/Tokyo") // 20:00Z is 05:00 of the next day there
		zzverif.Assert(tz != nil, "setup: zone not loaded")
		zzverif.Cover("other-calendar-day")
	} else {
		zzverif.Cover("no-timezone")
	}
	created := time.Date(2024, 1, 1, 20, 0, 0, 0, time.UTC)
	sa.groups = flows.VerifGroupAssetsOf(env, sa.fields)
	contact, cerr := flows.NewContact(sa, "5d76d86b-3bb9-4d5a-b822-c9d86f5d8e4f", 0, "Bob", "eng", flows.ContactStatusActive, tz, created, nil, nil, nil, nil, nil, assets.IgnoreMissing)
	zzverif.Assert(cerr == nil, "setup: contact not created")
	gDay := flows.VerifQueryGroup(env, sa.fields, "g-day", "Created that day", contactql.NewCondition(contactql.PropertyTypeAttribute, contactql.AttributeCreatedOn, contactql.OpEqual, created.Format("2006-01-02")))
	zzverif.Assert(gDay != nil, "query group did not validate")
	var groups []*flows.Group
	sa.groups, groups = flows.VerifGroupAssets(env, sa.fields, gDay)
	if zzverif.Choice("member-of-group", 2) == 1 {
		contact.Groups().Add(groups[0])
	}
	var acts0 []flows.Action
	if zzverif.Choice("set-name-before-wait", 2) == 1 {
		acts0 = append(acts0, actions.NewSetContactName("a0", "Jim"))
		zzverif.Cover("action-before-wait")
	}
	cats := []flows.Category{routers.NewCategory("c0", "All", "e0")}
	router := routers.NewSwitch(waits.NewMsgWait(nil, nil), "", cats, "x", nil, "c0")
	n0 := definition.NewNode("f0n0", acts0, router, []flows.Exit{definition.NewExit("e0", "f0n1")})
	n1 := definition.NewNode("f0n1", []flows.Action{actions.NewSetContactName("a1", "Joe")}, nil, []flows.Exit{definition.NewExit("e1", "")})
	f, err := definition.NewFlow(verifFlowUUID(0), "F0", "eng", flows.FlowTypeMessaging, 1, 10, definition.NewLocalization(), []flows.Node{n0, n1}, nil, nil)
	zzverif.Assert(err == nil, "flow did not validate")
	sa.add(f)

	before := verifGroupView(contact, groups)
	sess, sp, err := verifEngine(10, 10).NewSession(sa, verifManualTrigger(sa, contact))
	zzverif.Assert(err == nil, "NewSession failed")
	verifCheckGroups(sess.MergedEnvironment(), sess.Contact(), groups, before, sp)
	first := sess.Contact().Groups().FindByUUID("g-day") != nil
	if first {
		zzverif.Cover("member")
	} else {
		zzverif.Cover("not-member")
	}
	zzverif.Assert(sess.Status() == flows.SessionStatusWaiting, "setup: session not waiting")
	before = verifGroupView(sess.Contact(), groups)
	sp, err = sess.Resume(verifResume(0))
	zzverif.Assert(err == nil, "Resume failed")
	zzverif.Cover("resumed")
	verifCheckGroups(sess.MergedEnvironment(), sess.Contact(), groups, before, sp)
	zzverif.Assert((sess.Contact().Groups().FindByUUID("g-day") != nil) == first, "membership of a group whose query the contact matches in the same way changed between two hand-backs")
}
