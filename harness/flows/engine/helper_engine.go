package engine

// Engine harness construction: flows, assets and sessions are built with the
// real constructors (no JSON), collaborators behind interfaces are stubs.

import (
	"errors"

	"github.com/nyaruka/gocommon/i18n"
	"github.com/nyaruka/gocommon/urns"
	"github.com/nyaruka/gocommon/uuids"
	"github.com/nyaruka/goflow/assets"
	"github.com/nyaruka/goflow/envs"
	"github.com/nyaruka/goflow/excellent/types"
	"github.com/nyaruka/goflow/flows"
	"github.com/nyaruka/goflow/flows/actions"
	"github.com/nyaruka/goflow/flows/definition"
	"github.com/nyaruka/goflow/flows/resumes"
	"github.com/nyaruka/goflow/flows/routers"
	"github.com/nyaruka/goflow/flows/routers/cases"
	"github.com/nyaruka/goflow/flows/routers/waits"
	"github.com/nyaruka/goflow/flows/triggers"
	"github.com/nyaruka/goflow/zzverif"
)

// verifAssets is a stub flows.SessionAssets: flows come from a map, every
// other asset collection is empty (built with the real constructors).
type verifAssets struct {
	flows.SessionAssets
	flowsByUUID map[assets.FlowUUID]flows.Flow
	order       []assets.FlowUUID
	channels    *flows.ChannelAssets
	fields      *flows.FieldAssets
	groups      *flows.GroupAssets
	globals     *flows.GlobalAssets
	locations   *flows.LocationAssets
	lookups     []assets.FlowUUID
	topics      *flows.TopicAssets
	users       *flows.UserAssets
	resthooks   *flows.ResthookAssets
	labels      *flows.LabelAssets
	realFlows   flows.FlowAssets // when set: the real flow assets (JSON definitions from a source) instead of the stub
}

func (a *verifAssets) Topics() *flows.TopicAssets {
	if a.topics != nil {
		return a.topics
	}
	return flows.NewTopicAssets(nil)
}
func (a *verifAssets) Classifiers() *flows.ClassifierAssets { return flows.NewClassifierAssets(nil) }
func (a *verifAssets) Users() *flows.UserAssets {
	if a.users != nil {
		return a.users
	}
	return flows.NewUserAssets(nil)
}
func (a *verifAssets) Labels() *flows.LabelAssets {
	if a.labels != nil {
		return a.labels
	}
	return flows.NewLabelAssets(nil)
}
func (a *verifAssets) Templates() *flows.TemplateAssets { return flows.NewTemplateAssets(nil) }
func (a *verifAssets) Resthooks() *flows.ResthookAssets {
	if a.resthooks != nil {
		return a.resthooks
	}
	return flows.NewResthookAssets(nil)
}
func (a *verifAssets) OptIns() *flows.OptInAssets       { return flows.NewOptInAssets(nil) }

func (a *verifAssets) Get(uuid assets.FlowUUID) (flows.Flow, error) {
	if f, ok := a.flowsByUUID[uuid]; ok && f != nil {
		return f, nil
	}
	return nil, errors.New("no such flow")
}
func (a *verifAssets) FindByName(name string) (flows.Flow, error) {
	for _, u := range a.order {
		if f := a.flowsByUUID[u]; f != nil && f.Name() == name {
			return f, nil
		}
	}
	return nil, errors.New("no such flow")
}
func (a *verifAssets) Flows() flows.FlowAssets {
	if a.realFlows != nil {
		return a.realFlows
	}
	return a
}
func (a *verifAssets) Channels() *flows.ChannelAssets        { return a.channels }
func (a *verifAssets) Fields() *flows.FieldAssets            { return a.fields }
func (a *verifAssets) Groups() *flows.GroupAssets            { return a.groups }
func (a *verifAssets) Globals() *flows.GlobalAssets          { return a.globals }
func (a *verifAssets) Locations() *flows.LocationAssets      { return a.locations }
func (a *verifAssets) ResolveField(key string) assets.Field  { return nil }
func (a *verifAssets) ResolveGroup(name string) assets.Group { return nil }
func (a *verifAssets) ResolveFlow(name string) assets.Flow   { return nil }
func (a *verifAssets) Source() assets.Source                 { return nil }

func verifNewAssets() *verifAssets {
	return &verifAssets{
		flowsByUUID: map[assets.FlowUUID]flows.Flow{},
		channels:    flows.NewChannelAssets(nil),
		fields:      flows.NewFieldAssets(nil),
		groups:      verifGroupAssets(nil),
		globals:     flows.NewGlobalAssets(nil),
		locations:   flows.NewLocationAssets(nil),
	}
}

func verifGroupAssets(groups []assets.Group) *flows.GroupAssets {
	ga, _ := flows.NewGroupAssets(envs.NewBuilder().Build(), flows.NewFieldAssets(nil), groups)
	return ga
}

func (a *verifAssets) add(f flows.Flow) {
	a.flowsByUUID[f.UUID()] = f
	a.order = append(a.order, f.UUID())
}

// verifOutcome is the stubbed result of a router test: 0 = no match,
// 1 = match, 2 = error.  Set by the harness before each engine call.
var verifOutcomes []int
var verifOutcomePos int

var verifLazyOutcomes bool
var verifOutcomeRecord []int

func verifNextOutcome() int {
	if verifLazyOutcomes {
		o := zzverif.Choice("test-outcome", 3)
		verifOutcomeRecord = append(verifOutcomeRecord, o)
		return o
	}
	if verifOutcomePos < len(verifOutcomes) {
		o := verifOutcomes[verifOutcomePos]
		verifOutcomePos++
		return o
	}
	return 0
}

func init() {
	// a router test whose outcome the harness controls (class E substitution:
	// assigning into the exported test registry works natively as well)
	cases.XTESTS["verif_test"] = types.NewXFunction("verif_test", func(env envs.Environment, args ...types.XValue) types.XValue {
		switch verifNextOutcome() {
		case 1:
			return cases.NewTrueResult(types.NewXText("m"))
		case 2:
			return types.NewXErrorf("stub test error")
		}
		return cases.FalseResult
	})
}

// the type of the symbolic flows (a harness may choose another type that allows the same nodes)
var verifFlowType = flows.FlowTypeMessaging

// node kinds of the symbolic flow graph
const (
	vkPlain     = iota // no router: first exit
	vkSwitch           // switch router without wait
	vkWait             // switch router with msg wait
	vkWaitTO           // switch router with msg wait + timeout
	vkEnter            // enter_flow (non terminal) then plain exit
	vkEnterTerm        // enter_flow (terminal)
	vkEnterFail        // enter_flow (non terminal) followed on the same node by an enter_flow of a flow that does not exist
	vkNumKinds
)

type verifNodeSpec struct {
	kind   int
	dests  [3]int // per exit: -1 = none, else node index in the same flow
	enter  int    // flow index entered
	hasDef bool   // switch router has a default category
	nexits int
	lazy   bool // exits choose their destination on first use
	nnodes int  // number of nodes of the flow (range of lazy destinations)
}

// verifLazyExit is a flows.Exit whose destination is an arbitrary node of its
// flow (or none), chosen the first time the engine asks for it and fixed from
// then on: exits that an execution never follows cost no paths.
type verifLazyExit struct {
	uuid   flows.ExitUUID
	flow   int
	nnodes int
	chosen bool
	dest   flows.NodeUUID
}

func (e *verifLazyExit) UUID() flows.ExitUUID { return e.uuid }
func (e *verifLazyExit) DestinationUUID() flows.NodeUUID {
	if !e.chosen {
		e.chosen = true
		if zzverif.Choice("exit-has-destination", 2) == 1 {
			d := zzverif.Byte("exit-destination")
			zzverif.Assume(int(d) < e.nnodes)
			e.dest = flows.NodeUUID("a0000000-0000-4000-8000-000000000" + string([]byte{byte('0' + e.flow), '0' + d, '0'}))
		}
	}
	return e.dest
}

// identifiers are well-formed version 4 UUIDs (sessions read back from JSON
// are validated natively)
func verifID(kind byte, a, b, c int) string {
	return string([]byte{kind}) + "0000000-0000-4000-8000-000000000" + string([]byte{byte('0' + a), byte('0' + b), byte('0' + c)})
}
func verifNodeUUID(flow, n int) flows.NodeUUID { return flows.NodeUUID(verifID('a', flow, n, 0)) }
func verifExitUUID(flow, n, e int) flows.ExitUUID {
	return flows.ExitUUID(verifID('e', flow, n, e))
}
func verifFlowUUID(flow int) assets.FlowUUID { return assets.FlowUUID(verifID('f', flow, 0, 0)) }

// verifBuildNode builds one node from its spec with the real constructors.
func verifBuildNode(flow, n int, sp verifNodeSpec) flows.Node {
	id := func(s string) string { return string(verifNodeUUID(flow, n)) + s }
	var exits []flows.Exit
	dest := func(e int) flows.NodeUUID {
		if sp.dests[e] < 0 {
			return ""
		}
		return verifNodeUUID(flow, sp.dests[e])
	}
	newExit := func(e int) flows.Exit {
		if sp.lazy {
			return &verifLazyExit{uuid: verifExitUUID(flow, n, e), flow: flow, nnodes: sp.nnodes}
		}
		return definition.NewExit(verifExitUUID(flow, n, e), dest(e))
	}
	var acts []flows.Action
	var router flows.Router
	switch sp.kind {
	case vkPlain:
		for e := 0; e < sp.nexits; e++ {
			exits = append(exits, newExit(e))
		}
	case vkEnter, vkEnterTerm, vkEnterFail:
		acts = append(acts, actions.NewEnterFlow(flows.ActionUUID(id("a")), assets.NewFlowReference(verifFlowUUID(sp.enter), "F"), sp.kind == vkEnterTerm))
		if sp.kind == vkEnterFail {
			acts = append(acts, actions.NewEnterFlow(flows.ActionUUID(id("b")), assets.NewFlowReference(verifFlowUUID(9), "Gone"), false))
		}
		exits = append(exits, newExit(0))
	default:
		// switch router: one case -> category 0 (exit 0); default -> category 1 (exit 1); timeout -> category 2 (exit 2)
		cats := []flows.Category{routers.NewCategory(flows.CategoryUUID(id("c0")), "Match", verifExitUUID(flow, n, 0))}
		exits = append(exits, newExit(0))
		def := flows.CategoryUUID("")
		if sp.hasDef {
			cats = append(cats, routers.NewCategory(flows.CategoryUUID(id("c1")), "Other", verifExitUUID(flow, n, 1)))
			exits = append(exits, newExit(1))
			def = flows.CategoryUUID(id("c1"))
		}
		var wait flows.Wait
		if sp.kind == vkWaitTO {
			cats = append(cats, routers.NewCategory(flows.CategoryUUID(id("c2")), "Timeout", verifExitUUID(flow, n, 2)))
			exits = append(exits, newExit(2))
			wait = waits.NewMsgWait(waits.NewTimeout(60, flows.CategoryUUID(id("c2"))), nil)
		} else if sp.kind == vkWait {
			wait = waits.NewMsgWait(nil, nil)
		}
		cs := []*routers.Case{routers.NewCase(uuids.UUID(id("k0")), "verif_test", nil, flows.CategoryUUID(id("c0")))}
		router = routers.NewSwitch(wait, "", cats, "x", cs, def)
	}
	return definition.NewNode(verifNodeUUID(flow, n), acts, router, exits)
}

func verifBuildFlow(flow int, specs []verifNodeSpec) flows.Flow {
	var nodes []flows.Node
	for n, sp := range specs {
		nodes = append(nodes, verifBuildNode(flow, n, sp))
	}
	f, err := definition.NewFlow(verifFlowUUID(flow), "F"+string(rune('0'+flow)), "eng", flows.FlowTypeMessaging, 1, 10, definition.NewLocalization(), nodes, nil, nil)
	if err != nil {
		zzverif.Assume(false) // not a loadable definition
	}
	return f
}

// verifBuildLazyFlow builds a flow whose exits are lazy, without validate();
// natively the same nodes also go through NewFlow, which must accept them.
func verifBuildLazyFlow(flow int, specs []verifNodeSpec) flows.Flow {
	var nodes []flows.Node
	for n, sp := range specs {
		sp.lazy, sp.nnodes = true, len(specs)
		nodes = append(nodes, verifBuildNode(flow, n, sp))
	}
	return definition.VerifNewFlowUnchecked(verifFlowUUID(flow), "F"+string(rune('0'+flow)), "eng", verifFlowType, definition.NewLocalization(), nodes)
}

func verifEngine(maxSteps, maxResumes int) flows.Engine {
	return NewBuilder().WithMaxStepsPerSprint(maxSteps).WithMaxResumesPerSession(maxResumes).Build()
}

var _ = errors.New

func verifContact(sa flows.SessionAssets) *flows.Contact {
	return flows.NewEmptyContact(sa, "Bob", i18n.Language("eng"), nil)
}

func verifManualTrigger(sa flows.SessionAssets, contact *flows.Contact) flows.Trigger {
	env := envs.NewBuilder().Build()
	return triggers.NewBuilder(env, assets.NewFlowReference(verifFlowUUID(0), "F0"), contact).Manual().Build()
}

func verifMsgIn(text string) *flows.MsgIn {
	return flows.NewMsgIn(flows.MsgUUID("msg1"), urns.URN("tel:+12065551212"), nil, text, nil)
}

func verifResume(kind int) flows.Resume {
	switch kind {
	case 0:
		return resumes.NewMsg(nil, nil, verifMsgIn("hi"))
	case 1:
		return resumes.NewWaitTimeout(nil, nil)
	case 2:
		return resumes.NewRunExpiration(nil, nil)
	}
	return resumes.NewDial(nil, nil, flows.NewDial(flows.DialStatusAnswered, 5))
}

func verifPlainNodeWithActions(flow, n, dest int, acts ...flows.Action) flows.Node {
	d := flows.NodeUUID("")
	if dest >= 0 {
		d = verifNodeUUID(flow, dest)
	}
	return definition.NewNode(verifNodeUUID(flow, n), acts, nil, []flows.Exit{definition.NewExit(verifExitUUID(flow, n, 0), d)})
}

func verifFlowOf(flow int, nodes ...flows.Node) flows.Flow {
	f, err := definition.NewFlow(verifFlowUUID(flow), "F"+string(rune('0'+flow)), "eng", flows.FlowTypeMessaging, 1, 10, definition.NewLocalization(), nodes, nil, nil)
	if err != nil {
		zzverif.Assume(false)
	}
	return f
}

func verifResumeMsg(urn urns.URN) flows.Resume {
	return resumes.NewMsg(nil, nil, flows.NewMsgIn(flows.MsgUUID("msg2"), urn, nil, "again", nil))
}

func envLang(l string) i18n.Language { return i18n.Language(l) }

func verifResumeText(text string) flows.Resume {
	return resumes.NewMsg(nil, nil, flows.NewMsgIn(flows.MsgUUID("msg3"), urns.URN("twitter:bob"), nil, text, nil))
}
