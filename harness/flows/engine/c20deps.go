package engine

import (
	"strings"

	"github.com/nyaruka/gocommon/i18n"
	"github.com/nyaruka/goflow/assets"
	"github.com/nyaruka/goflow/envs"
	"github.com/nyaruka/goflow/excellent/types"
	"github.com/nyaruka/goflow/flows"
	"github.com/nyaruka/goflow/flows/actions"
	"github.com/nyaruka/goflow/flows/definition"
	"github.com/nyaruka/goflow/flows/events"
	"github.com/nyaruka/goflow/flows/triggers"
	"github.com/nyaruka/goflow/zzverif"
)

type verifGlobal struct{ key, value string }

func (g *verifGlobal) Key() string   { return g.key }
func (g *verifGlobal) Name() string  { return "Global " + g.key }
func (g *verifGlobal) Value() string { return g.value }

func verifHasDependency(insp *flows.Inspection, typ, identity string) bool {
	for _, d := range insp.Dependencies {
		if d.Type() == typ && d.Reference().Identity() == identity {
			return true
		}
	}
	return false
}

// VerifC20_Dependencies: flow.Inspect (the real reflection walk of
// flows/inspect over the action structs: engine tags, embedded structs,
// localized fields, through the executor's reflect shim) lists every fixed
// asset a run touches: the group an add_contact_groups action adds, the field
// a set_contact_field action sets, the flow an enter_flow action enters, and
// the field and the global that a send_msg action's text, attachments or
// quick replies refer to — in the base definition, in the base definition and
// a translation, or in a translation only with the base value left empty —
// whenever the run really used them (the events show the group, field, flow,
// and the evaluated values of the field and the global).
// cover: lookup-notation, group, field, flow, template-in-base, template-in-translation-only, translation-with-empty-base, msg-text, msg-attachments, msg-quick-replies
func VerifC20_Dependencies() {
	env := envs.NewBuilder().WithAllowedLanguages("eng", "spa").Build()
	sa := verifNewAssets()
	sa.fields = flows.NewFieldAssets([]assets.Field{&verifFieldAsset{"gender", assets.FieldTypeText}, &verifFieldAsset{"nick", assets.FieldTypeText}})
	sa.globals = flows.NewGlobalAssets([]assets.Global{&verifGlobal{"org_name", "Nyaruka"}})
	var static []*flows.Group
	sa.groups, static = flows.VerifGroupAssets(env, sa.fields, flows.VerifStaticGroup("b0000000-0000-4000-8000-000000000001", "Testers"))
	groupRef := static[0].Reference()

	loc := definition.NewLocalization()
	// the template refers to the field and the global in dot notation or in lookup notation (no dot in the whole template)
	tpl := "@fields.gender @globals.org_name"
	if zzverif.Choice("lookup-notation", 2) == 1 {
		tpl = "@(fields[\"gender\"]) @(globals[\"org_name\"])"
		zzverif.Cover("lookup-notation")
	}
	part := zzverif.Choice("message-part", 3) // text, attachments, quick replies
	where := zzverif.Choice("template-in", 3) // base, translation only (base has other text), translation only (base empty)
	base, trans := []string{tpl}, []string(nil)
	switch where {
	case 0:
		zzverif.Cover("template-in-base")
	case 1:
		base, trans = []string{"plain"}, []string{tpl}
		zzverif.Cover("template-in-translation-only")
	case 2:
		base, trans = nil, []string{tpl}
		zzverif.Cover("translation-with-empty-base")
	}
	text, atts, qrs := "hello", []string(nil), []string(nil)
	prop := ""
	switch part {
	case 0:
		zzverif.Cover("msg-text")
		prop = "text"
		text = ""
		if len(base) > 0 {
			text = base[0]
		}
	case 1:
		zzverif.Cover("msg-attachments")
		prop = "attachments"
		for _, b := range base {
			atts = append(atts, "image/jpeg:http://x/"+b)
		}
		for k := range trans {
			trans[k] = "image/jpeg:http://x/" + trans[k]
		}
	default:
		zzverif.Cover("msg-quick-replies")
		prop = "quick_replies"
		qrs = base
	}
	if trans != nil {
		loc.SetItemTranslation("spa", "a1", prop, trans)
	}
	acts := []flows.Action{
		actions.NewSendMsg("a1", text, atts, qrs, false),
		actions.NewAddContactGroups("a2", []*assets.GroupReference{groupRef}),
		actions.NewSetContactField("a3", assets.NewFieldReference("nick", "Nick"), "Bobby"),
		actions.NewEnterFlow("a4", assets.NewFlowReference(verifFlowUUID(1), "F1"), false),
	}
	n0 := definition.NewNode(verifNodeUUID(0, 0), acts, nil, []flows.Exit{definition.NewExit(verifExitUUID(0, 0, 0), "")})
	f0, err := definition.NewFlow(verifFlowUUID(0), "F0", "eng", flows.FlowTypeMessaging, 1, 10, loc, []flows.Node{n0}, nil, nil)
	zzverif.Assert(err == nil, "setup: flow did not validate")
	sa.add(f0)
	sa.add(verifFlowOf(1, verifPlainNodeWithActions(1, 0, -1)))

	insp := f0.Inspect(sa)

	// a run by a contact whose language selects the translation
	contact := flows.NewEmptyContact(sa, "Bob", i18n.Language("spa"), nil)
	contact.Fields().Set(sa.fields.Get("gender"), flows.NewValue(types.NewXText("Hombre"), nil, nil, "", "", ""))
	trig := triggers.NewBuilder(env, assets.NewFlowReference(verifFlowUUID(0), "F0"), contact).Manual().Build()
	_, sp, err := verifEngine(10, 10).NewSession(sa, trig)
	zzverif.Assert(err == nil, "setup: session did not start")
	for _, e := range sp.Events() {
		switch t := e.(type) {
		case *events.MsgCreatedEvent:
			all := t.Msg.Text() + "|" + strings.Join(t.Msg.QuickReplies(), "|")
			for _, a := range t.Msg.Attachments() {
				all += "|" + string(a)
			}
			if strings.Contains(all, "Hombre") {
				zzverif.Assert(verifHasDependency(insp, "field", "gender"), "a message was built from a contact field that the inspection does not list as a dependency")
			}
			if strings.Contains(all, "Nyaruka") {
				zzverif.Assert(verifHasDependency(insp, "global", "org_name"), "a message was built from a global that the inspection does not list as a dependency")
			}
			if where == 0 || trans != nil {
				zzverif.Assert(strings.Contains(all, "Hombre") && strings.Contains(all, "Nyaruka"), "setup: the run did not evaluate the template")
			}
		case *events.ContactGroupsChangedEvent:
			for _, g := range t.GroupsAdded {
				zzverif.Cover("group")
				zzverif.Assert(verifHasDependency(insp, "group", string(g.UUID)), "a run added the contact to a group that the inspection does not list as a dependency")
			}
		case *events.ContactFieldChangedEvent:
			zzverif.Cover("field")
			zzverif.Assert(verifHasDependency(insp, "field", t.Field.Key), "a run set a field that the inspection does not list as a dependency")
		case *events.FlowEnteredEvent:
			zzverif.Cover("flow")
			zzverif.Assert(verifHasDependency(insp, "flow", string(t.Flow.UUID)), "a run entered a flow that the inspection does not list as a dependency")
		}
	}
}
