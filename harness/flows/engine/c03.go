package engine

import (
	"time"

	"github.com/nyaruka/gocommon/i18n"
	"github.com/nyaruka/gocommon/urns"
	"github.com/nyaruka/goflow/assets"
	"github.com/nyaruka/goflow/assets/static"
	"github.com/nyaruka/goflow/contactql"
	"github.com/nyaruka/goflow/envs"
	"github.com/nyaruka/goflow/flows"
	"github.com/nyaruka/goflow/flows/actions"
	"github.com/nyaruka/goflow/flows/definition"
	"github.com/nyaruka/goflow/flows/events"
	"github.com/nyaruka/goflow/flows/resumes"
	"github.com/nyaruka/goflow/flows/routers"
	"github.com/nyaruka/goflow/flows/routers/waits"
	"github.com/nyaruka/goflow/flows/triggers"
	"github.com/nyaruka/goflow/zzverif"
)

const (
	verifTicketA = flows.TicketUUID("78d1fe0d-7e39-461e-81c3-a6a25f15ed69")
	verifTicketB = flows.TicketUUID("6d1fe0d7-e397-461e-81c3-a6a25f15ed70")
	verifTopicA  = assets.TopicUUID("472a7a73-96cb-4736-b567-056d987cc5b4")
	verifTopicB  = assets.TopicUUID("daa356b6-32af-44f0-9d35-6126d55ec3e9")
)

// verifContactView renders every component of a contact a caller persists
// from events (C03's list: name, language, status, timezone, URNs, fields,
// groups, ticket; last-seen).
func verifContactView(c *flows.Contact, sa *verifAssets) []string {
	v := []string{"name=" + c.Name(), "language=" + string(c.Language()), "status=" + string(c.Status())}
	if c.Timezone() != nil {
		v = append(v, "timezone="+c.Timezone().String())
	}
	for _, u := range c.URNs() {
		v = append(v, "urn="+string(u.URN()))
	}
	for _, g := range c.Groups().All() {
		v = append(v, "group="+string(g.UUID()))
	}
	if f := sa.fields.Get("nick"); f != nil {
		if val := c.Fields().Get(f); val != nil {
			v = append(v, "nick="+val.Text.Native())
		}
	}
	if t := c.Ticket(); t != nil {
		v = append(v, "ticket="+string(t.UUID()))
		if t.Topic() != nil {
			v = append(v, "topic="+string(t.Topic().UUID()))
		}
		if t.Assignee() != nil {
			v = append(v, "assignee="+t.Assignee().Email())
		}
	}
	if c.LastSeenOn() != nil {
		v = append(v, "last-seen="+c.LastSeenOn().String())
	}
	return v
}

// VerifC03_ResumeRefresh: a waiting session is resumed (msg, timeout,
// expiration) with a copy of its contact that differs from the session's
// contact in one arbitrary component — or in none, or with no contact at all.
// Replaying the sprint's contact events (contact_refreshed replaces the
// contact by the one the event carries, as read back from the event's JSON;
// msg_received sets last-seen) over the contact as it was before the sprint
// reproduces the session's contact afterwards, component by component.
// cover: same, no-contact, name, language, status, timezone, urn, field, group, ticket-opened, ticket-closed, ticket-replaced, ticket-topic, ticket-assignee, ticket-unassigned
func VerifC03_ResumeRefresh() {
	sa := verifNewAssets()
	sa.fields = flows.NewFieldAssets([]assets.Field{&verifFieldAsset{"nick", assets.FieldTypeText}})
	sa.groups = verifGroupAssets([]assets.Group{static.NewGroup("0f1a2b3c-4d5e-4f60-8a7b-9c0d1e2f3a4b", "Testers", "")})
	sa.topics = flows.NewTopicAssets([]assets.Topic{static.NewTopic(verifTopicA, "Weather"), static.NewTopic(verifTopicB, "Computers")})
	sa.users = flows.NewUserAssets([]assets.User{static.NewUser("bob@nyaruka.com", "Bob"), static.NewUser("jim@nyaruka.com", "Jim")})
	topicA, topicB := sa.topics.Get(verifTopicA), sa.topics.Get(verifTopicB)
	bob, jim := sa.users.Get("bob@nyaruka.com"), sa.users.Get("jim@nyaruka.com")
	sa.add(verifBuildFlow(0, []verifNodeSpec{{kind: vkWaitTO, dests: [3]int{-1, -1, -1}, hasDef: true}}))
	eng := verifEngine(5, 10)

	build := func() *flows.Contact {
		c := flows.NewEmptyContact(sa, "Bob", i18n.Language("eng"), nil)
		c.AddURN(urns.URN("twitter:bob"), nil)
		return c
	}
	old := build()
	hadTicket := zzverif.Choice("has-ticket", 2) == 1
	if hadTicket {
		old.SetTicket(flows.NewTicket(verifTicketA, topicA, bob))
	}
	env := envs.NewBuilder().Build()
	sess, _, err := eng.NewSession(sa, triggers.NewBuilder(env, assets.NewFlowReference(verifFlowUUID(0), "F0"), old).Manual().Build())
	zzverif.Assert(err == nil && sess.Status() == flows.SessionStatusWaiting, "setup: session not waiting")
	s := sess.(*session)
	before := verifContactView(s.contact, sa)

	var refreshed *flows.Contact
	diff := zzverif.Choice("difference", 15)
	if diff != 1 {
		refreshed = s.contact.Clone()
	}
	switch diff {
	case 0:
		zzverif.Cover("same")
	case 1:
		zzverif.Cover("no-contact")
	case 2:
		b := zzverif.Byte("new-name")
		zzverif.Assume(b >= 'A' && b <= 'z' && b != '\\')
		refreshed.SetName(string([]byte{b}))
		if b != 'B' {
			zzverif.Cover("name")
		}
	case 3:
		refreshed.SetLanguage("fra")
		zzverif.Cover("language")
	case 4:
		refreshed.SetStatus(flows.ContactStatusBlocked)
		zzverif.Cover("status")
	case 5:
		refreshed.SetTimezone(time.UTC)
		zzverif.Cover("timezone")
	case 6:
		refreshed.AddURN(urns.URN("twitter:jim"), nil)
		zzverif.Cover("urn")
	case 7:
		f := sa.fields.Get("nick")
		refreshed.Fields().Set(f, refreshed.Fields().Parse(env, sa.fields, f, "bobby"))
		zzverif.Cover("field")
	case 8:
		refreshed.Groups().Add(sa.groups.All()[0])
		zzverif.Cover("group")
	case 9:
		zzverif.Assume(!hadTicket)
		refreshed.SetTicket(flows.NewTicket(verifTicketA, topicA, bob))
		zzverif.Cover("ticket-opened")
	case 10:
		zzverif.Assume(hadTicket)
		refreshed.SetTicket(nil)
		zzverif.Cover("ticket-closed")
	case 11:
		zzverif.Assume(hadTicket)
		refreshed.SetTicket(flows.NewTicket(verifTicketB, topicA, bob))
		zzverif.Cover("ticket-replaced")
	case 12:
		zzverif.Assume(hadTicket)
		refreshed.SetTicket(flows.NewTicket(verifTicketA, topicB, bob))
		zzverif.Cover("ticket-topic")
	case 13:
		zzverif.Assume(hadTicket)
		refreshed.SetTicket(flows.NewTicket(verifTicketA, topicA, jim))
		zzverif.Cover("ticket-assignee")
	default:
		zzverif.Assume(hadTicket)
		refreshed.SetTicket(flows.NewTicket(verifTicketA, topicA, nil))
		zzverif.Cover("ticket-unassigned")
	}

	var resume flows.Resume
	switch zzverif.Choice("resume-type", 3) {
	case 0:
		resume = resumes.NewMsg(nil, refreshed, flows.NewMsgIn(flows.MsgUUID("msg3"), urns.URN("twitter:bob"), nil, "hi", nil))
	case 1:
		resume = resumes.NewWaitTimeout(nil, refreshed)
	default:
		resume = resumes.NewRunExpiration(nil, refreshed)
	}
	sp, err := s.Resume(resume)
	zzverif.Assert(err == nil, "resume failed")

	view := before
	for _, e := range sp.Events() {
		switch ev := e.(type) {
		case *events.ContactRefreshedEvent:
			c, err := flows.ReadContact(sa, ev.Contact, assets.PanicOnMissing)
			zzverif.Assert(err == nil, "the contact of a contact_refreshed event cannot be read")
			view = verifContactView(c, sa)
		case *events.MsgReceivedEvent:
			kept := []string{}
			for _, item := range view {
				if len(item) < 10 || item[:10] != "last-seen=" {
					kept = append(kept, item)
				}
			}
			_ = ev
			view = append(kept, "last-seen="+resume.ResumedOn().String()) // when the message was received
		}
	}
	zzverif.Assert(verifSameSnapshot(view, verifContactView(s.contact, sa)), "replaying the sprint's contact events over the contact before the resume does not reproduce the session contact")
}

// ---- a whole sprint's events over the contact before it -----------------

type verifCV struct {
	name, language, status, timezone, nick, ticket, lastSeen string
	urns                                                     []string
	groups                                                   map[string]bool
}

func verifCVOf(c *flows.Contact, sa *verifAssets) *verifCV {
	v := &verifCV{name: c.Name(), language: string(c.Language()), status: string(c.Status()), groups: map[string]bool{}, nick: "<unset>"}
	if c.Timezone() != nil {
		v.timezone = c.Timezone().String()
	}
	for _, u := range c.URNs() {
		v.urns = append(v.urns, string(u.URN()))
	}
	for _, g := range c.Groups().All() {
		v.groups[string(g.UUID())] = true
	}
	if val := c.Fields().Get(sa.fields.Get("nick")); val != nil {
		v.nick = val.Text.Native()
	}
	if c.Ticket() != nil {
		v.ticket = string(c.Ticket().UUID())
	}
	if c.LastSeenOn() != nil {
		v.lastSeen = c.LastSeenOn().String()
	}
	return v
}

func (v *verifCV) render() []string {
	out := []string{v.name, v.language, v.status, v.timezone, v.nick, v.ticket, v.lastSeen, "urns"}
	out = append(out, v.urns...)
	for _, g := range []string{"g-static", "g-named"} {
		if v.groups[g] {
			out = append(out, g)
		}
	}
	return out
}

// the reference applier, written from the event documentation
func (v *verifCV) apply(evs []flows.Event, receivedOn string) {
	for _, e := range evs {
		switch t := e.(type) {
		case *events.ContactNameChangedEvent:
			v.name = t.Name
		case *events.ContactLanguageChangedEvent:
			v.language = t.Language
		case *events.ContactStatusChangedEvent:
			v.status = string(t.Status)
		case *events.ContactTimezoneChangedEvent:
			v.timezone = t.Timezone
		case *events.ContactURNsChangedEvent:
			v.urns = nil
			for _, u := range t.URNs {
				v.urns = append(v.urns, string(u))
			}
		case *events.ContactFieldChangedEvent:
			if t.Value == nil {
				v.nick = "<unset>"
			} else {
				v.nick = t.Value.Text.Native()
			}
		case *events.ContactGroupsChangedEvent:
			for _, g := range t.GroupsAdded {
				v.groups[string(g.UUID)] = true
			}
			for _, g := range t.GroupsRemoved {
				v.groups[string(g.UUID)] = false
			}
		case *events.MsgReceivedEvent:
			v.lastSeen = receivedOn
		}
	}
}

func verifContactAction(name string, uuid flows.ActionUUID) flows.Action {
	static := []*assets.GroupReference{assets.NewGroupReference("g-static", "Static")}
	switch 1 + zzverif.Choice(name, 11) {
	case 1:
		return actions.NewSetContactName(uuid, verifAsciiName(name+"-name"))
	case 2:
		return actions.NewSetContactName(uuid, "")
	case 3:
		return actions.NewSetContactLanguage(uuid, "fra")
	case 4:
		return actions.NewSetContactField(uuid, assets.NewFieldReference("nick", "Nick"), "bobby")
	case 5:
		return actions.NewSetContactField(uuid, assets.NewFieldReference("nick", "Nick"), "")
	case 6:
		return actions.NewAddContactGroups(uuid, static)
	case 7:
		return actions.NewRemoveContactGroups(uuid, static, false)
	case 8:
		return actions.NewRemoveContactGroups(uuid, nil, true)
	case 9:
		return actions.NewAddContactURN(uuid, "twitter", "jim")
	case 10:
		return actions.NewSetContactStatus(uuid, []flows.ContactStatus{flows.ContactStatusBlocked, flows.ContactStatusActive}[zzverif.Choice(name+"-status", 2)])
	}
	return actions.NewSetContactTimezone(uuid, "Africa/Kigali")
}

// VerifC03_SprintActions: a flow with a contact-changing action before a wait
// and another after it — each any of: set name (to an arbitrary one-character
// name, which joins or leaves the query group on the name, or to none), language, field (set / clear), add to /
// remove from a static group, remove from all groups, add a URN, status
// (blocked / active), timezone — run by the real engine for a contact with an
// arbitrary starting name, field, static and (possibly stale) query based
// membership and status, started by a
// manual or a msg trigger and resumed by a message: after each sprint,
// replaying the sprint's events in order over the contact as it was before
// the sprint reproduces the session's contact (query based membership and
// last-seen included).
// cover: first-sprint, second-sprint, blocked-contact, msg-trigger, manual-trigger, seen-later-than-the-message
func VerifC03_SprintActions() { verifSprintActions(false) }

// verifSprintActions: the scenario of VerifC03_SprintActions; with membership
// set it is VerifC06_SprintActions' check that is made after each sprint.
func verifSprintActions(membership bool) {
	env := envs.NewBuilder().Build()
	sa := verifNewAssets()
	sa.fields = flows.NewFieldAssets([]assets.Field{&verifFieldAsset{"nick", assets.FieldTypeText}})
	gNamed := flows.VerifQueryGroup(env, sa.fields, "g-named", "Named", contactql.NewCondition(contactql.PropertyTypeAttribute, contactql.AttributeName, contactql.OpEqual, "a"))
	zzverif.Assert(gNamed != nil, "setup: query group did not validate")
	var groups []*flows.Group
	sa.groups, groups = flows.VerifGroupAssets(env, sa.fields, flows.VerifStaticGroup("g-static", "Static"), gNamed)

	cats := []flows.Category{routers.NewCategory("c0", "All", "e0")}
	router := routers.NewSwitch(waits.NewMsgWait(nil, nil), "", cats, "x", nil, "c0")
	n0 := definition.NewNode("f0n0", []flows.Action{verifContactAction("action-before-wait", "a0")}, router, []flows.Exit{definition.NewExit("e0", "f0n1")})
	n1 := definition.NewNode("f0n1", []flows.Action{verifContactAction("action-after-wait", "a1")}, nil, []flows.Exit{definition.NewExit("e1", "")})
	f, err := definition.NewFlow(verifFlowUUID(0), "F0", "eng", flows.FlowTypeMessaging, 1, 10, definition.NewLocalization(), []flows.Node{n0, n1}, nil, nil)
	zzverif.Assert(err == nil, "setup: flow did not validate")
	sa.add(f)

	contact := flows.NewEmptyContact(sa, []string{"Bob", "a"}[zzverif.Choice("old-name", 2)], "eng", nil)
	contact.AddURN(urns.URN("twitter:bob"), nil)
	if zzverif.Choice("has-nick", 2) == 1 {
		fd := sa.fields.Get("nick")
		contact.Fields().Set(fd, contact.Fields().Parse(env, sa.fields, fd, "bobby"))
	}
	if zzverif.Choice("blocked", 2) == 1 {
		contact.SetStatus(flows.ContactStatusBlocked)
		zzverif.Cover("blocked-contact")
	} else {
		if zzverif.Choice("in-static-group", 2) == 1 {
			contact.Groups().Add(groups[0])
		}
		// stored query based membership may be stale: the engine corrects it, announced
		if zzverif.Choice("in-named-group", 2) == 1 {
			contact.Groups().Add(groups[1])
		}
	}
	// the contact may have been seen before: long ago, or (clocks of two hosts,
	// messages handled out of order, a refreshed contact) later than the
	// message that is about to be received
	switch zzverif.Choice("seen-before", 3) {
	case 1:
		contact.SetLastSeenOn(time.Date(2000, 1, 1, 0, 0, 0, 0, time.UTC))
	case 2:
		contact.SetLastSeenOn(time.Date(2100, 1, 1, 0, 0, 0, 0, time.UTC))
		zzverif.Cover("seen-later-than-the-message")
	}
	view := verifCVOf(contact, sa)
	trig := verifTrigger(sa, contact)
	if trig.Type() == "msg" {
		zzverif.Cover("msg-trigger")
	} else {
		zzverif.Cover("manual-trigger")
	}
	sess, sp, err := verifEngine(10, 10).NewSession(sa, trig)
	zzverif.Assert(err == nil, "NewSession failed")
	view.apply(sp.Events(), trig.TriggeredOn().String()) // last-seen from the received message
	if membership {
		verifCheckSprintMembership(env, sess.Contact(), groups)
	} else {
		zzverif.Assert(verifSameSnapshot(view.render(), verifCVOf(sess.Contact(), sa).render()), "replaying the first sprint's events over the starting contact does not reproduce the session contact")
	}
	zzverif.Cover("first-sprint")
	if sess.Status() != flows.SessionStatusWaiting {
		return
	}
	view = verifCVOf(sess.Contact(), sa)
	resume := verifResumeText("hi")
	sp, err = sess.Resume(resume)
	zzverif.Assert(err == nil, "Resume failed")
	view.apply(sp.Events(), resume.ResumedOn().String())
	if membership {
		verifCheckSprintMembership(env, sess.Contact(), groups)
	} else {
		zzverif.Assert(verifSameSnapshot(view.render(), verifCVOf(sess.Contact(), sa).render()), "replaying the second sprint's events over the contact before the resume does not reproduce the session contact")
	}
	zzverif.Cover("second-sprint")
}

func verifCheckSprintMembership(env envs.Environment, c *flows.Contact, groups []*flows.Group) {
	for _, g := range groups {
		in := c.Groups().FindByUUID(g.UUID()) != nil
		if g.UsesQuery() {
			want := c.Status() == flows.ContactStatusActive && g.CheckQueryBasedMembership(env, c)
			zzverif.Assert(in == want, "query based group membership does not match the contact when the engine hands back the session")
		} else if c.Status() != flows.ContactStatusActive {
			zzverif.Assert(!in, "a non-active contact is still in a static group when the engine hands back the session")
		}
	}
}
