package engine

import (
	"time"

	"github.com/nyaruka/gocommon/i18n"
	"github.com/nyaruka/gocommon/urns"
	"github.com/nyaruka/goflow/assets"
	"github.com/nyaruka/goflow/assets/static"
	"github.com/nyaruka/goflow/envs"
	"github.com/nyaruka/goflow/flows"
	"github.com/nyaruka/goflow/flows/events"
	"github.com/nyaruka/goflow/flows/resumes"
	"github.com/nyaruka/goflow/flows/triggers"
	"github.com/nyaruka/goflow/zzverif"
)

const (
	verifTicketA = flows.TicketUUID("78d1fe0d-7e39-461e-81c3-a6a25f15ed69")
	verifTicketB = flows.TicketUUID("6d1fe0d7-e397-461e-81c3-a6a25f15ed70")
	verifTopicA  = assets.TopicUUID("472a7a73-96cb-4736-b567-056d987cc5b4")
	verifTopicB  = assets.TopicUUID("daa356b6-32af-44f0-9d35-6126d55ec3e9")
)

// verifContactView renders every component of a contact a caller persists
// from events (C03's list: name, language, status, timezone, URNs, fields,
// groups, ticket; last-seen).
func verifContactView(c *flows.Contact, sa *verifAssets) []string {
	v := []string{"name=" + c.Name(), "language=" + string(c.Language()), "status=" + string(c.Status())}
	if c.Timezone() != nil {
		v = append(v, "timezone="+c.Timezone().String())
	}
	for _, u := range c.URNs() {
		v = append(v, "urn="+string(u.URN()))
	}
	for _, g := range c.Groups().All() {
		v = append(v, "group="+string(g.UUID()))
	}
	if f := sa.fields.Get("nick"); f != nil {
		if val := c.Fields().Get(f); val != nil {
			v = append(v, "nick="+val.Text.Native())
		}
	}
	if t := c.Ticket(); t != nil {
		v = append(v, "ticket="+string(t.UUID()))
		if t.Topic() != nil {
			v = append(v, "topic="+string(t.Topic().UUID()))
		}
		if t.Assignee() != nil {
			v = append(v, "assignee="+t.Assignee().Email())
		}
	}
	if c.LastSeenOn() != nil {
		v = append(v, "last-seen="+c.LastSeenOn().String())
	}
	return v
}

// VerifC03_ResumeRefresh: a waiting session is resumed (msg, timeout,
// expiration) with a copy of its contact that differs from the session's
// contact in one arbitrary component — or in none, or with no contact at all.
// Replaying the sprint's contact events (contact_refreshed replaces the
// contact by the one the event carries, as read back from the event's JSON;
// msg_received sets last-seen) over the contact as it was before the sprint
// reproduces the session's contact afterwards, component by component.
// cover: same, no-contact, name, language, status, timezone, urn, field, group, ticket-opened, ticket-closed, ticket-replaced, ticket-topic, ticket-assignee, ticket-unassigned
func VerifC03_ResumeRefresh() {
	sa := verifNewAssets()
	sa.fields = flows.NewFieldAssets([]assets.Field{&verifFieldAsset{"nick", assets.FieldTypeText}})
	sa.groups = verifGroupAssets([]assets.Group{static.NewGroup("0f1a2b3c-4d5e-4f60-8a7b-9c0d1e2f3a4b", "Testers", "")})
	sa.topics = flows.NewTopicAssets([]assets.Topic{static.NewTopic(verifTopicA, "Weather"), static.NewTopic(verifTopicB, "Computers")})
	sa.users = flows.NewUserAssets([]assets.User{static.NewUser("bob@nyaruka.com", "Bob"), static.NewUser("jim@nyaruka.com", "Jim")})
	topicA, topicB := sa.topics.Get(verifTopicA), sa.topics.Get(verifTopicB)
	bob, jim := sa.users.Get("bob@nyaruka.com"), sa.users.Get("jim@nyaruka.com")
	sa.add(verifBuildFlow(0, []verifNodeSpec{{kind: vkWaitTO, dests: [3]int{-1, -1, -1}, hasDef: true}}))
	eng := verifEngine(5, 10)

	build := func() *flows.Contact {
		c := flows.NewEmptyContact(sa, "Bob", i18n.Language("eng"), nil)
		c.AddURN(urns.URN("twitter:bob"), nil)
		return c
	}
	old := build()
	hadTicket := zzverif.Choice("has-ticket", 2) == 1
	if hadTicket {
		old.SetTicket(flows.NewTicket(verifTicketA, topicA, bob))
	}
	env := envs.NewBuilder().Build()
	sess, _, err := eng.NewSession(sa, triggers.NewBuilder(env, assets.NewFlowReference(verifFlowUUID(0), "F0"), old).Manual().Build())
	zzverif.Assert(err == nil && sess.Status() == flows.SessionStatusWaiting, "setup: session not waiting")
	s := sess.(*session)
	before := verifContactView(s.contact, sa)

	var refreshed *flows.Contact
	diff := zzverif.Choice("difference", 15)
	if diff != 1 {
		refreshed = s.contact.Clone()
	}
	switch diff {
	case 0:
		zzverif.Cover("same")
	case 1:
		zzverif.Cover("no-contact")
	case 2:
		b := zzverif.Byte("new-name")
		zzverif.Assume(b >= 'A' && b <= 'z' && b != '\\')
		refreshed.SetName(string([]byte{b}))
		if b != 'B' {
			zzverif.Cover("name")
		}
	case 3:
		refreshed.SetLanguage("fra")
		zzverif.Cover("language")
	case 4:
		refreshed.SetStatus(flows.ContactStatusBlocked)
		zzverif.Cover("status")
	case 5:
		refreshed.SetTimezone(time.UTC)
		zzverif.Cover("timezone")
	case 6:
		refreshed.AddURN(urns.URN("twitter:jim"), nil)
		zzverif.Cover("urn")
	case 7:
		f := sa.fields.Get("nick")
		refreshed.Fields().Set(f, refreshed.Fields().Parse(env, sa.fields, f, "bobby"))
		zzverif.Cover("field")
	case 8:
		refreshed.Groups().Add(sa.groups.All()[0])
		zzverif.Cover("group")
	case 9:
		zzverif.Assume(!hadTicket)
		refreshed.SetTicket(flows.NewTicket(verifTicketA, topicA, bob))
		zzverif.Cover("ticket-opened")
	case 10:
		zzverif.Assume(hadTicket)
		refreshed.SetTicket(nil)
		zzverif.Cover("ticket-closed")
	case 11:
		zzverif.Assume(hadTicket)
		refreshed.SetTicket(flows.NewTicket(verifTicketB, topicA, bob))
		zzverif.Cover("ticket-replaced")
	case 12:
		zzverif.Assume(hadTicket)
		refreshed.SetTicket(flows.NewTicket(verifTicketA, topicB, bob))
		zzverif.Cover("ticket-topic")
	case 13:
		zzverif.Assume(hadTicket)
		refreshed.SetTicket(flows.NewTicket(verifTicketA, topicA, jim))
		zzverif.Cover("ticket-assignee")
	default:
		zzverif.Assume(hadTicket)
		refreshed.SetTicket(flows.NewTicket(verifTicketA, topicA, nil))
		zzverif.Cover("ticket-unassigned")
	}

	var resume flows.Resume
	switch zzverif.Choice("resume-type", 3) {
	case 0:
		resume = resumes.NewMsg(nil, refreshed, flows.NewMsgIn(flows.MsgUUID("msg3"), urns.URN("twitter:bob"), nil, "hi", nil))
	case 1:
		resume = resumes.NewWaitTimeout(nil, refreshed)
	default:
		resume = resumes.NewRunExpiration(nil, refreshed)
	}
	sp, err := s.Resume(resume)
	zzverif.Assert(err == nil, "resume failed")

	view := before
	for _, e := range sp.Events() {
		switch ev := e.(type) {
		case *events.ContactRefreshedEvent:
			c, err := flows.ReadContact(sa, ev.Contact, assets.PanicOnMissing)
			zzverif.Assert(err == nil, "the contact of a contact_refreshed event cannot be read")
			view = verifContactView(c, sa)
		case *events.MsgReceivedEvent:
			kept := []string{}
			for _, item := range view {
				if len(item) < 10 || item[:10] != "last-seen=" {
					kept = append(kept, item)
				}
			}
			_ = ev
			view = append(kept, "last-seen="+resume.ResumedOn().String()) // when the message was received
		}
	}
	zzverif.Assert(verifSameSnapshot(view, verifContactView(s.contact, sa)), "replaying the sprint's contact events over the contact before the resume does not reproduce the session contact")
}
