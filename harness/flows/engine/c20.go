package engine

import (
	"errors"

	"github.com/nyaruka/gocommon/urns"
	"github.com/nyaruka/goflow/assets"
	"github.com/nyaruka/goflow/assets/static"
	"github.com/nyaruka/goflow/flows"
	"github.com/nyaruka/goflow/flows/actions"
	"github.com/nyaruka/goflow/flows/definition"
	"github.com/nyaruka/goflow/flows/events"
	"github.com/nyaruka/goflow/flows/inspect"
	"github.com/nyaruka/goflow/flows/routers"
	"github.com/nyaruka/goflow/utils"
	"github.com/nyaruka/goflow/zzverif"
	"github.com/shopspring/decimal"
)

type verifAirtime struct{}

func (verifAirtime) Transfer(sender urns.URN, recipient urns.URN, amounts map[string]decimal.Decimal, logHTTP flows.HTTPLogCallback) (*flows.AirtimeTransfer, error) {
	switch zzverif.Choice("airtime-outcome", 3) {
	case 0:
		return &flows.AirtimeTransfer{ExternalID: "ext1", Sender: sender, Recipient: recipient, Currency: "RWF", Amount: decimal.New(10, 0)}, nil
	case 1:
		return &flows.AirtimeTransfer{Sender: sender, Recipient: recipient}, errors.New("transfer failed")
	}
	return nil, errors.New("service unavailable")
}

func verifResultName(name string) string {
	// a valid result name: a letter then up to two arbitrary letters/digits/spaces/underscores
	b := []byte{'R'}
	n := zzverif.Choice(name+".len", 3)
	for i := 0; i < n; i++ {
		c := zzverif.Byte(name)
		zzverif.Assume((c >= 'a' && c <= 'z') || (c >= 'A' && c <= 'Z') || (c >= '0' && c <= '9') || c == ' ' || c == '_')
		b = append(b, c)
	}
	return string(b)
}

// VerifC20_ActionResults: for every result-saving action type that runs
// without the HTTP stack (set_run_result with/without category, open_ticket,
// transfer_airtime with a service that succeeds, fails or is unavailable,
// call_classifier on its dependency-missing path, call_webhook and
// call_resthook against a stub service that answers 200 / 400 / 410 or fails
// to connect) with an arbitrary valid
// result name: every result the run saves is declared by the action
// (ResultContainer, what inspect.Results collects) under the same key, and
// its category is among the declared ones when categories are declared.
// cover: set_run_result, open_ticket, transfer_airtime, call_classifier, call_webhook, call_resthook, resthook-subscribers-called, category-checked
func VerifC20_ActionResults() {
	name := verifResultName("result-name")
	var act flows.Action
	kind := zzverif.Choice("action", 6)
	sa := verifNewAssets()
	svc := &verifWebhookSvc{body: `{"ok":true}`}
	switch kind {
	case 0:
		zzverif.Cover("set_run_result")
		cat := ""
		if zzverif.Choice("has-category", 2) == 1 {
			cat = "Big"
		}
		act = actions.NewSetRunResult("a1", name, "v", cat)
	case 1:
		zzverif.Cover("open_ticket")
		act = actions.NewOpenTicket("a1", nil, "note", nil, name)
	case 2:
		zzverif.Cover("transfer_airtime")
		act = actions.NewTransferAirtime("a1", map[string]decimal.Decimal{"RWF": decimal.New(10, 0)}, name)
	case 3:
		zzverif.Cover("call_classifier")
		act = actions.NewCallClassifier("a1", assets.NewClassifierReference("cls1", "Booking"), "hello", name)
	default:
		switch zzverif.Choice("webhook-outcome", 4) {
		case 1:
			svc.status = 400
		case 2:
			svc.status = 410
		case 3:
			svc.broken = true
		}
		if kind == 4 {
			zzverif.Cover("call_webhook")
			act = actions.NewCallWebhook("a1", "POST", "http://example.com/hook", map[string]string{"X-Test": "@contact.name"}, "{}", name)
		} else {
			zzverif.Cover("call_resthook")
			act = actions.NewCallResthook("a1", "new-registration", name)
			sa.resthooks = flows.NewResthookAssets([]assets.Resthook{static.NewResthook("new-registration", []string{"http://example.com/a", "http://example.com/b"})})
		}
	}
	verifOneNodeFlow(sa, act)
	eng := NewBuilder().WithAirtimeServiceFactory(func(flows.SessionAssets) (flows.AirtimeService, error) { return verifAirtime{}, nil }).
		WithWebhookServiceFactory(func(flows.SessionAssets) (flows.WebhookService, error) { return svc, nil }).Build()
	contact := verifContact(sa)
	if zzverif.Choice("contact-has-whatsapp", 2) == 1 {
		contact.AddURN("whatsapp:250788123123", nil)
	}
	sess, _, err := eng.NewSession(sa, verifManualTrigger(sa, contact))
	zzverif.Assert(err == nil, "NewSession failed")

	zzverif.Known("C20-open-ticket-undeclared-result", kind == 1)
	var declared []*flows.ResultInfo
	if rc, ok := act.(inspect.ResultContainer); ok {
		rc.Results(func(i *flows.ResultInfo) { declared = append(declared, i) })
	}
	if kind == 5 {
		// the resthook really had subscribers that were called
		called := 0
		for _, e := range sess.Runs()[0].Events() {
			if e.Type() == events.TypeWebhookCalled {
				called++
			}
		}
		zzverif.Assert(called == 2, "setup: the subscribers of the resthook were not called")
		zzverif.Cover("resthook-subscribers-called")
	}
	for key, res := range sess.Runs()[0].Results() {
		var info *flows.ResultInfo
		for _, d := range declared {
			if d.Key == key {
				info = d
			}
		}
		zzverif.Assert(info != nil, "a run saved a result that the flow's inspection does not list")
		if len(info.Categories) > 0 {
			zzverif.Cover("category-checked")
			found := false
			for _, c := range info.Categories {
				if c == res.Category {
					found = true
				}
			}
			zzverif.Assert(found, "a saved result's category is not among the categories the inspection lists")
		}
	}
}

// VerifC20_RouterResults: a switch router with an arbitrary valid result name
// and arbitrary test outcomes: the saved result's key and category are among
// those the router declares.
// cover: saved, not-saved
func VerifC20_RouterResults() {
	name := verifResultName("result-name")
	cats := []flows.Category{routers.NewCategory("c0", "Red", "e0"), routers.NewCategory("c1", "Other", "e1")}
	def := flows.CategoryUUID("")
	if zzverif.Choice("has-default", 2) == 1 {
		def = "c1"
	}
	router := routers.NewSwitch(nil, name, cats, "x", []*routers.Case{routers.NewCase("k0", "verif_test", nil, "c0")}, def)
	n0 := definition.NewNode("f0n0", nil, router, []flows.Exit{definition.NewExit("e0", ""), definition.NewExit("e1", "")})
	f, err := definition.NewFlow(verifFlowUUID(0), "F0", "eng", flows.FlowTypeMessaging, 1, 10, definition.NewLocalization(), []flows.Node{n0}, nil, nil)
	zzverif.Assert(err == nil, "flow did not validate")
	sa := verifNewAssets()
	sa.add(f)
	verifLazyOutcomes = true
	sess, _, err := verifEngine(10, 10).NewSession(sa, verifManualTrigger(sa, verifContact(sa)))
	zzverif.Assert(err == nil, "NewSession failed")
	declared := definition.VerifRouterResults(f)
	if len(sess.Runs()[0].Results()) == 0 {
		zzverif.Cover("not-saved")
	}
	for key, res := range sess.Runs()[0].Results() {
		zzverif.Cover("saved")
		ok := false
		for _, d := range declared {
			if d.Key == key {
				for _, c := range d.Categories {
					if c == res.Category {
						ok = true
					}
				}
			}
		}
		zzverif.Assert(ok, "a router saved a result whose key or category its inspection does not list")
	}
}

// VerifC20_WaitingExits: in every execution of the symbolic flow pairs, the
// exit by which a resumed run leaves its wait node is among the waiting exits
// the flow's inspection lists.
// cover: left-by-waiting-exit, timeout-exit, offline-flow
func VerifC20_WaitingExits() {
	sa := verifNewAssets()
	counts := []int{1, 1}
	if zzverif.Thorough() {
		counts = []int{2, 1}
	}
	// messaging flows, or offline (Surveyor) flows, which may contain the same msg waits
	verifFlowType = flows.FlowTypeMessaging
	if zzverif.Choice("offline-flows", 2) == 1 {
		verifFlowType = flows.FlowTypeMessagingOffline
		zzverif.Cover("offline-flow")
	}
	verifSymbolicFlows(sa, counts)
	verifFlowType = flows.FlowTypeMessaging
	verifLazyOutcomes = true
	sess, _, err := verifEngine(3, 10).NewSession(sa, verifTrigger(sa, verifContact(sa)))
	if err != nil || sess.Status() != flows.SessionStatusWaiting {
		return
	}
	s := sess.(*session)
	w := s.waitingRun()
	idx := len(w.Path()) - 1
	kind := zzverif.Choice("resume-type", 3)
	if _, err := s.Resume(verifResume(kind)); err != nil {
		return
	}
	exit := w.Path()[idx].ExitUUID()
	if exit == "" {
		return
	}
	zzverif.Cover("left-by-waiting-exit")
	if kind == 1 {
		zzverif.Cover("timeout-exit")
	}
	found := false
	for _, e := range definition.VerifWaitingExits(w.Flow()) {
		if e == exit {
			found = true
		}
	}
	zzverif.Assert(found, "a resumed run left its wait by an exit that is not listed as a waiting exit")
}

// verifExtractResults mirrors flow.extractResults without the reflection walk:
// per node, the results its actions declare (ResultContainer) and its router
// enumerates.
func verifExtractResults(f flows.Flow) []flows.ExtractedResult {
	var out []flows.ExtractedResult
	for _, n := range f.Nodes() {
		n := n
		for _, a := range n.Actions() {
			a := a
			if rc, ok := a.(inspect.ResultContainer); ok {
				rc.Results(func(i *flows.ResultInfo) { out = append(out, flows.ExtractedResult{Node: n, Action: a, Info: i}) })
			}
		}
		if r := n.Router(); r != nil {
			r.EnumerateResults(func(i *flows.ResultInfo) { out = append(out, flows.ExtractedResult{Node: n, Router: r, Info: i}) })
		}
	}
	return out
}

// VerifC20_MergedSpecs: the result specs the inspection reports
// (flows.NewResultSpecs over what the nodes declare) cover every result a run
// saves, also when several sources save the same key — two actions of one
// node, an action and the router of the same node, sources on different
// nodes, with the same or different names and categories: the saved
// category is among the merged spec's categories and the saving node among
// its node UUIDs.
// cover: same-node-action-and-router, same-node-two-actions, two-nodes, saved
func VerifC20_MergedSpecs() {
	names := []string{"Color", "color", "Size"}
	nameA := names[zzverif.Choice("first-name", 3)]
	nameB := names[zzverif.Choice("second-name", 3)]
	catsB := []string{"Red", "Big"}
	shape := zzverif.Choice("shape", 3)
	routerOf := func(name string) flows.Router {
		cats := []flows.Category{routers.NewCategory("c0", "Red", "e0"), routers.NewCategory("c1", "Other", "e1")}
		return routers.NewSwitch(nil, name, cats, "x", []*routers.Case{routers.NewCase("k0", "verif_test", nil, "c0")}, "c1")
	}
	exits2 := []flows.Exit{definition.NewExit("e0", ""), definition.NewExit("e1", "")}
	var nodes []flows.Node
	switch shape {
	case 0:
		zzverif.Cover("same-node-action-and-router")
		nodes = []flows.Node{definition.NewNode("f0n0", []flows.Action{actions.NewSetRunResult("a1", nameA, "v", "Pending")}, routerOf(nameB), exits2)}
	case 1:
		zzverif.Cover("same-node-two-actions")
		nodes = []flows.Node{definition.NewNode("f0n0", []flows.Action{actions.NewSetRunResult("a1", nameA, "v", "Pending"),
			actions.NewSetRunResult("a2", nameB, "w", catsB[zzverif.Choice("second-category", 2)])}, nil, []flows.Exit{definition.NewExit("e0", "")})}
	default:
		zzverif.Cover("two-nodes")
		nodes = []flows.Node{
			definition.NewNode("f0n0", []flows.Action{actions.NewSetRunResult("a1", nameA, "v", "Pending")}, nil, []flows.Exit{definition.NewExit("e9", "f0n1")}),
			definition.NewNode("f0n1", nil, routerOf(nameB), exits2)}
	}
	f, err := definition.NewFlow(verifFlowUUID(0), "F0", "eng", flows.FlowTypeMessaging, 1, 10, definition.NewLocalization(), nodes, nil, nil)
	zzverif.Assert(err == nil, "flow did not validate")
	sa := verifNewAssets()
	sa.add(f)
	verifLazyOutcomes = true
	sess, sp, err := verifEngine(10, 10).NewSession(sa, verifManualTrigger(sa, verifContact(sa)))
	zzverif.Assert(err == nil, "NewSession failed")
	specs := flows.NewResultSpecs(verifExtractResults(f))
	// every result value a run held at any time is announced by a run_result_changed event
	for _, e := range sp.Events() {
		rc, ok := e.(*events.RunResultChangedEvent)
		if !ok {
			continue
		}
		zzverif.Cover("saved")
		var spec *flows.ResultSpec
		for _, s := range specs {
			if s.Key == utils.Snakify(rc.Name) {
				spec = s
			}
		}
		zzverif.Assert(spec != nil, "a run saved a result that the inspection's result specs do not list")
		found := false
		for _, c := range spec.Categories {
			if c == rc.Category {
				found = true
			}
		}
		zzverif.Assert(found, "a run saved a result with a category that the merged result spec does not list")
	}
	_ = sess
}
