package operators

import (
	"time"

	"github.com/nyaruka/gocommon/dates"
	"github.com/nyaruka/goflow/envs"
	"github.com/nyaruka/goflow/excellent/types"
	"github.com/nyaruka/goflow/zzverif"
	"github.com/shopspring/decimal"
)

// VerifC13_EqualOperator: "The '=' operator agrees with these canonical
// renderings."  For two values of one kind — datetimes that are an arbitrary
// number of nanoseconds (two independent unknowns in a window around a
// microsecond boundary) after one instant, each in UTC or in a +02:00 zone
// (so: the same instant in two zones, instants that differ only below the
// rendered precision, equal values); numbers m x 10^-e with arbitrary
// mantissas at different scales (1.50 and 1.5); times of day; dates; texts —
// `a = b` is true exactly when the stored text forms of a and b are equal,
// `a != b` is its negation, and a value is `=` to the value read back from
// its own stored text.
// cover: datetime, same-instant-other-zone, below-rendered-precision, number, different-scale, time, date, text, equal, unequal
func VerifC13_EqualOperator() {
	env := envs.NewBuilder().WithDateFormat(envs.DateFormatDayMonthYear).WithTimeFormat(envs.TimeFormatHourMinute).Build()
	var a, b types.XValue
	switch zzverif.Choice("kind", 5) {
	case 0:
		zzverif.Cover("datetime")
		zones := []*time.Location{time.UTC, time.FixedZone("CAT", 2*60*60)}
		za, zb := zzverif.Choice("zone-a", 2), zzverif.Choice("zone-b", 2)
		na := 123455900 + int64(zzverif.Int("nanos-a", 0, 255))
		nb := 123455900 + int64(zzverif.Int("nanos-b", 0, 255))
		ta := time.Unix(1577880000, na).In(zones[za])
		tb := time.Unix(1577880000, nb).In(zones[zb])
		if za != zb {
			zzverif.Cover("same-instant-other-zone")
		}
		if na != nb && na/1000 == nb/1000 {
			zzverif.Cover("below-rendered-precision")
		}
		a, b = types.NewXDateTime(ta), types.NewXDateTime(tb)
		back, xerr := types.ToXDateTime(env, types.NewXText(types.Render(a)))
		zzverif.Assert(xerr == nil, "the stored text of a datetime does not read back")
		zzverif.Assert(verifTruth(Equal(env, a, back)), "a datetime is not '=' to the value read back from its stored text")
	case 1:
		zzverif.Cover("number")
		ea, eb := zzverif.Choice("scale-a", 3), zzverif.Choice("scale-b", 3)
		ma, mb := int64(zzverif.Int("mantissa-a", 0, 255)), int64(zzverif.Int("mantissa-b", 0, 255))
		if ea != eb {
			zzverif.Cover("different-scale")
		}
		a, b = types.NewXNumber(decimal.New(ma, -int32(ea))), types.NewXNumber(decimal.New(mb, -int32(eb)))
		back, xerr := types.ToXNumber(env, types.NewXText(types.Render(a)))
		zzverif.Assert(xerr == nil, "the stored text of a number does not read back")
		zzverif.Assert(verifTruth(Equal(env, a, back)), "a number is not '=' to the value read back from its stored text")
	case 2:
		zzverif.Cover("time")
		ha, hb := zzverif.Int("hour-a", 0, 23), zzverif.Int("hour-b", 0, 23)
		a = types.NewXTime(verifTimeOfDay(ha, 30, 15, 0))
		b = types.NewXTime(verifTimeOfDay(hb, 30, 15, zzverif.Choice("nanos-b", 2)*500))
	case 3:
		zzverif.Cover("date")
		da, db := zzverif.Int("day-a", 1, 28), zzverif.Int("day-b", 1, 28)
		a, b = types.NewXDate(verifDate(2020, 2, da)), types.NewXDate(verifDate(2020, 2, db))
	default:
		zzverif.Cover("text")
		sa, sb := zzverif.String("text-a", 2), zzverif.String("text-b", 2)
		a, b = types.NewXText(sa), types.NewXText(sb)
	}
	same := types.Render(a) == types.Render(b)
	if same {
		zzverif.Cover("equal")
	} else {
		zzverif.Cover("unequal")
	}
	eq, neq := Equal(env, a, b), NotEqual(env, a, b)
	zzverif.Assert(verifTruth(eq) == same, "'=' disagrees with the equality of the operands' stored text forms")
	zzverif.Assert(verifTruth(neq) == !same, "'!=' disagrees with the inequality of the operands' stored text forms")
}

func verifTruth(v types.XValue) bool {
	b, ok := v.(*types.XBoolean)
	zzverif.Assert(ok, "a comparison did not return a boolean")
	return b.Native()
}

func verifTimeOfDay(h, m, s, ns int) dates.TimeOfDay { return dates.NewTimeOfDay(h, m, s, ns) }
func verifDate(y, m, d int) dates.Date               { return dates.NewDate(y, m, d) }
