package excellent

// Hand-built Excellent3 parse trees: the generated parser (ATN simulation) is
// not encoded; harnesses construct the generated context objects directly and
// run the real visitor over them.

import (
	"github.com/antlr4-go/antlr/v4"
	gen "github.com/nyaruka/goflow/antlr/gen/excellent3"
)

func verifToken(typ int, text string) antlr.Token {
	t := antlr.NewCommonToken(&antlr.TokenSourceCharStreamPair{}, typ, antlr.TokenDefaultChannel, -1, -1)
	t.SetText(text)
	return t
}

func verifExprBase() *gen.ExpressionContext {
	return gen.NewExpressionContext(nil, nil, 0)
}

func verifAtomBase() *gen.AtomContext {
	return gen.NewAtomContext(nil, nil, 0)
}

// verifTextLiteral builds the parse tree of a TEXT token.
func verifTextLiteral(lit string) *gen.TextLiteralContext {
	c := gen.NewTextLiteralContext(nil, verifExprBase())
	c.AddTokenNode(verifToken(gen.Excellent3ParserTEXT, lit))
	return c
}

// verifLexTEXT is the TEXT lexer rule of antlr/Excellent3.g4,
//
//	TEXT: '"' (~["] | '\\"')* '"';
//
// as a longest-match recogniser: it returns the length of the longest prefix
// of s that the rule matches, or -1.  (Validated against the generated lexer
// by the self-test.)
func verifLexTEXT(s string) int {
	if len(s) == 0 || s[0] != '"' {
		return -1
	}
	best := -1
	reach := make([]bool, len(s)+2)
	reach[1] = true
	for i := 1; i < len(s); i++ {
		if !reach[i] {
			continue
		}
		if s[i] == '"' {
			best = i + 1
		} else {
			reach[i+1] = true
			if s[i] == '\\' && i+1 < len(s) && s[i+1] == '"' {
				reach[i+2] = true
			}
		}
	}
	return best
}

// VerifTextLiteralValue runs the real visitor over the parse tree of a TEXT
// token and returns the string the literal denotes.
func VerifTextLiteralValue(lit string) string {
	v := &visitor{}
	return v.VisitTextLiteral(verifTextLiteral(lit)).(*TextLiteral).Value.Native()
}

// VerifLexTEXT exposes the TEXT recogniser to harnesses in other packages.
func VerifLexTEXT(s string) int { return verifLexTEXT(s) }
