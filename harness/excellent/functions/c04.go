package functions

import (
	"sort"
	"time"

	"github.com/nyaruka/gocommon/dates"
	"github.com/nyaruka/goflow/envs"
	"github.com/nyaruka/goflow/excellent/types"
	"github.com/nyaruka/goflow/zzverif"
	"github.com/shopspring/decimal"
)

const verifNumArgKinds = 22

// verifArgValue returns a value of the k-th kind; kinds 3 and 6 are symbolic
// (an arbitrary 2-byte ASCII text, an arbitrary integer in [-100,155]);
// boundary integers (±2^31, 2^63-1) and huge magnitudes are concrete kinds:
// decimal arithmetic on an unconstrained 64-bit symbolic integer (multiply and
// divide by powers of ten) is beyond all three solvers.
func verifArgValue(k int) types.XValue {
	switch k {
	case 0:
		return nil
	case 1:
		return types.XTextEmpty
	case 2:
		return types.NewXText("abc def")
	case 3:
		s := zzverif.String("text", 2)
		for i := 0; i < len(s); i++ {
			// digits are excluded: a number parsed from unknown digits leads to
			// symbolic-by-constant multi-word division in math/big that no
			// solver here decides; numeric text is the concrete kind "12" and
			// unknown numbers are kind 6
			zzverif.Assume(s[i] != 0 && s[i] < 0x80 && (s[i] < '0' || s[i] > '9'))
		}
		return types.NewXText(s)
	case 4:
		return types.NewXText("12")
	case 5:
		return types.NewXNumberFromInt(0)
	case 6:
		return types.NewXNumber(decimal.New(int64(zzverif.Int("integer", -100, 155)), 0))
	case 7:
		return types.RequireXNumberFromString("0.5")
	case 8:
		return types.RequireXNumberFromString("-99999999999999999999.99")
	case 9:
		return types.XBooleanTrue
	case 10:
		return types.NewXDateTime(time.Date(2024, 2, 29, 23, 59, 59, 0, time.UTC))
	case 11:
		return types.NewXDate(dates.NewDate(2024, 2, 29))
	case 12:
		return types.NewXTime(dates.NewTimeOfDay(23, 59, 59, 0))
	case 13:
		return types.NewXArray()
	case 14:
		return types.NewXArray(types.NewXNumberFromInt(1), types.NewXText("a"), types.NewXArray(types.NewXText("x")), nil)
	case 15:
		return types.NewXObject(map[string]types.XValue{"a": types.NewXNumberFromInt(1), "__default__": types.NewXText("dflt")})
	case 16:
		return types.NewXErrorf("boom")
	case 18:
		return types.NewXNumberFromInt64(1 << 31)
	case 19:
		return types.NewXNumberFromInt64(-(1 << 31) - 1)
	case 20:
		return types.NewXNumberFromInt64(1<<63 - 1)
	case 21:
		return types.NewXNumber(decimal.New(1, 400))
	}
	return XFUNCTIONS["upper"]
}

// functions whose core is reflection-based JSON or an opaque library call on
// text are outside this harness (see DESIGN C04 "Outside")
var verifSkipFunctions = map[string]bool{
	"json": true, "parse_json": true, "extract": true, "extract_object": true, // encoding/json, jsonparser
	"format_location": true, "format_urn": true, "urn_parts": true, // phonenumbers metadata
}

func verifFunctionNames() []string {
	names := make([]string, 0, len(XFUNCTIONS))
	for n := range XFUNCTIONS {
		if !verifSkipFunctions[n] {
			names = append(names, n)
		}
	}
	sort.Strings(names)
	return names
}

func verifCallTotal(name string, args []types.XValue) {
	// loops over an argument in [-100,155] (repeat, text_slice, …) run up to 155 times; a 1e400 number renders to 401 characters
	zzverif.Unwind(1000)
	env := envs.NewBuilder().Build()
	res := XFUNCTIONS[name].Call(env, args)
	if types.IsXError(res) {
		zzverif.Cover("error-value")
	} else {
		zzverif.Cover("value")
	}
}

// VerifC04_Functions1: every registered function called with no argument and
// with one argument of every kind (incl. an arbitrary short text and an
// arbitrary 64-bit integer) returns a value or an error value: no panic.
// cover: value, error-value
func VerifC04_Functions1() {
	names := verifFunctionNames()
	name := zzverif.ChoiceOf("function", names)
	if zzverif.Choice("arity", 2) == 0 {
		verifCallTotal(name, nil)
		return
	}
	verifCallTotal(name, []types.XValue{verifArgValue(zzverif.Choice("arg-kind", verifNumArgKinds))})
}

var verifKinds2 = []int{0, 3, 6, 14, 16}

func verifIsSymbolicKind(k int) bool { return k == 3 || k == 6 }

// VerifC04_Functions2: every registered function with two arguments: the
// first of every kind, the second from a menu of 5 (quick) / every kind
// (thorough); at most one of the two is symbolic (symbolic-by-symbolic
// decimal arithmetic — e.g. mod of two unknown numbers — is beyond the
// solvers and outside the claim).
// cover: value, error-value
func VerifC04_Functions2() {
	names := verifFunctionNames()
	name := zzverif.ChoiceOf("function", names)
	ka := zzverif.Choice("arg-kind", verifNumArgKinds)
	var kb int
	if zzverif.Thorough() {
		kb = zzverif.Choice("arg-kind", verifNumArgKinds)
	} else {
		kb = verifKinds2[zzverif.Choice("arg-kind", len(verifKinds2))]
	}
	zzverif.Assume(!(verifIsSymbolicKind(ka) && verifIsSymbolicKind(kb)))
	// compiling an unknown pattern runs the whole regexp/syntax parser and
	// compiler on symbolic text (0.2 s per path, 8000 paths): regex_match is
	// covered with an unknown subject and concrete patterns only
	zzverif.Assume(!(name == "regex_match" && kb == 3))
	a := verifArgValue(ka)
	b := verifArgValue(kb)
	verifCallTotal(name, []types.XValue{a, b})
}

var verifKinds3 = []int{0, 3, 6, 14, 16}
var verifKinds3Thorough = []int{0, 3, 6, 8, 14, 16, 19}

// VerifC04_Functions3: every registered function with three (quick) / three
// and four (thorough) arguments from a reduced menu (nil, arbitrary text,
// arbitrary integer, huge number, nested array, error).
// cover: value, error-value
func VerifC04_Functions3() {
	names := verifFunctionNames()
	name := zzverif.ChoiceOf("function", names)
	n, kinds := 3, verifKinds3
	if zzverif.Thorough() {
		n, kinds = 3+zzverif.Choice("extra-arg", 2), verifKinds3Thorough
	}
	var args []types.XValue
	nsym := 0
	for i := 0; i < n; i++ {
		k := kinds[zzverif.Choice("arg-kind", len(kinds))]
		if verifIsSymbolicKind(k) {
			nsym++
		}
		zzverif.Assume(nsym <= 1)
		args = append(args, verifArgValue(k))
	}
	verifCallTotal(name, args)
}

// VerifArgValue / VerifNumArgKinds export the argument menu to the harnesses
// of other packages (router tests, operators).
func VerifArgValue(k int) types.XValue { return verifArgValue(k) }

const VerifNumArgKinds = verifNumArgKinds

func VerifIsSymbolicKind(k int) bool { return verifIsSymbolicKind(k) }
