package functions

import (
	"sort"

	"github.com/nyaruka/goflow/envs"
	"github.com/nyaruka/goflow/excellent/types"
	"github.com/nyaruka/goflow/zzverif"
)

// functions whose core is reflection-based JSON or an opaque library call on
// text are outside this harness (see DESIGN C04 "Outside")
var verifSkipFunctions = map[string]bool{
	"json": true, "parse_json": true, "extract": true, "extract_object": true, // encoding/json, jsonparser
	"format_location": true, "format_urn": true, "urn_parts": true, // phonenumbers metadata
	"has_phone": true, "has_state": true, "has_district": true, "has_ward": true, // router tests (registered when flows/routers/cases is loaded): phone metadata, locations
}

func verifFunctionNames() []string {
	names := make([]string, 0, len(XFUNCTIONS))
	for n := range XFUNCTIONS {
		if !verifSkipFunctions[n] {
			names = append(names, n)
		}
	}
	sort.Strings(names)
	return names
}

func verifCallTotal(name string, args []types.XValue) {
	// loops over an argument in [-100,155] (repeat, text_slice, …) run up to 155 times; a 1e400 number renders to 401 characters
	zzverif.Unwind(1000)
	env := envs.NewBuilder().Build()
	res := XFUNCTIONS[name].Call(env, args)
	if types.IsXError(res) {
		zzverif.Cover("error-value")
	} else {
		zzverif.Cover("value")
	}
}

// VerifC04_Functions1: every registered function called with no argument and
// with one argument of every kind (incl. an arbitrary short text and an
// arbitrary 64-bit integer) returns a value or an error value: no panic.
// hang: violation
// cover: value, error-value
func VerifC04_Functions1() {
	names := verifFunctionNames()
	name := zzverif.ChoiceOf("function", names)
	if zzverif.Choice("arity", 2) == 0 {
		verifCallTotal(name, nil)
		return
	}
	verifCallTotal(name, []types.XValue{verifArgValue(zzverif.Choice("arg-kind", verifNumArgKinds))})
}

var verifKinds2 = []int{0, 3, 6, 14, 16, 24}

// first arguments of the quick tier's two-argument calls (every kind is a
// first argument in Functions1 and in the thorough tier)
var verifKinds2First = []int{0, 1, 2, 3, 4, 6, 7, 9, 10, 13, 15, 16, 20, 22, 23}

// VerifC04_Functions2: every registered function with two arguments: the
// first from a menu of 14 kinds, the second from a menu of 5 (quick) / both of
// every kind (thorough); at most one of the two is symbolic (symbolic-by-symbolic
// decimal arithmetic — e.g. mod of two unknown numbers — is beyond the
// solvers and outside the claim).
// hang: violation
// cover: value, error-value
func VerifC04_Functions2() {
	names := verifFunctionNames()
	name := zzverif.ChoiceOf("function", names)
	var ka, kb int
	if zzverif.Thorough() {
		ka = zzverif.Choice("arg-kind", verifNumArgKinds)
		kb = zzverif.Choice("arg-kind", verifNumArgKinds)
	} else {
		ka = verifKinds2First[zzverif.Choice("arg-kind", len(verifKinds2First))]
		kb = verifKinds2[zzverif.Choice("arg-kind", len(verifKinds2))]
	}
	zzverif.Assume(!(verifIsSymbolicKind(ka) && verifIsSymbolicKind(kb)))
	// compiling an unknown pattern runs the whole regexp/syntax parser and
	// compiler on symbolic text (0.2 s per path, 8000 paths): regex_match is
	// covered with an unknown subject and concrete patterns only
	zzverif.Assume(!(name == "regex_match" && kb == 3))
	a := verifArgValue(ka)
	b := verifArgValue(kb)
	verifCallTotal(name, []types.XValue{a, b})
}

var verifKinds3 = []int{0, 2, 3, 5, 6, 14, 16}
var verifKinds3Thorough = []int{0, 3, 6, 8, 14, 16, 19}

// VerifC04_Functions3: every registered function with three (quick) / three
// and four (thorough) arguments from a reduced menu (nil, arbitrary text,
// arbitrary integer, huge number, nested array, error).
// hang: violation
// cover: value, error-value
func VerifC04_Functions3() {
	names := verifFunctionNames()
	name := zzverif.ChoiceOf("function", names)
	n, kinds := 3, verifKinds3
	if zzverif.Thorough() {
		n, kinds = 3+zzverif.Choice("extra-arg", 2), verifKinds3Thorough
	}
	var args []types.XValue
	nsym := 0
	for i := 0; i < n; i++ {
		k := kinds[zzverif.Choice("arg-kind", len(kinds))]
		if verifIsSymbolicKind(k) {
			nsym++
		}
		zzverif.Assume(nsym <= 1)
		args = append(args, verifArgValue(k))
	}
	verifCallTotal(name, args)
}
