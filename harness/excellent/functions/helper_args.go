package functions

import (
	"time"

	"github.com/nyaruka/gocommon/dates"
	"github.com/nyaruka/goflow/excellent/types"
	"github.com/nyaruka/goflow/zzverif"
	"github.com/shopspring/decimal"
)

const verifNumArgKinds = 26

// verifArgValue returns a value of the k-th kind; kinds 3 and 6 are symbolic
// (an arbitrary 2-byte ASCII text, an arbitrary integer in [-100,155]);
// boundary integers (±2^31, 2^63-1) and huge magnitudes are concrete kinds:
// decimal arithmetic on an unconstrained 64-bit symbolic integer (multiply and
// divide by powers of ten) is beyond all three solvers.
func verifArgValue(k int) types.XValue {
	switch k {
	case 0:
		return nil
	case 1:
		return types.XTextEmpty
	case 2:
		return types.NewXText("abc def")
	case 3:
		s := zzverif.String("text", 2)
		for i := 0; i < len(s); i++ {
			// digits are excluded: a number parsed from unknown digits leads to
			// symbolic-by-constant multi-word division in math/big that no
			// solver here decides; numeric text is the concrete kind "12" and
			// unknown numbers are kind 6
			zzverif.Assume(s[i] != 0 && s[i] < 0x80 && (s[i] < '0' || s[i] > '9'))
		}
		return types.NewXText(s)
	case 4:
		return types.NewXText("12")
	case 5:
		return types.NewXNumberFromInt(0)
	case 6:
		return types.NewXNumber(decimal.New(int64(zzverif.Int("integer", -100, 155)), 0))
	case 7:
		return types.RequireXNumberFromString("0.5")
	case 8:
		return types.RequireXNumberFromString("-99999999999999999999.99")
	case 9:
		return types.XBooleanTrue
	case 10:
		return types.NewXDateTime(time.Date(2024, 2, 29, 23, 59, 59, 0, time.UTC))
	case 11:
		return types.NewXDate(dates.NewDate(2024, 2, 29))
	case 12:
		return types.NewXTime(dates.NewTimeOfDay(23, 59, 59, 0))
	case 13:
		return types.NewXArray()
	case 14:
		return types.NewXArray(types.NewXNumberFromInt(1), types.NewXText("a"), types.NewXArray(types.NewXText("x")), nil)
	case 15:
		return types.NewXObject(map[string]types.XValue{"a": types.NewXNumberFromInt(1), "__default__": types.NewXText("dflt")})
	case 16:
		return types.NewXErrorf("boom")
	case 18:
		return types.NewXNumberFromInt64(1 << 31)
	case 19:
		return types.NewXNumberFromInt64(-(1 << 31) - 1)
	case 20:
		return types.NewXNumberFromInt64(1<<63 - 1)
	case 21:
		return types.NewXNumber(decimal.New(1, 400))
	case 22:
		return types.NewXText("éé") // multi-byte characters: 2 characters, 4 bytes
	case 23:
		// an array of an arbitrary 2-byte text (may contain a line break) and an empty text
		s := zzverif.String("item", 2)
		for i := 0; i < len(s); i++ {
			zzverif.Assume(s[i] != 0 && s[i] < 0x80 && (s[i] < '0' || s[i] > '9'))
		}
		return types.NewXArray(types.NewXText(s), types.XTextEmpty)
	case 24:
		return types.NewXNumberFromInt64(-(1 << 31)) // the smallest 32-bit integer
	case 25:
		return types.NewXNumberFromInt64(1<<31 - 1)
	}
	return XFUNCTIONS["upper"]
}

func verifIsSymbolicKind(k int) bool { return k == 3 || k == 6 || k == 23 }

// VerifArgValue / VerifNumArgKinds export the argument menu to the harnesses
// of other packages (router tests, operators).
func VerifArgValue(k int) types.XValue { return verifArgValue(k) }

const VerifNumArgKinds = verifNumArgKinds

func VerifIsSymbolicKind(k int) bool { return verifIsSymbolicKind(k) }
