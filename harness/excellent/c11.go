package excellent

import (
	"strings"

	"github.com/nyaruka/goflow/excellent/types"
	"github.com/nyaruka/goflow/zzverif"
)

// verifGenAtom / verifGenExpr generate the source text of an arbitrary
// expression over the full grammar (every alternative of `expression` and
// `atom`) of nesting depth ≤ d, with arbitrary spacing around operators,
// arbitrary identifier case and arbitrary literal content.
func verifName() string {
	names := []string{"a", "Foo", "webhook", "x_1"}
	if !zzverif.Thorough() {
		return names[1]
	}
	return names[zzverif.Choice("name", len(names))]
}

// spacing is one arbitrary choice per generated expression; the number of
// inner nodes is bounded by a budget (2 quick / 3 thorough)
var verifSpace string
var verifBudget int

func verifSp() string { return verifSpace }

func verifSpend(d int) int {
	if verifBudget <= 0 {
		return 0
	}
	return d
}

func verifGenAtom(d int) string {
	d = verifSpend(d)
	k := 1
	if d > 0 {
		k = 5
	}
	c := zzverif.Choice("atom", k)
	if c > 0 {
		verifBudget--
	}
	switch c {
	case 1:
		return "(" + verifGenExpr(d-1) + ")"
	case 2:
		a := verifGenAtom(d - 1)
		switch zzverif.Choice("nparams", 3) {
		case 0:
			return a + "()"
		case 1:
			return a + "(" + verifGenExpr(d-1) + ")"
		}
		return a + "(" + verifGenExpr(d-1) + "," + verifSp() + verifGenExpr(0) + ")"
	case 3:
		if zzverif.Choice("numeric-key", 2) == 1 {
			return verifGenAtom(d-1) + ".0"
		}
		return verifGenAtom(d-1) + "." + verifName()
	case 4:
		return verifGenAtom(d-1) + "[" + verifGenExpr(d-1) + "]"
	}
	return verifName()
}

var verifBinOpsQuick = []string{"^", "/", "-", "<=", "!=", "&"} // one per precedence level
var verifBinOps = []string{"^", "*", "/", "+", "-", "<=", "<", ">=", ">", "=", "!=", "&"}

func verifGenExpr(d int) string {
	d = verifSpend(d)
	k := 4
	if d > 0 {
		k = 7
	}
	c := zzverif.Choice("expression", k)
	if c >= 4 {
		verifBudget--
		c++ // (case 4 is an alias of case 0)
	}
	switch c {
	case 0:
		return verifGenAtom(d)
	case 1:
		// text literal with one arbitrary ASCII character (escapes included)
		c := zzverif.Byte("char")
		zzverif.Assume(c >= 0x20 && c < 0x7f)
		return types_Quote(string([]byte{c}))
	case 2:
		nums := []string{"1.50", "007", "0", "12"}
		if !zzverif.Thorough() {
			return nums[0]
		}
		return nums[zzverif.Choice("number", len(nums))]
	case 3:
		kw := []string{"FALSE", "true", "Null"}
		if !zzverif.Thorough() {
			return kw[0]
		}
		return kw[zzverif.Choice("keyword", len(kw))]
	case 4:
		return verifGenAtom(d)
	case 5:
		return "-" + verifSp() + verifGenExpr(d-1)
	case 6:
		ops := verifBinOpsQuick
		if zzverif.Thorough() {
			ops = verifBinOps
		}
		op := ops[zzverif.Choice("operator", len(ops))]
		return verifGenExpr(d-1) + verifSp() + op + verifSp() + verifGenExpr(d-1)
	}
	return "(" + verifName() + ")" + verifSp() + "=>" + verifSp() + verifGenExpr(d-1)
}

func types_Quote(s string) string { return verifQuote(s) }

// normalised structure: top-level references compared case-insensitively, lookup keys exactly (lookups are
// case-insensitive), numbers by value rendering, text by value
func verifNormDump(e Expression) string {
	return verifDumpWith(e, true)
}

// VerifC11_PrintReparse: for every expression generated over the full grammar
// (depth ≤ 2 quick / 3 thorough on one spine) that parses: printing the tree
// and parsing the printed text gives a structurally identical tree (same
// operators, grouping, argument order; top-level references modulo case, lookup keys exactly; literals by
// value), and printing is a fixed point after one round.
// cover: binary, negation, call, lookup, anon-function, literal-escape
func VerifC11_PrintReparse() {
	d := 3
	verifBudget = 2
	if zzverif.Thorough() {
		verifBudget = 3
	}
	verifSpace = []string{"", " "}[zzverif.Choice("spacing", 2)]
	src := verifGenExpr(d)
	e1, err := Parse(src, nil)
	if err != nil {
		return // generated text that is not an expression (e.g. "- -" chains are fine, "a = = b" is not generated)
	}
	printed := e1.String()
	e2, err := Parse(printed, nil)
	zzverif.Assert(err == nil, "the printed form of a parseable expression does not parse")
	zzverif.Assert(verifNormDump(e1) == verifNormDump(e2), "printing and re-parsing changed the structure of the expression")
	zzverif.Assert(e2.String() == printed, "printing is not a fixed point after one round")
	dump := verifDump(e1)
	if strings.Contains(dump, "(neg ") {
		zzverif.Cover("negation")
	}
	if strings.Contains(dump, "(call ") {
		zzverif.Cover("call")
	}
	if strings.Contains(dump, "(dot ") || strings.Contains(dump, "(idx ") {
		zzverif.Cover("lookup")
	}
	if strings.Contains(dump, "(fn ") {
		zzverif.Cover("anon-function")
	}
	if strings.Contains(dump, "(+ ") || strings.Contains(dump, "(& ") || strings.Contains(dump, "(^ ") {
		zzverif.Cover("binary")
	}
	if strings.Contains(src, "\\") {
		zzverif.Cover("literal-escape")
	}
}

// VerifGenExpression exposes the generator to the refactor package's harness.
func VerifGenExpression(budget int) string {
	verifBudget = budget
	verifSpace = []string{"", " "}[zzverif.Choice("spacing", 2)]
	return verifGenExpr(3)
}

// VerifNormDump exposes the normalised structural dump.
func VerifNormDump(e Expression) string { return verifNormDump(e) }

// VerifC11_LiteralRoundTrip: for every text value s (≤ 3 bytes ASCII incl.
// control characters quick / ≤ 4 arbitrary bytes thorough) the text literal
// node prints (Expression.String, the printer refactoring and migrations
// use) as exactly one TEXT token which the visitor reads back as s, and
// printing the re-read node gives the same text again.
// cover: plain, has-quote, has-backslash, has-control, long
func VerifC11_LiteralRoundTrip() {
	n := 3
	if zzverif.Thorough() {
		n = 4
	}
	s := verifLiteralContent("s", n, !zzverif.Thorough())
	if zzverif.Choice("long-literal", 2) == 1 {
		s = strings.Repeat("x", 126) + s
		zzverif.Cover("long")
	}
	switch {
	case strings.IndexByte(s, '"') >= 0:
		zzverif.Cover("has-quote")
	case strings.IndexByte(s, '\\') >= 0:
		zzverif.Cover("has-backslash")
	case strings.IndexByte(s, '\n') >= 0 || strings.IndexByte(s, '\t') >= 0 || strings.IndexByte(s, 0x1b) >= 0:
		zzverif.Cover("has-control")
	default:
		zzverif.Cover("plain")
	}
	printed := (&TextLiteral{Value: types.NewXText(s)}).String()
	zzverif.Assert(verifLexTEXT(printed) == len(printed), "printed text literal is not exactly one TEXT token")
	v := &visitor{}
	reread := v.VisitTextLiteral(verifTextLiteral(printed)).(*TextLiteral)
	zzverif.Assert(reread.Value.Native() == s, "printed text literal does not parse back to the same value")
	zzverif.Assert(reread.String() == printed, "printing a re-parsed text literal gives a different text")
}

// VerifC11_Lookups: chains of lookups, calls and parentheses — an atom (a
// name, a dotted name, a numeric dot lookup, an array lookup, a call, a
// parenthesised name) followed by up to three of: ".name", ".digits",
// "[index]", a wrapping pair of parentheses — as in dot indexing into nested
// arrays, `(grid.1).2`.  Every such text that parses prints to text that
// parses to the same structure (parentheses that keep two integers of
// adjacent numeric lookups apart included), and printing is a fixed point
// after one round.
// cover: numeric-after-parenthesised-numeric, nested-parentheses, index-after-call, three-steps
func VerifC11_Lookups() {
	bases := []string{"a", "a.b", "a.1", "a[0]", "f(a)", "(a)"}
	src := bases[zzverif.Choice("base", len(bases))]
	steps := 0
	for k := 0; k < 3; k++ {
		step := zzverif.Choice("step", 6) // 0 = stop
		if step == 0 {
			break
		}
		steps++
		switch step {
		case 1:
			src += ".b"
		case 2:
			if strings.HasSuffix(src, ".1)") || strings.HasSuffix(src, ".2)") {
				zzverif.Cover("numeric-after-parenthesised-numeric")
			}
			src += ".2"
		case 3:
			if strings.HasSuffix(src, "(a)") && strings.HasPrefix(src, "f") {
				zzverif.Cover("index-after-call")
			}
			src += "[1]"
		case 4:
			if strings.HasPrefix(src, "(") && strings.HasSuffix(src, ")") {
				zzverif.Cover("nested-parentheses")
			}
			src = "(" + src + ")"
		default:
			src = "(" + src + ").1"
		}
	}
	if steps == 3 {
		zzverif.Cover("three-steps")
	}
	e1, err := Parse(src, nil)
	if err != nil {
		return // (e.g. "a.1.2": the lexer reads 1.2 as one number)
	}
	printed := e1.String()
	zzverif.Note(src, " prints as ", printed)
	e2, err := Parse(printed, nil)
	zzverif.Assert(err == nil, "the printed form of a parseable expression does not parse")
	zzverif.Assert(verifNormDump(e1) == verifNormDump(e2), "printing and re-parsing changed the structure of the expression")
	zzverif.Assert(e2.String() == printed, "printing is not a fixed point after one round")
}
