package excellent

import (
	"fmt"

	"github.com/antlr4-go/antlr/v4"
	gen "github.com/nyaruka/goflow/antlr/gen/excellent3"
)

// VerifSelftest_LexTEXT compares the TEXT recogniser used by the harnesses
// with the generated lexer, natively, on every string of ≤ 6 symbols over an
// alphabet containing all characters the rule distinguishes.  Only run
// natively (gosym selftest); never executed symbolically.
func VerifSelftest_LexTEXT() string {
	alphabet := []byte{'"', '\\', 'a', ' ', '&', 'é'}
	n := 0
	var rec func(prefix []byte, depth int) string
	rec = func(prefix []byte, depth int) string {
		s := "\"" + string(prefix)
		want := verifLexTEXT(s)
		got := verifRealLexTEXT(s)
		n++
		if want != got {
			return fmt.Sprintf("TEXT recogniser disagrees with generated lexer on %q: model %d, lexer %d", s, want, got)
		}
		if depth == 0 {
			return ""
		}
		for _, c := range alphabet {
			var next []byte
			if c == 'é' {
				next = append(append([]byte{}, prefix...), 0xc3, 0xa9)
			} else {
				next = append(append([]byte{}, prefix...), c)
			}
			if e := rec(next, depth-1); e != "" {
				return e
			}
		}
		return ""
	}
	if e := rec(nil, 6); e != "" {
		return e
	}
	fmt.Printf("VERIF-SELFTEST LexTEXT: %d strings agree\n", n)
	return ""
}

type verifErrCounter struct {
	*antlr.DefaultErrorListener
	n int
}

func (l *verifErrCounter) SyntaxError(recognizer antlr.Recognizer, offendingSymbol any, line, column int, msg string, e antlr.RecognitionException) {
	l.n++
}

// verifRealLexTEXT returns the byte length of the first token if the generated
// lexer produces a TEXT token at offset 0 without error, else -1.
func verifRealLexTEXT(s string) int {
	lx := gen.NewExcellent3Lexer(antlr.NewInputStream(s))
	lx.RemoveErrorListeners()
	ec := &verifErrCounter{}
	lx.AddErrorListener(ec)
	tok := lx.NextToken()
	if ec.n > 0 || tok.GetTokenType() != gen.Excellent3LexerTEXT || tok.GetStart() != 0 {
		return -1
	}
	return len(tok.GetText())
}

// VerifSelftest_Parser compares the parser model with the generated parser,
// natively, on every token sequence of ≤ 5 tokens over a vocabulary covering
// every lexer rule and operator (accept/reject and tree structure), plus the
// expressions of the package's own tests.
func VerifSelftest_Parser() string {
	vocab := []string{"a", "1", "2.5", `"s"`, "true", "null", "(", ")", "[", "]", ".", ",", "=>", "+", "-", "*", "/", "^", "=", "!=", "<", ">=", "&", "f"}
	n, accepted := 0, 0
	var rec func(prefix []string, depth int) string
	rec = func(prefix []string, depth int) string {
		if len(prefix) > 0 {
			e := ""
			for i, t := range prefix {
				if i > 0 {
					e += " "
				}
				e += t
			}
			n++
			real, rerr := Parse(e, nil)
			model, merr := VerifParse(e, nil)
			if (rerr == nil) != (merr == nil) {
				return fmt.Sprintf("parser model and generated parser disagree on accepting %q: real err=%v model err=%v", e, rerr, merr)
			}
			if rerr == nil {
				accepted++
				if verifDump(real) != verifDump(model) {
					return fmt.Sprintf("parser model and generated parser build different trees for %q: real %s model %s", e, verifDump(real), verifDump(model))
				}
			}
		}
		if depth == 0 {
			return ""
		}
		for _, t := range vocab {
			if e := rec(append(append([]string{}, prefix...), t), depth-1); e != "" {
				return e
			}
		}
		return ""
	}
	if e := rec(nil, 4); e != "" {
		return e
	}
	// longer hand-picked expressions
	for _, e := range []string{`-2^2`, `1+2*3^4-5/6`, `a.b.c(1, 2)[3].d`, `(x, y) => x + y & "z"`, `f((x) => x * 2, a)`, `a = b != c < d <= e`, `-a.b(-1)`, `"a\"b" & "c\\"`,
		`foo.0.bar`, `upper(contact.name) & " " & 1.50`, `(1 + 2) * (3 - -4)`, `a[b[c]]`, `TRUE & False & NULL`, `a b`, `1 +`, `(a`, `a..b`, `f(,)`, `!`, `a ! b`, `"abc`} {
		n++
		real, rerr := Parse(e, nil)
		model, merr := VerifParse(e, nil)
		if (rerr == nil) != (merr == nil) {
			return fmt.Sprintf("parser model and generated parser disagree on accepting %q: real err=%v model err=%v", e, rerr, merr)
		}
		if rerr == nil && verifDump(real) != verifDump(model) {
			return fmt.Sprintf("parser model and generated parser build different trees for %q: real %s model %s", e, verifDump(real), verifDump(model))
		}
	}
	fmt.Printf("VERIF-SELFTEST Parser: %d expressions agree (%d accepted)\n", n, accepted)
	return ""
}
