package excellent

import (
	"fmt"

	"github.com/antlr4-go/antlr/v4"
	gen "github.com/nyaruka/goflow/antlr/gen/excellent3"
)

// VerifSelftest_LexTEXT compares the TEXT recogniser used by the harnesses
// with the generated lexer, natively, on every string of ≤ 6 symbols over an
// alphabet containing all characters the rule distinguishes.  Only run
// natively (gosym selftest); never executed symbolically.
func VerifSelftest_LexTEXT() string {
	alphabet := []byte{'"', '\\', 'a', ' ', '&', 'é'}
	n := 0
	var rec func(prefix []byte, depth int) string
	rec = func(prefix []byte, depth int) string {
		s := "\"" + string(prefix)
		want := verifLexTEXT(s)
		got := verifRealLexTEXT(s)
		n++
		if want != got {
			return fmt.Sprintf("TEXT recogniser disagrees with generated lexer on %q: model %d, lexer %d", s, want, got)
		}
		if depth == 0 {
			return ""
		}
		for _, c := range alphabet {
			var next []byte
			if c == 'é' {
				next = append(append([]byte{}, prefix...), 0xc3, 0xa9)
			} else {
				next = append(append([]byte{}, prefix...), c)
			}
			if e := rec(next, depth-1); e != "" {
				return e
			}
		}
		return ""
	}
	if e := rec(nil, 6); e != "" {
		return e
	}
	fmt.Printf("VERIF-SELFTEST LexTEXT: %d strings agree\n", n)
	return ""
}

type verifErrCounter struct {
	*antlr.DefaultErrorListener
	n int
}

func (l *verifErrCounter) SyntaxError(recognizer antlr.Recognizer, offendingSymbol any, line, column int, msg string, e antlr.RecognitionException) {
	l.n++
}

// verifRealLexTEXT returns the byte length of the first token if the generated
// lexer produces a TEXT token at offset 0 without error, else -1.
func verifRealLexTEXT(s string) int {
	lx := gen.NewExcellent3Lexer(antlr.NewInputStream(s))
	lx.RemoveErrorListeners()
	ec := &verifErrCounter{}
	lx.AddErrorListener(ec)
	tok := lx.NextToken()
	if ec.n > 0 || tok.GetTokenType() != gen.Excellent3LexerTEXT || tok.GetStart() != 0 {
		return -1
	}
	return len(tok.GetText())
}
