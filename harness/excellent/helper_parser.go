package excellent

// A model of the generated Excellent3 lexer + parser (antlr/Excellent3.g4) for
// ASCII input: a hand-written longest-match tokenizer for the lexer rules and
// a precedence-climbing parser with the precedence numbers of the generated
// parser (p.expression(13) after '-', Precpred 12..7 for ^ */ +- <=> =!= &,
// atom suffixes call/dot/index).  It builds the *generated* context objects,
// and the real visitor turns them into the real Expression tree.  gosym
// redirects excellent.Parse to VerifParse (the ATN interpreter of the ANTLR
// runtime is not encodable); natively the real parser runs, and the native
// self-test compares both on an enumerated corpus (tree structure and
// accept/reject).  Non-ASCII input is outside the model.

import (
	"errors"
	"strconv"
	"strings"

	"github.com/antlr4-go/antlr/v4"
	gen "github.com/nyaruka/goflow/antlr/gen/excellent3"
)

type verifLexTok struct {
	typ  int
	text string
}

const verifEOF = -1
const verifTokError = -2

var errVerifNonASCII = errors.New("verif: non-ASCII expression is outside the parser model")

func verifIsLetter(c byte) bool { return (c >= 'a' && c <= 'z') || (c >= 'A' && c <= 'Z') || c == '_' }
func verifIsDigit(c byte) bool  { return c >= '0' && c <= '9' }

func verifEqualFold(s string, lower string) bool {
	if len(s) != len(lower) {
		return false
	}
	for i := 0; i < len(s); i++ {
		c := s[i]
		if c >= 'A' && c <= 'Z' {
			c += 'a' - 'A'
		}
		if c != lower[i] {
			return false
		}
	}
	return true
}

// verifTokenize implements the lexer rules (WS skipped, ERROR tokens kept).
func verifTokenize(s string) ([]verifLexTok, error) {
	var toks []verifLexTok
	i := 0
	for i < len(s) {
		c := s[i]
		if c >= 0x80 {
			return nil, errVerifNonASCII
		}
		switch {
		case c == ' ' || c == '\t' || c == '\n' || c == '\r':
			i++
		case c == '"':
			n := verifLexTEXT(s[i:])
			if n < 0 {
				toks = append(toks, verifLexTok{verifTokError, s[i : i+1]})
				i++
			} else {
				toks = append(toks, verifLexTok{gen.Excellent3ParserTEXT, s[i : i+n]})
				i += n
			}
		case verifIsDigit(c):
			j := i
			for j < len(s) && verifIsDigit(s[j]) {
				j++
			}
			if j+1 < len(s) && s[j] == '.' && verifIsDigit(s[j+1]) {
				k := j + 1
				for k < len(s) && verifIsDigit(s[k]) {
					k++
				}
				toks = append(toks, verifLexTok{gen.Excellent3ParserDECIMAL, s[i:k]})
				i = k
			} else {
				toks = append(toks, verifLexTok{gen.Excellent3ParserINTEGER, s[i:j]})
				i = j
			}
		case verifIsLetter(c):
			j := i
			for j < len(s) && (verifIsLetter(s[j]) || verifIsDigit(s[j])) {
				if s[j] >= 0x80 {
					return nil, errVerifNonASCII
				}
				j++
			}
			if j < len(s) && s[j] >= 0x80 {
				return nil, errVerifNonASCII
			}
			word := s[i:j]
			typ := gen.Excellent3ParserNAME
			switch {
			case verifEqualFold(word, "true"):
				typ = gen.Excellent3ParserTRUE
			case verifEqualFold(word, "false"):
				typ = gen.Excellent3ParserFALSE
			case verifEqualFold(word, "null"):
				typ = gen.Excellent3ParserNULL
			}
			toks = append(toks, verifLexTok{typ, word})
			i = j
		default:
			two := ""
			if i+1 < len(s) {
				two = s[i : i+2]
			}
			typ, n := verifTokError, 1
			switch {
			case two == "=>":
				typ, n = gen.Excellent3ParserARROW, 2
			case two == "!=":
				typ, n = gen.Excellent3ParserNEQ, 2
			case two == "<=":
				typ, n = gen.Excellent3ParserLTE, 2
			case two == ">=":
				typ, n = gen.Excellent3ParserGTE, 2
			case c == ',':
				typ = gen.Excellent3ParserCOMMA
			case c == '(':
				typ = gen.Excellent3ParserLPAREN
			case c == ')':
				typ = gen.Excellent3ParserRPAREN
			case c == '[':
				typ = gen.Excellent3ParserLBRACK
			case c == ']':
				typ = gen.Excellent3ParserRBRACK
			case c == '.':
				typ = gen.Excellent3ParserDOT
			case c == '+':
				typ = gen.Excellent3ParserPLUS
			case c == '-':
				typ = gen.Excellent3ParserMINUS
			case c == '*':
				typ = gen.Excellent3ParserTIMES
			case c == '/':
				typ = gen.Excellent3ParserDIVIDE
			case c == '^':
				typ = gen.Excellent3ParserEXPONENT
			case c == '=':
				typ = gen.Excellent3ParserEQ
			case c == '<':
				typ = gen.Excellent3ParserLT
			case c == '>':
				typ = gen.Excellent3ParserGT
			case c == '&':
				typ = gen.Excellent3ParserAMPERSAND
			}
			toks = append(toks, verifLexTok{typ, s[i : i+n]})
			i += n
		}
	}
	return toks, nil
}

type verifParser struct {
	toks []verifLexTok
	pos  int
	err  error
}

var errVerifSyntax = errors.New("syntax error")

func (p *verifParser) peek() int {
	if p.pos < len(p.toks) {
		return p.toks[p.pos].typ
	}
	return verifEOF
}

func (p *verifParser) peekAt(k int) int {
	if p.pos+k < len(p.toks) {
		return p.toks[p.pos+k].typ
	}
	return verifEOF
}

func (p *verifParser) next() antlr.Token {
	t := p.toks[p.pos]
	p.pos++
	return verifToken(t.typ, t.text)
}

func (p *verifParser) expect(typ int) antlr.Token {
	if p.peek() != typ {
		p.err = errVerifSyntax
		return verifToken(typ, "")
	}
	return p.next()
}

// binary operator table: token -> (Precpred level, level of the right operand)
func verifBinPrec(typ int) (int, int) {
	switch typ {
	case gen.Excellent3ParserEXPONENT:
		return 12, 13
	case gen.Excellent3ParserTIMES, gen.Excellent3ParserDIVIDE:
		return 11, 12
	case gen.Excellent3ParserPLUS, gen.Excellent3ParserMINUS:
		return 10, 11
	case gen.Excellent3ParserLTE, gen.Excellent3ParserLT, gen.Excellent3ParserGTE, gen.Excellent3ParserGT:
		return 9, 10
	case gen.Excellent3ParserEQ, gen.Excellent3ParserNEQ:
		return 8, 9
	case gen.Excellent3ParserAMPERSAND:
		return 7, 8
	}
	return -1, -1
}

// isAnonFunctionAhead: '(' NAME (',' NAME)* ')' '=>'
func (p *verifParser) isAnonFunctionAhead() bool {
	if p.peek() != gen.Excellent3ParserLPAREN || p.peekAt(1) != gen.Excellent3ParserNAME {
		return false
	}
	k := 2
	for p.peekAt(k) == gen.Excellent3ParserCOMMA && p.peekAt(k+1) == gen.Excellent3ParserNAME {
		k += 2
	}
	return p.peekAt(k) == gen.Excellent3ParserRPAREN && p.peekAt(k+1) == gen.Excellent3ParserARROW
}

func (p *verifParser) expression(prec int) antlr.ParserRuleContext {
	if p.err != nil {
		return verifExprBase()
	}
	var left antlr.ParserRuleContext
	switch t := p.peek(); {
	case t == gen.Excellent3ParserMINUS:
		c := gen.NewNegationContext(nil, verifExprBase())
		c.AddTokenNode(p.next())
		c.AddChild(p.expression(13))
		left = c
	case p.isAnonFunctionAhead():
		c := gen.NewAnonFunctionContext(nil, verifExprBase())
		c.AddTokenNode(p.next())
		nl := gen.NewNameListContext(nil, nil, 0)
		nl.AddTokenNode(p.expect(gen.Excellent3ParserNAME))
		for p.peek() == gen.Excellent3ParserCOMMA {
			nl.AddTokenNode(p.next())
			nl.AddTokenNode(p.expect(gen.Excellent3ParserNAME))
		}
		c.AddChild(nl)
		c.AddTokenNode(p.expect(gen.Excellent3ParserRPAREN))
		c.AddTokenNode(p.expect(gen.Excellent3ParserARROW))
		c.AddChild(p.expression(6))
		left = c
	case t == gen.Excellent3ParserTEXT:
		c := gen.NewTextLiteralContext(nil, verifExprBase())
		c.AddTokenNode(p.next())
		left = c
	case t == gen.Excellent3ParserINTEGER || t == gen.Excellent3ParserDECIMAL:
		c := gen.NewNumberLiteralContext(nil, verifExprBase())
		c.AddTokenNode(p.next())
		left = c
	case t == gen.Excellent3ParserTRUE:
		c := gen.NewTrueContext(nil, verifExprBase())
		c.AddTokenNode(p.next())
		left = c
	case t == gen.Excellent3ParserFALSE:
		c := gen.NewFalseContext(nil, verifExprBase())
		c.AddTokenNode(p.next())
		left = c
	case t == gen.Excellent3ParserNULL:
		c := gen.NewNullContext(nil, verifExprBase())
		c.AddTokenNode(p.next())
		left = c
	case t == gen.Excellent3ParserLPAREN || t == gen.Excellent3ParserNAME:
		c := gen.NewAtomReferenceContext(nil, verifExprBase())
		c.AddChild(p.atom())
		left = c
	default:
		p.err = errVerifSyntax
		return verifExprBase()
	}
	for p.err == nil {
		op := p.peek()
		level, rhs := verifBinPrec(op)
		if level < 0 || level < prec {
			break
		}
		tok := p.next()
		right := p.expression(rhs)
		switch level {
		case 12:
			c := gen.NewExponentContext(nil, verifExprBase())
			c.AddChild(left)
			c.AddTokenNode(tok)
			c.AddChild(right)
			left = c
		case 11:
			c := gen.NewMultiplicationOrDivisionContext(nil, verifExprBase())
			c.AddChild(left)
			c.AddTokenNode(tok)
			c.SetOp(tok)
			c.AddChild(right)
			left = c
		case 10:
			c := gen.NewAdditionOrSubtractionContext(nil, verifExprBase())
			c.AddChild(left)
			c.AddTokenNode(tok)
			c.SetOp(tok)
			c.AddChild(right)
			left = c
		case 9:
			c := gen.NewComparisonContext(nil, verifExprBase())
			c.AddChild(left)
			c.AddTokenNode(tok)
			c.SetOp(tok)
			c.AddChild(right)
			left = c
		case 8:
			c := gen.NewEqualityContext(nil, verifExprBase())
			c.AddChild(left)
			c.AddTokenNode(tok)
			c.SetOp(tok)
			c.AddChild(right)
			left = c
		default:
			c := gen.NewConcatenationContext(nil, verifExprBase())
			c.AddChild(left)
			c.AddTokenNode(tok)
			c.AddChild(right)
			left = c
		}
	}
	return left
}

func (p *verifParser) atom() antlr.ParserRuleContext {
	var left antlr.ParserRuleContext
	if p.peek() == gen.Excellent3ParserLPAREN {
		c := gen.NewParenthesesContext(nil, verifAtomBase())
		c.AddTokenNode(p.next())
		c.AddChild(p.expression(0))
		c.AddTokenNode(p.expect(gen.Excellent3ParserRPAREN))
		left = c
	} else {
		c := gen.NewContextReferenceContext(nil, verifAtomBase())
		c.AddTokenNode(p.expect(gen.Excellent3ParserNAME))
		left = c
	}
	for p.err == nil {
		switch p.peek() {
		case gen.Excellent3ParserLPAREN:
			c := gen.NewFunctionCallContext(nil, verifAtomBase())
			c.AddChild(left)
			c.AddTokenNode(p.next())
			if p.peek() != gen.Excellent3ParserRPAREN {
				params := gen.NewFunctionParametersContext(nil, gen.NewParametersContext(nil, nil, 0))
				params.AddChild(p.expression(0))
				for p.peek() == gen.Excellent3ParserCOMMA {
					params.AddTokenNode(p.next())
					params.AddChild(p.expression(0))
				}
				c.AddChild(params)
			}
			c.AddTokenNode(p.expect(gen.Excellent3ParserRPAREN))
			left = c
		case gen.Excellent3ParserDOT:
			c := gen.NewDotLookupContext(nil, verifAtomBase())
			c.AddChild(left)
			c.AddTokenNode(p.next())
			if p.peek() == gen.Excellent3ParserNAME || p.peek() == gen.Excellent3ParserINTEGER {
				c.AddTokenNode(p.next())
			} else {
				p.err = errVerifSyntax
			}
			left = c
		case gen.Excellent3ParserLBRACK:
			c := gen.NewArrayLookupContext(nil, verifAtomBase())
			c.AddChild(left)
			c.AddTokenNode(p.next())
			c.AddChild(p.expression(0))
			c.AddTokenNode(p.expect(gen.Excellent3ParserRBRACK))
			left = c
		default:
			return left
		}
	}
	return left
}

// verifModelParseTree is what replaces the generated parser under gosym:
// the tree the model builds for text, as the root context p.Parse() returns.
func verifModelParseTree(text string) (*gen.ParseContext, error) {
	toks, err := verifTokenize(text)
	if err != nil {
		return nil, err
	}
	for _, t := range toks {
		if t.typ == verifTokError {
			return nil, errVerifSyntax
		}
	}
	p := &verifParser{toks: toks}
	tree := p.expression(0)
	if p.err == nil && p.peek() != verifEOF {
		p.err = errVerifSyntax
	}
	if p.err != nil {
		return nil, p.err
	}
	root := gen.NewParseContext(nil, nil, 0)
	root.AddChild(tree)
	return root, nil
}

// VerifParse is the model of Parse: tokenizer + parser model + the real visitor.
func VerifParse(expression string, contextCallback func([]string)) (Expression, error) {
	toks, err := verifTokenize(expression)
	if err != nil {
		return nil, err
	}
	for _, t := range toks {
		if t.typ == verifTokError {
			return nil, errVerifSyntax
		}
	}
	p := &verifParser{toks: toks}
	tree := p.expression(0)
	if p.err == nil && p.peek() != verifEOF {
		p.err = errVerifSyntax
	}
	if p.err != nil {
		return nil, p.err
	}
	visitor := &visitor{contextCallback: contextCallback}
	return toExpression(visitor.Visit(tree)), nil
}

// verifDump renders the structure of an expression tree.
func verifDump(e Expression) string { return verifDumpWith(e, false) }

func verifQuote(s string) string { return strconv.Quote(s) }

func verifDumpWith(e Expression, fold bool) string {
	verifDump := func(e Expression) string { return verifDumpWith(e, fold) }
	lower := func(s string) string {
		if fold {
			return strings.ToLower(s)
		}
		return s
	}
	switch t := e.(type) {
	case *ContextReference:
		return "(ref " + lower(t.Name) + ")"
	case *DotLookup:
		// (the key of a lookup is matched exactly before case-insensitively, so its case is part of the meaning)
		return "(dot " + verifDump(t.Container) + " " + t.Lookup + ")"
	case *ArrayLookup:
		return "(idx " + verifDump(t.Container) + " " + verifDump(t.Lookup) + ")"
	case *FunctionCall:
		s := "(call " + verifDump(t.Func)
		for _, p := range t.Params {
			s += " " + verifDump(p)
		}
		return s + ")"
	case *AnonFunction:
		s := "(fn"
		for _, a := range t.Args {
			s += " " + a
		}
		return s + " => " + verifDump(t.Body) + ")"
	case *Concatenation:
		return "(& " + verifDump(t.Exp1) + " " + verifDump(t.Exp2) + ")"
	case *Addition:
		return "(+ " + verifDump(t.Exp1) + " " + verifDump(t.Exp2) + ")"
	case *Subtraction:
		return "(- " + verifDump(t.Exp1) + " " + verifDump(t.Exp2) + ")"
	case *Multiplication:
		return "(* " + verifDump(t.Exp1) + " " + verifDump(t.Exp2) + ")"
	case *Division:
		return "(/ " + verifDump(t.Exp1) + " " + verifDump(t.Exp2) + ")"
	case *Exponent:
		return "(^ " + verifDump(t.Expression) + " " + verifDump(t.Exponent) + ")"
	case *Negation:
		return "(neg " + verifDump(t.Exp) + ")"
	case *Equality:
		return "(= " + verifDump(t.Exp1) + " " + verifDump(t.Exp2) + ")"
	case *InEquality:
		return "(!= " + verifDump(t.Exp1) + " " + verifDump(t.Exp2) + ")"
	case *LessThan:
		return "(< " + verifDump(t.Exp1) + " " + verifDump(t.Exp2) + ")"
	case *LessThanOrEqual:
		return "(<= " + verifDump(t.Exp1) + " " + verifDump(t.Exp2) + ")"
	case *GreaterThan:
		return "(> " + verifDump(t.Exp1) + " " + verifDump(t.Exp2) + ")"
	case *GreaterThanOrEqual:
		return "(>= " + verifDump(t.Exp1) + " " + verifDump(t.Exp2) + ")"
	case *Parentheses:
		return "(paren " + verifDump(t.Exp) + ")"
	case *TextLiteral:
		return "(text " + t.Value.Describe() + ")"
	case *NumberLiteral:
		return "(num " + t.Value.Describe() + ")"
	case *BooleanLiteral:
		return "(bool " + t.Value.Describe() + ")"
	case *NullLiteral:
		return "(null)"
	}
	return "(?)"
}

// VerifDump exposes the structural dump to other packages' harnesses.
func VerifDump(e Expression) string { return verifDump(e) }
