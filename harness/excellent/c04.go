package excellent

import (
	"github.com/nyaruka/goflow/envs"
	"github.com/nyaruka/goflow/excellent/functions"
	"github.com/nyaruka/goflow/excellent/types"
	"github.com/nyaruka/goflow/zzverif"
)

func verifEvalTotal(ctx map[string]types.XValue, expr string) {
	zzverif.Unwind(1000)
	env := envs.NewBuilder().Build()
	val, _ := NewEvaluator().Expression(env, types.NewXObject(ctx), expr)
	if types.IsXError(val) {
		zzverif.Cover("error-value")
	} else {
		zzverif.Cover("value")
	}
}

// VerifC04_Lookups: index, dot and call expressions (tree.go) evaluated on
// containers of every kind and length 0..3 with an arbitrary integer index
// in [-100,155] (and the boundary integers), arbitrary keys, missing
// properties, lookups on nil / text / numbers / errors / functions, calls of
// non-functions and with wrong arity: a value or an error value, never a
// panic.
// cover: value, error-value, negative-index, index-beyond-length
func VerifC04_Lookups() {
	n := zzverif.Choice("array-length", 4)
	items := make([]types.XValue, n)
	for k := range items {
		items[k] = types.NewXNumberFromInt(k + 10)
	}
	var idx types.XValue
	switch zzverif.Choice("index-kind", 5) {
	case 0:
		i := zzverif.Int("index", -100, 155)
		if i < 0 {
			zzverif.Cover("negative-index")
		}
		if i >= n {
			zzverif.Cover("index-beyond-length")
		}
		idx = types.NewXNumberFromInt(i)
	case 1:
		idx = types.NewXNumberFromInt64(-(1 << 31) - 1)
	case 2:
		idx = types.NewXNumberFromInt64(1<<63 - 1)
	case 3:
		idx = types.NewXText("foo")
	default:
		idx = types.RequireXNumberFromString("1.5")
	}
	containers := []types.XValue{types.NewXArray(items...), types.NewXLazyArray(func() []types.XValue { return items }),
		types.NewXObject(map[string]types.XValue{"foo": types.NewXText("f"), "0": types.NewXText("zero"), "__default__": types.NewXText("d")}),
		types.NewXText("héllo"), types.NewXNumberFromInt(5), nil, types.NewXErrorf("boom"), functions.XFUNCTIONS["upper"]}
	ctx := map[string]types.XValue{"c": containers[zzverif.Choice("container", len(containers))], "i": idx}
	exprs := []string{"c[i]", "c.foo", "c.0", "c.1", "c[i][i]", "c(i)", "c()", "c[\"foo\"]", "c.foo.bar", "upper(c[i])", "c[i].x", "(x) => c[x]", "((x) => c[x])(i)"}
	verifEvalTotal(ctx, exprs[zzverif.Choice("expression", len(exprs))])
}

var verifOps = []string{"a + b", "a - b", "a * b", "a / b", "a ^ b", "a & b", "a = b", "a != b", "a < b", "a <= b", "a > b", "a >= b", "-a", "-(a ^ b) / (a - a)"}

// VerifC04_Operators: every operator applied to operands of every pair of
// kinds of the argument menu (at most one symbolic): a value or an error
// value, never a panic (division by zero, huge exponents, mixed types).
// cover: value, error-value
func VerifC04_Operators() {
	// (the 401-digit operand 1e400 is left to the function harnesses: powers and
	// products of it are cheap natively but exhaust the executor's memory when
	// math/big runs word by word on boxed values, 16 workers at a time)
	ka := zzverif.Choice("arg-kind", functions.VerifNumArgKinds)
	zzverif.Assume(ka != 21)
	kinds := []int{0, 3, 5, 6, 8, 16, 19, 20}
	kb := kinds[zzverif.Choice("arg-kind", len(kinds))]
	zzverif.Assume(!(functions.VerifIsSymbolicKind(ka) && functions.VerifIsSymbolicKind(kb)))
	ctx := map[string]types.XValue{"a": functions.VerifArgValue(ka), "b": functions.VerifArgValue(kb)}
	verifEvalTotal(ctx, verifOps[zzverif.Choice("operator", len(verifOps))])
}

// VerifC04_Templates: every template text of ≤ 4 ASCII bytes (quick) / 5
// (thorough) — '@' before letters, digits, underscores, parentheses, quotes,
// operators, unterminated expressions — evaluated by Evaluator.Template over a
// small context returns text or an error: no panic, and it returns (a
// template the scanner never finishes is a hang).
// hang: violation
// cover: text, error, has-at
func VerifC04_Templates() {
	n := 4
	if zzverif.Thorough() {
		n = 5
	}
	tpl := zzverif.String("template", n)
	hasAt := false
	for i := 0; i < len(tpl); i++ {
		zzverif.Assume(tpl[i] != 0 && tpl[i] < 0x80)
		if tpl[i] == '@' {
			hasAt = true
		}
	}
	if hasAt {
		zzverif.Cover("has-at")
	}
	zzverif.Unwind(200)
	env := envs.NewBuilder().Build()
	ctx := types.NewXObject(map[string]types.XValue{"a": types.NewXText("x"), "n": types.NewXNumberFromInt(2)})
	_, _, err := NewEvaluator().Template(env, ctx, tpl, nil)
	if err != nil {
		zzverif.Cover("error")
	} else {
		zzverif.Cover("text")
	}
}

// VerifC04_LongLiterals: the lexer puts no limit on the length of a literal
// or a name, so neither may the evaluator: an integer literal, a decimal
// literal, a text literal and a context name of every length 1..130 (quick) /
// 1..420 (thorough; 400 digits is where the number type's own limit lies),
// alone, as an operand and as a function argument: a value or an error value,
// never a panic. (The characters are fixed — the other harnesses vary them —
// the length is the input here.)
// cover: value, error-value, integer, decimal, text, name
func VerifC04_LongLiterals() {
	max := 130
	if zzverif.Thorough() {
		max = 420
	}
	n := zzverif.Choice("length", max) + 1
	rep := func(c byte, k int) string {
		b := make([]byte, k)
		for i := range b {
			b[i] = c
		}
		return string(b)
	}
	var lit string
	switch zzverif.Choice("form", 4) {
	case 0:
		zzverif.Cover("integer")
		lit = "1" + rep('0', n-1)
	case 1:
		zzverif.Cover("decimal")
		zzverif.Assume(n >= 3)
		lit = "0." + rep('0', n-3) + "1"
	case 2:
		zzverif.Cover("text")
		zzverif.Assume(n >= 2)
		lit = "\"" + rep('a', n-2) + "\""
	default:
		zzverif.Cover("name")
		lit = rep('a', n)
	}
	var expr string
	switch zzverif.Choice("position", 3) {
	case 0:
		expr = lit
	case 1:
		expr = lit + " + 1"
	default:
		expr = "text_length(" + lit + ")"
	}
	verifEvalTotal(map[string]types.XValue{"a": types.NewXText("x")}, expr)
}
