package excellent

import (
	"strings"

	"github.com/nyaruka/goflow/zzverif"
)

// verifTemplate returns an arbitrary template of ≤ n bytes without NUL; the
// quick tier restricts it to ASCII (multi-byte sequences are covered by the
// thorough tier and by the dedicated UTF-8 harness).
func verifTemplate(name string, n int, ascii bool) string {
	s := zzverif.String(name, n)
	for i := 0; i < len(s); i++ {
		zzverif.Assume(s[i] != 0)
		if ascii {
			zzverif.Assume(s[i] < 0x80)
		}
	}
	return s
}

type verifTok struct {
	typ  XTokenType
	text string
}

func verifScanAll(tmpl string, topLevels []string, unescape bool) []verifTok {
	sc := NewXScanner(strings.NewReader(tmpl), topLevels)
	sc.SetUnescapeBody(unescape)
	var toks []verifTok
	for {
		typ, text := sc.Scan()
		if typ == EOF {
			break
		}
		toks = append(toks, verifTok{typ, text})
		zzverif.Assert(len(toks) <= len(tmpl)+1, "scanner produced more tokens than input bytes")
	}
	return toks
}

// VerifC12_Lossless: tokenisation of a template loses nothing: with body
// unescaping off, concatenating BODY texts, "@"+IDENTIFIER and
// "@("+EXPRESSION+")" gives back the input; an input without '@' is a single
// BODY; an IDENTIFIER's top level is an allowed name.
// cover: body, identifier, expression, unterminated-expression, not-allowed-identifier
func VerifC12_Lossless() {
	n := 4
	if zzverif.Thorough() {
		n = 6
	}
	tmpl := verifTemplate("tmpl", n, true)
	toks := verifScanAll(tmpl, []string{"a"}, false)
	var sb strings.Builder
	hasAt := strings.IndexByte(tmpl, '@') >= 0
	for _, t := range toks {
		switch t.typ {
		case BODY:
			zzverif.Cover("body")
			sb.WriteString(t.text)
			if strings.HasPrefix(t.text, "@(") {
				zzverif.Cover("unterminated-expression")
			} else if len(t.text) > 1 && t.text[0] == '@' && isNameChar(rune(t.text[1])) {
				zzverif.Cover("not-allowed-identifier")
			}
		case IDENTIFIER:
			zzverif.Cover("identifier")
			sb.WriteString("@" + t.text)
			top := t.text
			if k := strings.IndexByte(top, '.'); k >= 0 {
				top = top[:k]
			}
			zzverif.Assert(strings.ToLower(top) == "a", "identifier with a top level that is not allowed")
		case EXPRESSION:
			zzverif.Cover("expression")
			sb.WriteString("@(" + t.text + ")")
		}
	}
	zzverif.Assert(sb.String() == tmpl, "token texts do not concatenate to the template")
	if !hasAt && len(tmpl) > 0 {
		zzverif.Assert(len(toks) == 1 && toks[0].typ == BODY && toks[0].text == tmpl, "template without @ is not a single body")
	}
}
