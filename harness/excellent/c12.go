package excellent

import (
	"strings"

	"github.com/nyaruka/goflow/excellent/types"
	"github.com/nyaruka/goflow/zzverif"
)

// verifTemplate returns an arbitrary template of ≤ n bytes without NUL; the
// quick tier restricts it to ASCII (multi-byte sequences are covered by the
// thorough tier and by the dedicated UTF-8 harness).
func verifTemplate(name string, n int, ascii bool) string {
	s := zzverif.String(name, n)
	for i := 0; i < len(s); i++ {
		zzverif.Assume(s[i] != 0)
		if ascii {
			zzverif.Assume(s[i] < 0x80)
		}
	}
	return s
}

type verifTok struct {
	typ  XTokenType
	text string
}

func verifScanAll(tmpl string, topLevels []string, unescape bool) []verifTok {
	sc := NewXScanner(strings.NewReader(tmpl), topLevels)
	sc.SetUnescapeBody(unescape)
	var toks []verifTok
	for {
		typ, text := sc.Scan()
		if typ == EOF {
			break
		}
		toks = append(toks, verifTok{typ, text})
		zzverif.Assert(len(toks) <= len(tmpl)+1, "scanner produced more tokens than input bytes")
	}
	return toks
}

// VerifC12_Lossless: tokenisation of a template loses nothing: with body
// unescaping off, concatenating BODY texts, "@"+IDENTIFIER and
// "@("+EXPRESSION+")" gives back the input; an input without '@' is a single
// BODY; an IDENTIFIER's top level is an allowed name.
// cover: body, identifier, expression, unterminated-expression, not-allowed-identifier
func VerifC12_Lossless() {
	n := 4
	if zzverif.Thorough() {
		n = 6
	}
	tmpl := verifTemplate("tmpl", n, true)
	toks := verifScanAll(tmpl, []string{"a"}, false)
	var sb strings.Builder
	hasAt := strings.IndexByte(tmpl, '@') >= 0
	for _, t := range toks {
		switch t.typ {
		case BODY:
			zzverif.Cover("body")
			sb.WriteString(t.text)
			if strings.HasPrefix(t.text, "@(") {
				zzverif.Cover("unterminated-expression")
			} else if len(t.text) > 1 && t.text[0] == '@' && isNameChar(rune(t.text[1])) {
				zzverif.Cover("not-allowed-identifier")
			}
		case IDENTIFIER:
			zzverif.Cover("identifier")
			sb.WriteString("@" + t.text)
			top := t.text
			if k := strings.IndexByte(top, '.'); k >= 0 {
				top = top[:k]
			}
			zzverif.Assert(strings.ToLower(top) == "a", "identifier with a top level that is not allowed")
		case EXPRESSION:
			zzverif.Cover("expression")
			sb.WriteString("@(" + t.text + ")")
		}
	}
	zzverif.Assert(sb.String() == tmpl, "token texts do not concatenate to the template")
	if !hasAt && len(tmpl) > 0 {
		zzverif.Assert(len(toks) == 1 && toks[0].typ == BODY && toks[0].text == tmpl, "template without @ is not a single body")
	}
}

func verifLiteralContent(name string, n int, ascii bool) string {
	return verifTemplate(name, n, ascii)
}

// VerifC12_QuoteAlone: for every string s, the literal goflow writes for it
// (strconv.Quote, as XText.Describe does) is scanned by the template scanner
// as exactly one expression, is one TEXT token for the lexer rule, and the
// visitor evaluates it back to s.
// cover: plain, has-quote, has-backslash, trailing-backslash, long
func VerifC12_QuoteAlone() {
	n := 3
	if zzverif.Thorough() {
		n = 4
	}
	s := verifLiteralContent("s", n, !zzverif.Thorough())
	if zzverif.Choice("long-literal", 2) == 1 {
		// a long text with the arbitrary bytes at its end (126 .. 126+n characters)
		s = strings.Repeat("x", 126) + s
		zzverif.Cover("long")
	}
	lit := types.NewXText(s).Describe()
	if strings.IndexByte(s, '"') >= 0 {
		zzverif.Cover("has-quote")
	} else if strings.IndexByte(s, '\\') >= 0 {
		zzverif.Cover("has-backslash")
	} else {
		zzverif.Cover("plain")
	}
	if strings.HasSuffix(s, "\\") {
		zzverif.Cover("trailing-backslash")
	}
	tmpl := "@(" + lit + ")"
	toks := verifScanAll(tmpl, nil, true)
	zzverif.Assert(len(toks) == 1 && toks[0].typ == EXPRESSION && toks[0].text == lit, "scanner does not end the expression at the end of the quoted literal")
	zzverif.Assert(verifLexTEXT(lit) == len(lit), "quoted literal is not exactly one TEXT token")
	v := &visitor{}
	got := v.VisitTextLiteral(verifTextLiteral(lit)).(*TextLiteral).Value.Native()
	zzverif.Assert(got == s, "literal does not evaluate back to the string")
}

// VerifC12_QuoteNeighbours: the same next to other literals: in
// @("x" & Q(s) & Q(t)) the scanner ends the expression at the final ')' and
// the lexer rule's token boundaries (longest match) are those of the literals.
// cover: s-trailing-backslash, both-nonempty
func VerifC12_QuoteNeighbours() {
	n := 2
	if zzverif.Thorough() {
		n = 3
	}
	s := verifLiteralContent("s", n, true)
	t := verifLiteralContent("t", n, true)
	qs, qt := types.NewXText(s).Describe(), types.NewXText(t).Describe()
	expr := "\"x\" & " + qs + " & " + qt
	if len(s) > 0 && len(t) > 0 {
		zzverif.Cover("both-nonempty")
	}
	toks := verifScanAll("@("+expr+") tail", nil, true)
	zzverif.Assert(len(toks) == 2 && toks[0].typ == EXPRESSION && toks[0].text == expr && toks[1].typ == BODY && toks[1].text == " tail",
		"scanner and literals disagree on where the expression ends")
	// the lexer, positioned at the start of Q(s), must produce exactly Q(s)
	if zzverif.Known("C12-lexer-trailing-backslash", strings.HasSuffix(s, "\\")) {
		zzverif.Cover("s-trailing-backslash")
	}
	rest := expr[len("\"x\" & "):]
	zzverif.Assert(verifLexTEXT(rest) == len(qs), "TEXT token starting at the first literal does not end where the literal ends")
	rest2 := rest[len(qs)+len(" & "):]
	zzverif.Assert(verifLexTEXT(rest2) == len(qt), "TEXT token starting at the second literal does not end where the literal ends")
}

// VerifC12_ScannerParserAgree: for every ASCII template of ≤ 4 (quick) / 5
// bytes that starts an expression "@(": when the scanner returns an
// EXPRESSION token, the text it hands to the parser contains balanced
// parentheses outside literals per the lexer's own token boundaries (so that
// scanner and parser agree where the expression ends), i.e. tokenising the
// expression text never yields an unmatched ')' .
// cover: expression-scanned, has-literal
func VerifC12_ScannerParserAgree() {
	n := 4
	if zzverif.Thorough() {
		n = 5
	}
	tail := verifTemplate("tail", n, true)
	tmpl := "@(" + tail
	toks := verifScanAll(tmpl, nil, true)
	if len(toks) == 0 || toks[0].typ != EXPRESSION {
		return
	}
	zzverif.Cover("expression-scanned")
	ltoks, err := verifTokenize(toks[0].text)
	zzverif.Assert(err == nil, "tokenizer model failed on ASCII")
	depth := 0
	for _, t := range ltoks {
		switch t.typ {
		case 2: // LPAREN
			depth++
		case 3: // RPAREN
			depth--
			zzverif.Assert(depth >= 0, "the scanner ended the expression after a ')' that the lexer sees as closing nothing")
		case 20: // TEXT
			zzverif.Cover("has-literal")
		}
	}
	// the expression ended at the first ')' at depth 0 by the scanner's count;
	// the lexer must not see an unclosed '(' either, unless a quote mis-pairs
	if zzverif.Known("C12-lexer-trailing-backslash", strings.Contains(toks[0].text, "\\\"")) {
		return
	}
	zzverif.Assert(depth == 0, "the scanner ended the expression while the lexer still sees an open '('")
}

// VerifC12_IdentifierEnd: "the template scanner and the expression parser
// agree on where each expression ends", for the short form @name.path: a
// template "@a" followed by three (quick) / four arbitrary ASCII bytes, with
// "a" an allowed top-level name.  The IDENTIFIER token the scanner cuts out is
// a path the parser accepts — a name followed by ".name" / ".digits" segments,
// none of them empty (so: no "..", no trailing period) — what follows it is
// body text that starts exactly where the identifier ends, and the whole
// template evaluates to the value of that path followed by that text.
// cover: one-segment, two-segments, period-then-text, periods-then-name
func VerifC12_IdentifierEnd() {
	n := 3
	if zzverif.Thorough() {
		n = 4
	}
	tail := verifTemplate("tail", n, true)
	zzverif.Assume(len(tail) == n)
	tmpl := "@a" + tail
	if isNameChar(rune(tail[0])) {
		return // (the top-level name is longer than "a": not an allowed one, see VerifC12_Lossless)
	}
	toks := verifScanAll(tmpl, []string{"a"}, false)
	zzverif.Assert(len(toks) >= 1 && toks[0].typ == IDENTIFIER, "an allowed top-level name after @ was not scanned as an identifier")
	id := toks[0].text
	zzverif.Assert(strings.HasPrefix(tmpl[1:], id), "the identifier is not the text after the @")
	segs := strings.Split(id, ".")
	for _, sg := range segs {
		zzverif.Assert(len(sg) > 0, "the scanner cut out an identifier with an empty path segment, which the parser cannot read")
		for k := 0; k < len(sg); k++ {
			zzverif.Assert(isNameChar(rune(sg[k])), "the scanner cut out an identifier containing a character that is no name character")
		}
	}
	if len(segs) == 1 {
		zzverif.Cover("one-segment")
	} else {
		zzverif.Cover("two-segments")
	}
	rest := tmpl[1+len(id):]
	if strings.HasPrefix(rest, ".") {
		zzverif.Cover("period-then-text")
		if strings.HasPrefix(rest, "..") && len(rest) > 2 && isNameChar(rune(rest[2])) {
			zzverif.Cover("periods-then-name")
		}
	}
	// the longest path the grammar admits was taken: what follows cannot continue it
	if len(rest) > 0 {
		zzverif.Assert(!isNameChar(rune(rest[0])), "the scanner ended an identifier in the middle of a name")
		if rest[0] == '.' && len(rest) > 1 {
			zzverif.Assert(!isNameChar(rune(rest[1])), "the scanner ended an identifier before a further path segment")
		}
	}
}
