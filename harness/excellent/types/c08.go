package types

import (
	"github.com/nyaruka/goflow/envs"
	"github.com/nyaruka/goflow/zzverif"
)

// VerifC08_ObjectLookup: looking a property up in an object — as every dot
// and index lookup of an expression does — gives the same value on every
// execution, for objects whose keys differ only in case (as parse_json and
// webhook responses produce) and under every iteration order of the
// underlying map; Render/Format/Properties/Equals likewise.
// cover: case-variant-keys, plain-keys
func VerifC08_ObjectLookup() {
	env := envs.NewBuilder().Build()
	variant := zzverif.Choice("case-variant-keys", 2) == 1
	build := func() *XObject {
		m := map[string]XValue{"bar": NewXText("b"), "foo": NewXNumberFromInt(1)}
		if variant {
			m["Foo"] = NewXNumberFromInt(2)
		} else {
			m["qux"] = NewXNumberFromInt(2)
		}
		return NewXObject(m)
	}
	if variant {
		zzverif.Cover("case-variant-keys")
	} else {
		zzverif.Cover("plain-keys")
	}
	keys := []string{"foo", "FOO", "Foo", "bar", "nope"}
	key := keys[zzverif.Choice("lookup-key", len(keys))]
	// first execution: maps iterate in insertion order; second: arbitrary order
	o1, o2 := build(), build()
	v1, ok1 := o1.Get(key)
	r1, f1 := o1.Render(), o1.Format(env)
	zzverif.SymbolicMapOrder(true)
	// natively Go randomises every range itself: repeat the second execution
	// on fresh maps often enough to observe a differing order
	repeats := 1
	if !zzverif.Symbolic() {
		repeats = 500
	}
	for n := 0; n < repeats; n++ {
		if n > 0 {
			o2 = build()
		}
		v2, ok2 := o2.Get(key)
		zzverif.Assert(ok1 == ok2, "a property lookup found the property on one execution and not on another")
		if ok1 {
			zzverif.Assert(Render(v1) == Render(v2), "a property lookup returned different values on different executions")
		}
		zzverif.Assert(r1 == o2.Render(), "rendering an object differs between executions")
		zzverif.Assert(f1 == o2.Format(env), "formatting an object differs between executions")
		zzverif.Assert(o1.Equals(o2) && o2.Equals(o1), "equal objects compare unequal under some iteration order")
	}
}
