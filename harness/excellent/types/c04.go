package types

import (
	"github.com/nyaruka/goflow/envs"
	"github.com/nyaruka/goflow/zzverif"
)

// VerifC04_JSONNumbers: numbers arrive from outside as JSON (webhook bodies,
// result extras, trigger params): "always returns, in time bounded by the
// size of the template, the context and the result".  A JSON number literal
// with an exponent of 1 to 10 digits (1e4 … 1e2000000000, also negative),
// read by JSONToXValue and then compared with another number, rendered as
// text and truncated to an integer — the operations a router test or a
// template applies to it — returns (a value or an error value) without tying
// up the host: the literal is a dozen bytes, the work must not be a function
// of the magnitude it denotes.
// hang: violation
// cover: small-exponent, huge-exponent, negative-exponent, compared, rendered
func VerifC04_JSONNumbers() {
	zzverif.Unwind(100000)
	exps := []string{"4", "400", "4000", "4000000", "2000000000", "-400", "-2000000000"}
	k := zzverif.Choice("exponent", len(exps))
	switch {
	case k < 3:
		zzverif.Cover("small-exponent")
	case k < 5:
		zzverif.Cover("huge-exponent")
	default:
		zzverif.Cover("negative-exponent")
	}
	env := envs.NewBuilder().Build()
	v := JSONToXValue([]byte(`{"n": 1e` + exps[k] + `}`))
	obj, isObj := v.(*XObject)
	zzverif.Assert(isObj, "a JSON object was not read as an object")
	n, _ := obj.Get("n")
	if IsXError(n) {
		return // (refused: that is an error value, not a hang)
	}
	num, xerr := ToXNumber(env, n)
	if xerr != nil {
		return
	}
	switch zzverif.Choice("operation", 3) {
	case 0:
		zzverif.Cover("compared")
		_ = num.Compare(NewXNumberFromInt(5))
	case 1:
		zzverif.Cover("rendered")
		_ = num.Render()
	default:
		_, _ = ToInteger(env, num)
	}
}
