package types

import (
	"time"

	"github.com/nyaruka/gocommon/dates"
	"github.com/nyaruka/goflow/envs"
	"github.com/nyaruka/goflow/zzverif"
	"github.com/shopspring/decimal"
)

// VerifC13_Number: every number m x 10^e — mantissa m arbitrary in
// [-100,155] or one of the boundary mantissas (±2^31, 2^63-1, 10^18+1),
// exponent e in [-20,3] — renders to text that converts back to the same
// number, and its JSON form reads back equal.
// cover: integer, fraction, negative, boundary
func VerifC13_Number() {
	env := envs.NewBuilder().Build()
	var d decimal.Decimal
	exps := []int32{-20, -3, -1, 0, 1, 3}
	e := exps[zzverif.Choice("exponent", len(exps))]
	if zzverif.Choice("boundary-mantissa", 2) == 1 {
		ms := []int64{1 << 31, -(1 << 31) - 1, 1<<63 - 1, -(1 << 63), 1000000000000000001}
		d = decimal.New(ms[zzverif.Choice("mantissa", len(ms))], e)
		zzverif.Cover("boundary")
	} else {
		d = decimal.New(int64(zzverif.Int("mantissa", -100, 155)), e)
	}
	n := NewXNumber(d)
	text := n.Render()
	back, xerr := ToXNumber(env, NewXText(text))
	zzverif.Assert(xerr == nil, "a rendered number does not convert back to a number")
	zzverif.Assert(back.Equals(n), "a rendered number converts back to a different number")
	if e < 0 {
		zzverif.Cover("fraction")
	} else {
		zzverif.Cover("integer")
	}
	if d.IsNegative() {
		zzverif.Cover("negative")
	}
}

var verifTimeFormats = []envs.TimeFormat{envs.TimeFormatHourMinute, envs.TimeFormatHourMinuteAmPm, envs.TimeFormatHourMinuteSecond, envs.TimeFormatHourMinuteSecondAmPm}
var verifDateFormats = []envs.DateFormat{envs.DateFormatYearMonthDay, envs.DateFormatMonthDayYear, envs.DateFormatDayMonthYear}

// verifOneOf3: exactly one of three components is arbitrary (symbolic over
// its whole range), the other two take boundary/representative values: every
// condition then mentions one unknown and is decided exactly; arithmetic over
// several unknowns at once (h*3600+m*60+s, days since epoch) with divisions by
// constants is beyond the solvers and outside the claim.
func verifOneOf3(names [3]string, lo, hi [3]int, fixed [3][]int) (int, int, int) {
	which := zzverif.Choice("unknown-component", 3)
	var v [3]int
	for k := 0; k < 3; k++ {
		if k == which {
			v[k] = zzverif.Int(names[k], lo[k], hi[k])
		} else {
			v[k] = fixed[k][zzverif.Choice(names[k]+"-fixed", len(fixed[k]))]
		}
	}
	return v[0], v[1], v[2]
}

// VerifC13_Time: every time of day — each of hour, minute, second arbitrary
// over its whole range against boundary values of the other two — renders in
// ISO form and in each of the four environment time formats to text that
// parses back to the same time at the rendered precision.
// cover: iso, midnight, noon, pm, seconds-dropped, fraction
func VerifC13_Time() {
	h, m, s := verifOneOf3([3]string{"hour", "minute", "second"}, [3]int{0, 0, 0}, [3]int{23, 59, 59},
		[3][]int{{0, 9, 12, 13, 23}, {0, 7, 59}, {0, 30, 59}})
	// fractional seconds: an arbitrary microsecond count in a 256-value window (the ISO form renders microseconds)
	nanos := 0
	if zzverif.Choice("fraction", 2) == 1 {
		bases := []int{0, 999744}
		if zzverif.Thorough() {
			bases = []int{0, 256, 99900, 500000, 999744}
		}
		base := bases[zzverif.Choice("microsecond-window", len(bases))]
		nanos = zzverif.Int("microsecond", base, base+255) * 1000
		zzverif.Cover("fraction")
	}
	t := NewXTime(dates.NewTimeOfDay(h, m, s, nanos))
	k := zzverif.Choice("format", len(verifTimeFormats)+1)
	if h == 0 {
		zzverif.Cover("midnight")
	}
	if h == 12 {
		zzverif.Cover("noon")
	}
	if h > 12 {
		zzverif.Cover("pm")
	}
	if k == len(verifTimeFormats) {
		zzverif.Cover("iso")
		env := envs.NewBuilder().Build()
		back, xerr := ToXTime(env, NewXText(t.Render()))
		zzverif.Assert(xerr == nil && back.Equals(t), "a time rendered in ISO form does not parse back to the same time")
		return
	}
	tf := verifTimeFormats[k]
	env := envs.NewBuilder().WithTimeFormat(tf).Build()
	text := t.Format(env)
	back, xerr := ToXTime(env, NewXText(text))
	zzverif.Assert(xerr == nil, "a time rendered in the environment's format does not parse back")
	want := t
	if tf == envs.TimeFormatHourMinute || tf == envs.TimeFormatHourMinuteAmPm {
		zzverif.Cover("seconds-dropped")
		want = NewXTime(dates.NewTimeOfDay(h, m, 0, 0))
	} else if nanos != 0 {
		want = NewXTime(dates.NewTimeOfDay(h, m, s, 0)) // the environment formats render whole seconds
	}
	zzverif.Assert(back.Equals(want), "a time rendered in the environment's format parses back to a different time")
}

// VerifC13_Date: every valid date — each of year (64-year windows in the quick tier, four 256-year windows of
// 1..9999 in the thorough tier), month, day arbitrary against boundary values of the other two —
// renders in ISO form and in each of the three environment date formats to
// text that parses back to the same date.
// cover: iso, leap-day, year-below-100, year-below-1000, december-31
func VerifC13_Date() {
	bases := []int{1, 1850}
	if zzverif.Thorough() {
		bases = []int{1, 850, 1850, 9744}
	}
	base := bases[zzverif.Choice("year-window", len(bases))]
	span := 63
	if zzverif.Thorough() {
		span = 255
	}
	y, mo, d := verifOneOf3([3]string{"year", "month", "day"}, [3]int{base, 1, 1}, [3]int{base + span, 12, 31},
		[3][]int{{1, 999, 2024, 9999}, {2, 12}, {1, 29, 31}})
	// a valid calendar date
	valid := time.Date(y, time.Month(mo), d, 0, 0, 0, 0, time.UTC)
	zzverif.Assume(valid.Day() == d)
	x := NewXDate(dates.NewDate(y, mo, d))
	if mo == 2 && d == 29 {
		zzverif.Cover("leap-day")
	}
	if y < 100 {
		zzverif.Cover("year-below-100")
	} else if y < 1000 {
		zzverif.Cover("year-below-1000")
	}
	if mo == 12 && d == 31 {
		zzverif.Cover("december-31")
	}
	k := zzverif.Choice("format", len(verifDateFormats)+1)
	if k == len(verifDateFormats) {
		zzverif.Cover("iso")
		env := envs.NewBuilder().Build()
		back, xerr := ToXDate(env, NewXText(x.Render()))
		zzverif.Assert(xerr == nil && back.Equals(x), "a date rendered in ISO form does not parse back to the same date")
		return
	}
	env := envs.NewBuilder().WithDateFormat(verifDateFormats[k]).Build()
	back, xerr := ToXDate(env, NewXText(x.Format(env)))
	zzverif.Assert(xerr == nil, "a date rendered in the environment's format does not parse back")
	zzverif.Assert(back.Equals(x), "a date rendered in the environment's format parses back to a different date")
}

// VerifC13_DateTime: an arbitrary instant (a base instant plus an arbitrary
// multiple of 86399 s, so that date and time of day both vary) in UTC and
// two fixed zones renders in ISO form to text that parses back to the same
// instant, and in each of the nine environment date x time formats to text
// that parses back to the same instant at the rendered precision.
// cover: iso, env-format, non-utc
func VerifC13_DateTime() {
	zones := []*time.Location{time.UTC, time.FixedZone("E5", 5*3600+1800), time.FixedZone("W9", -9*3600)}
	nz, nb, span := 2, 2, 31
	if zzverif.Thorough() {
		nz, nb, span = 3, 4, 255
	}
	tz := zones[zzverif.Choice("timezone", nz)]
	if tz != time.UTC {
		zzverif.Cover("non-utc")
	}
	bases := []int64{-62135596800 + 86400*400, 1710028800, 0, 253402300799 - 86400*400}
	sec := bases[zzverif.Choice("base-instant", nb)] + int64(zzverif.Int("multiple", 0, span))*86399
	t := time.Unix(sec, 0).In(tz)
	x := NewXDateTime(t)
	df := zzverif.Choice("date-format", len(verifDateFormats)+1)
	if df == len(verifDateFormats) {
		zzverif.Cover("iso")
		env := envs.NewBuilder().WithTimezone(tz).Build()
		back, xerr := ToXDateTime(env, NewXText(x.Render()))
		zzverif.Assert(xerr == nil && back.Equals(x), "a datetime rendered in ISO form does not parse back to the same instant")
		return
	}
	zzverif.Cover("env-format")
	tf := verifTimeFormats[zzverif.Choice("time-format", len(verifTimeFormats))]
	env := envs.NewBuilder().WithTimezone(tz).WithDateFormat(verifDateFormats[df]).WithTimeFormat(tf).Build()
	back, xerr := ToXDateTime(env, NewXText(x.Format(env)))
	zzverif.Assert(xerr == nil, "a datetime rendered in the environment's format does not parse back")
	want := t
	if tf == envs.TimeFormatHourMinute || tf == envs.TimeFormatHourMinuteAmPm {
		want = t.Truncate(time.Minute)
	}
	zzverif.Assert(back.Native().Equal(want), "a datetime rendered in the environment's format parses back to a different instant")
}

// VerifC13_JSONNumber: a number written as a JSON number literal — integers
// at and beyond the int64 boundaries, 20-digit integers, decimals with up to
// 19 fraction digits, exponents, each with one arbitrary digit at an
// arbitrary position — read by JSONToXValue (parse_json, webhook responses)
// is exactly the number the literal denotes, and writing it back with
// ToXJSON and reading that again gives the same number.
// cover: beyond-int64, long-fraction, exponent, small
func VerifC13_JSONNumber() {
	menu := []string{"12345678901234567890", "9223372036854775807", "9223372036854775808", "-9223372036854775809",
		"1.0000000000000000001", "0.1234567890123456789", "123456789.123456789", "1e5", "1.5e-7", "42", "-0.5"}
	k := zzverif.Choice("literal", len(menu))
	lit := []byte(menu[k])
	switch {
	case k < 4:
		zzverif.Cover("beyond-int64")
	case k < 7:
		zzverif.Cover("long-fraction")
	case k < 9:
		zzverif.Cover("exponent")
	default:
		zzverif.Cover("small")
	}
	// one arbitrary digit at an arbitrary digit position
	var positions []int
	for p, c := range lit {
		if c >= '0' && c <= '9' && !(p > 0 && (lit[p-1] == 'e' || lit[p-1] == '-' && p > 1 && lit[p-2] == 'e')) {
			positions = append(positions, p)
		}
	}
	p := positions[zzverif.Choice("digit-position", len(positions))]
	// (a fork per digit: JSON syntax is handled on concrete text, only string contents can stay symbolic)
	d := byte('0' + zzverif.Choice("digit", 10))
	// (no leading zero on a multi-digit integer part: not a JSON number)
	first := 0
	if lit[0] == '-' {
		first = 1
	}
	zzverif.Assume(!(p == first && d == '0' && len(lit) > first+1 && lit[first+1] >= '0' && lit[first+1] <= '9'))
	lit[p] = d
	text := string(lit)
	want, err := decimal.NewFromString(text)
	zzverif.Assert(err == nil, "setup: not a decimal")
	x, isNum := JSONToXValue([]byte(text)).(*XNumber)
	zzverif.Assert(isNum, "a JSON number was not read as a number")
	zzverif.Assert(x.Native().Equal(want), "a JSON number was not read as the number it denotes")
	back, xerr := ToXJSON(x)
	zzverif.Assert(xerr == nil, "a number could not be written as JSON")
	y, isNum := JSONToXValue([]byte(back.Native())).(*XNumber)
	zzverif.Assert(isNum && y.Native().Equal(want), "a number does not survive its JSON form")
}

func verifTextOf(v XValue) (string, bool) {
	t, ok := v.(*XText)
	if !ok {
		return "", false
	}
	return t.Native(), true
}

// VerifC13_JSONText: text inside JSON. (a) A text value a·c·b with an
// arbitrary byte c below 0x80 (control characters, DEL, quote, backslash,
// '<', '&') or one of a menu of multi-byte characters (accents, line
// separator, emoji and a non-printing character beyond the BMP, BOM), alone,
// as an object property next to another one, and as an array item, written by
// ToXJSON (json()) and read back by JSONToXValue (parse_json) is the same
// text in the same structure. (b) A JSON document whose string uses a
// \uXXXX escape, an escaped surrogate pair or the short escapes, read and
// written back and read again, gives the text the document denotes.
// cover: control-character, multi-byte, alone, in-object, in-array, escaped-document
func VerifC13_JSONText() {
	if zzverif.Choice("from-document", 2) == 1 {
		docs := []struct{ doc, text string }{
			{`{"msg":"a\u0001b","ok":"fine"}`, "a\x01b"}, {`{"msg":"\u000b","ok":"fine"}`, "\v"}, {`{"msg":"\u007f","ok":"fine"}`, "\x7f"},
			{`{"msg":"😀","ok":"fine"}`, "\U0001F600"}, {`{"msg":"󠀁","ok":"fine"}`, "\U000E0001"},
			{`{"msg":"\b\f\n\r\t\"\\\/","ok":"fine"}`, "\b\f\n\r\t\"\\/"}, {`{"msg":"\u2028é","ok":"fine"}`, "\u2028é"},
		}
		d := docs[zzverif.Choice("document", len(docs))]
		zzverif.Cover("escaped-document")
		obj, isObj := JSONToXValue([]byte(d.doc)).(*XObject)
		zzverif.Assert(isObj, "a JSON object was not read as an object")
		back, xerr := ToXJSON(obj)
		zzverif.Assert(xerr == nil, "an object read from JSON could not be written back as JSON")
		again, isObj := JSONToXValue([]byte(back.Native())).(*XObject)
		zzverif.Assert(isObj && again.Count() == 2, "an object written back as JSON lost or gained properties")
		msg, _ := again.Get("msg")
		ok, _ := again.Get("ok")
		mt, isText := verifTextOf(msg)
		ot, isText2 := verifTextOf(ok)
		zzverif.Assert(isText && isText2 && mt == d.text && ot == "fine", "a JSON document written back is not equivalent to the original")
		return
	}
	var s string
	if zzverif.Choice("multi-byte", 2) == 1 {
		menu := []string{"é", "\u2028", "\U0001F600", "\U000E0001", "\ufeff", "\u0085"}
		s = "a" + menu[zzverif.Choice("character", len(menu))] + "b"
		zzverif.Cover("multi-byte")
	} else {
		c := zzverif.Byte("character")
		zzverif.Assume(c < 0x80)
		if c < 0x20 || c == 0x7f {
			zzverif.Cover("control-character")
		}
		s = "a" + string([]byte{c}) + "b"
	}
	var v XValue
	shape := zzverif.Choice("shape", 3)
	switch shape {
	case 0:
		v = NewXText(s)
		zzverif.Cover("alone")
	case 1:
		v = NewXObject(map[string]XValue{"msg": NewXText(s), "ok": NewXText("fine")})
		zzverif.Cover("in-object")
	default:
		v = NewXArray(NewXText("fine"), NewXText(s))
		zzverif.Cover("in-array")
	}
	j, xerr := ToXJSON(v)
	zzverif.Assert(xerr == nil, "a text value could not be written as JSON")
	back := JSONToXValue([]byte(j.Native()))
	var got XValue
	switch shape {
	case 0:
		got = back
	case 1:
		obj, isObj := back.(*XObject)
		zzverif.Assert(isObj && obj.Count() == 2, "an object written as JSON reads back with other properties")
		got, _ = obj.Get("msg")
		ok, _ := obj.Get("ok")
		ot, isText := verifTextOf(ok)
		zzverif.Assert(isText && ot == "fine", "an object written as JSON reads back with another property value")
	default:
		arr, isArr := back.(*XArray)
		zzverif.Assert(isArr && arr.Count() == 2, "an array written as JSON reads back with another length")
		got = arr.Get(1)
	}
	gt, isText := verifTextOf(got)
	zzverif.Assert(isText && gt == s, "a text value does not survive its JSON form")
}

// VerifC13_JSONKeys: "a JSON document read with parse_json and written back
// with json() is JSON-equivalent to the original", for the *keys* of an
// object: a document {"<key>": 1, "a": {"<key>": "x"}} whose key is an
// arbitrary name of up to 11 characters out of [a-z_] (the solver chooses the
// characters; jsonparser scans them), read, written back and read again, has
// both properties under the same keys at both levels.
// cover: short-key, long-key, both-levels
func VerifC13_JSONKeys() {
	key := zzverif.String("key", 11)
	for i := 0; i < len(key); i++ {
		zzverif.Assume(key[i] >= '_') // '_', then '`' (excluded), then a..z
		zzverif.Assume(key[i] <= 'z')
		zzverif.Assume(key[i] != '`')
	}
	zzverif.Assume(len(key) > 0 && key != "a")
	if len(key) < 11 {
		zzverif.Cover("short-key")
	} else {
		zzverif.Cover("long-key")
	}
	doc := `{"` + key + `": 1, "a": {"` + key + `": "x"}}`
	obj, isObj := JSONToXValue([]byte(doc)).(*XObject)
	zzverif.Assert(isObj, "a JSON object was not read as an object")
	back, xerr := ToXJSON(obj)
	zzverif.Assert(xerr == nil, "an object read from JSON could not be written back as JSON")
	again, isObj := JSONToXValue([]byte(back.Native())).(*XObject)
	zzverif.Assert(isObj, "an object written back as JSON does not read as an object")
	// the reserved key under which goflow itself serialises an object's default value
	zzverif.Known("C13-json-default-key", key == "__default__")
	zzverif.Note("document", doc, " written back as ", back.Native())
	v, found := again.Get(key)
	n, isNum := v.(*XNumber)
	zzverif.Assert(again.Count() == 2 && found && isNum && n.Equals(NewXNumberFromInt(1)), "a JSON document written back by json() lost or changed a top-level property")
	inner, _ := again.Get("a")
	io, isObj := inner.(*XObject)
	zzverif.Assert(isObj && io.Count() == 1, "a JSON document written back by json() lost or changed a nested property")
	iv, found := io.Get(key)
	it, isText := verifTextOf(iv)
	zzverif.Assert(found && isText && it == "x", "a JSON document written back by json() lost or changed a nested property")
	zzverif.Cover("both-levels")
}
