package refactor

import (
	"strings"

	"github.com/nyaruka/goflow/excellent"
	"github.com/nyaruka/goflow/zzverif"
)

// VerifC11_Rename: for every generated expression, renaming the context
// reference "foo" to "bar" changes exactly the references named foo (any
// case): the structure after the rename equals the structure before with
// those references replaced, and the printed result re-parses to it.
// cover: renamed, untouched, dotted
func VerifC11_Rename() {
	src := excellent.VerifGenExpression(2)
	e, err := excellent.Parse(src, nil)
	if err != nil {
		return
	}
	// a plain rename, or (as the 13.3 migration's webhook -> webhook.json) a rename to a dotted
	// extension of the old name whose added part is also a lookup key the expressions use
	newName := "bar"
	dotted := zzverif.Choice("rename-to-dotted-extension", 2) == 1
	if dotted {
		newName = "foo.Foo"
		zzverif.Cover("dotted")
	}
	before := excellent.VerifNormDump(e)
	changed := ContextRefRename("foo", newName)(e)
	after := excellent.VerifNormDump(e)
	want := strings.ReplaceAll(before, "(ref foo)", "(ref "+strings.ToLower(newName)+")")
	zzverif.Assert(after == want, "renaming a context reference changed something other than exactly the renamed references")
	zzverif.Assert(changed == (before != after), "the rename's 'changed' result disagrees with whether anything was renamed")
	if changed {
		zzverif.Cover("renamed")
		if !dotted {
			back, err := excellent.Parse(e.String(), nil)
			zzverif.Assert(err == nil && excellent.VerifNormDump(back) == after, "the printed form of a renamed expression does not parse back to it")
		}
	} else {
		zzverif.Cover("untouched")
	}
}

// VerifC11_TemplateIdentity: rewriting any ASCII template of ≤ 5 bytes (quick)
// / 6 (thorough) with a transformation that changes nothing returns the
// template unchanged, whatever it contains (expressions, identifiers, '@@',
// unterminated expressions).
// cover: has-expression, plain
func VerifC11_TemplateIdentity() {
	n := 5
	if zzverif.Thorough() {
		n = 6
	}
	tmpl := zzverif.String("template", n)
	for i := 0; i < len(tmpl); i++ {
		zzverif.Assume(tmpl[i] != 0 && tmpl[i] < 0x80)
	}
	out, _ := Template(tmpl, []string{"a"}, func(excellent.Expression) bool { return false })
	zzverif.Assert(out == tmpl, "an identity rewrite changed the template")
	if excellent.HasExpressions(tmpl, []string{"a"}) {
		zzverif.Cover("has-expression")
	} else {
		zzverif.Cover("plain")
	}
}
