// Package zzverif is the nondeterminism API shared by every harness.  The same
// harness source runs (a) symbolically, where gosym intercepts these calls and
// turns inputs into solver variables, and (b) natively, where the functions
// below read the concrete values of one solver model from the replay file
// named by $VERIF_REPLAY.  It is injected into /repo as an overlay; nothing is
// committed there.
package zzverif

import (
	"encoding/json"
	"fmt"
	"os"
	"reflect"
	"strings"
	"time"

	"github.com/go-playground/validator/v10"

	"github.com/nyaruka/gocommon/dates"
	"github.com/nyaruka/gocommon/uuids"
)

type input struct {
	Name string `json:"name"`
	Kind string `json:"kind"`
	V    int64  `json:"v"`
	S    string `json:"s,omitempty"`
}

type replay struct {
	Harness  string  `json:"harness"`
	Inputs   []input `json:"inputs"`
	Thorough bool    `json:"thorough"`
}

var (
	cur    replay
	pos    int
	loaded bool
	Covers []string
	Notes  []string
	Knowns []string
)

// FailError is the panic value of a failed assertion in a native run.
type FailError struct{ Msg string }

func (f FailError) Error() string { return "VERIF-FAIL: " + f.Msg }

// AssumeError is the panic value of a violated assumption in a native run
// (the replay file does not satisfy the harness's assumptions).
type AssumeError struct{}

func (AssumeError) Error() string { return "VERIF-ASSUME" }

// Load reads the replay file; called by the generated test driver.
func Load() string {
	paths := ReplayPaths()
	if len(paths) == 0 {
		loaded = true
		pos = 0
		Covers, Notes, Knowns = nil, nil, nil
		return ""
	}
	return LoadPath(paths[0])
}

// ReplayPaths lists the replay files named by VERIF_REPLAY (one, or several
// separated by the path list separator).
func ReplayPaths() []string {
	var out []string
	for _, p := range strings.Split(os.Getenv("VERIF_REPLAY"), string(os.PathListSeparator)) {
		if p != "" {
			out = append(out, p)
		}
	}
	return out
}

// LoadPath reads one replay file.
func LoadPath(p string) string {
	loaded = true
	pos = 0
	cur = replay{}
	Covers, Notes, Knowns = nil, nil, nil
	b, err := os.ReadFile(p)
	if err != nil {
		panic(err)
	}
	if err := json.Unmarshal(b, &cur); err != nil {
		panic(err)
	}
	return cur.Harness
}

func next(kind string) int64 {
	if pos < len(cur.Inputs) {
		in := cur.Inputs[pos]
		pos++
		return in.V
	}
	pos++
	return 0
}

// Symbolic reports whether the harness is being executed symbolically.
func Symbolic() bool { return false }

// Thorough reports whether the thorough tier's bounds apply.
func Thorough() bool { return cur.Thorough }

func Bool(name string) bool { return next("bool") != 0 }
func Byte(name string) byte { return byte(next("byte")) }

// Int returns an arbitrary int in [lo,hi].
func Int(name string, lo, hi int) int {
	v := int(next("int"))
	if v < lo || v > hi {
		panic(AssumeError{})
	}
	return v
}

// Choice returns an arbitrary value in [0,n); symbolically the executor forks.
func Choice(name string, n int) int {
	v := int(next("choice"))
	if v < 0 || v >= n {
		panic(AssumeError{})
	}
	return v
}

// ChoiceOf returns an arbitrary element of options.  The replay file records
// the chosen string, not its index, so that a replay stays valid when the
// option list (e.g. a registry that other linked packages add to) differs
// between the symbolic load and the native test binary.
func ChoiceOf(name string, options []string) string {
	if pos < len(cur.Inputs) {
		in := cur.Inputs[pos]
		pos++
		for _, o := range options {
			if o == in.S {
				return o
			}
		}
		panic(AssumeError{})
	}
	pos++
	if len(options) == 0 {
		panic(AssumeError{})
	}
	return options[0]
}

// Bytes returns an arbitrary byte slice of length ≤ maxLen.
func Bytes(name string, maxLen int) []byte {
	n := Choice(name+".len", maxLen+1)
	b := make([]byte, n)
	for i := range b {
		b[i] = Byte(name)
	}
	return b
}

// BytesN returns an arbitrary byte slice of exactly n bytes.
func BytesN(name string, n int) []byte {
	b := make([]byte, n)
	for i := range b {
		b[i] = Byte(name)
	}
	return b
}

func String(name string, maxLen int) string { return string(Bytes(name, maxLen)) }
func StringN(name string, n int) string     { return string(BytesN(name, n)) }

func Assume(c bool) {
	if !c {
		panic(AssumeError{})
	}
}

func Assert(c bool, msg string) {
	if !c {
		panic(FailError{msg})
	}
}

func Fail(msg string) { panic(FailError{msg}) }

// Cover marks a situation the harness exists to reach (vacuity witness).
func Cover(label string) { Covers = append(Covers, label) }

// Known classifies the rest of this path: if pred holds, a failure on it is
// the listed known finding id rather than a new violation.
func Known(id string, pred bool) bool {
	if pred {
		Knowns = append(Knowns, id)
	}
	return pred
}

// Note records a sample for the evidence file.
func Note(args ...any) { Notes = append(Notes, fmt.Sprint(args...)) }

// Unwind sets the unwinding bound (symbolic loop-header visits per frame).
func Unwind(n int) {}

// SymbolicMapOrder makes every following range over a map take an arbitrary
// order symbolically; natively Go's own randomisation applies.
func SymbolicMapOrder(on bool) {}

// ResetEnv restarts the deterministic clock and UUID source, so that two
// executions inside one harness see the same streams (2-run self-composition).
// Symbolically the executor resets its own stubs.
func ResetEnv() {
	uuids.SetGenerator(uuids.NewSeededGenerator(1234, dates.NewSequentialNow(time.Date(2025, 1, 1, 0, 0, 0, 0, time.UTC), time.Second)))
	dates.SetNowFunc(dates.NewSequentialNow(time.Date(2025, 1, 1, 0, 0, 0, 0, time.UTC), time.Second))
}

// Freeze marks everything reachable from root as shared and immutable: from
// here on a write to it outside a held mutex is a violation (symbolic runs).
func Freeze(name string, root any) {}

// FreezeGlobals marks the package-level state of goflow and gocommon (and
// everything reachable from it) as shared and immutable, like Freeze.
func FreezeGlobals() {}

// Guard marks everything reachable from root as lock-guarded: reads and
// writes outside a held mutex are violations (symbolic runs).
func Guard(name string, root any) {}

// Parallel runs fn from n goroutines natively (under the race detector in
// replays); symbolically fn runs once and the monitors check the discipline.
func Parallel(n int, fn func(worker int)) {
	done := make(chan any, n)
	for w := 0; w < n; w++ {
		go func(w int) {
			defer func() { done <- recover() }()
			fn(w)
		}(w)
	}
	for w := 0; w < n; w++ {
		if r := <-done; r != nil {
			panic(r)
		}
	}
}

// Run executes fn natively and reports how it ended.
func Run(fn func()) (outcome string, detail string) {
	defer func() {
		if r := recover(); r != nil {
			switch e := r.(type) {
			case FailError:
				outcome, detail = "fail", e.Msg
			case AssumeError:
				outcome, detail = "assume", ""
			default:
				outcome, detail = "panic", fmt.Sprint(r)
			}
		}
	}()
	fn()
	return "pass", ""
}

// FieldLevel is what gosym hands to the validator functions goflow registers
// for its own validation tags: they only ask for the field's value.
type FieldLevel struct {
	validator.FieldLevel
	V reflect.Value
}

func (f FieldLevel) Field() reflect.Value { return f.V }
